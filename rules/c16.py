"""C16 — The emitted server schema string re-parses to the schema that was checked."""
import harness
from facts import (norm, lit_value, call_name, short, subnodes, matches_on_type, lit_table, str_lits_in,
                   field_reads)
from prov import Prov, has_field, has_call
from templates import field_coverage, LOSSY_OR_REORDERING

TRAIT = "nitrogql_printer::graphql_printer::GraphQLPrinter"
A = "nitrogql_ast::"
AST_TYPES = [
    # executable documents
    "operation::OperationDocument", "operation::OperationDefinition", "operation::FragmentDefinition",
    "variable::VariablesDefinition", "variable::VariableDefinition", "variable::Variable",
    "selection_set::SelectionSet", "selection_set::Field", "selection_set::FragmentSpread",
    "selection_set::InlineFragment", "directive::Directive", "value::Arguments",
    "value::IntValue", "value::FloatValue", "value::StringValue", "value::EnumValue",
    "value::ListValue", "value::ObjectValue", "type::NamedType", "type::NonNullType", "type::ListType",
    "base::Ident", "operation_ext::OperationDocumentExt", "operation_ext::ImportDefinition",
    # type-system documents
    "type_system::TypeSystemDocument", "type_system::TypeSystemOrExtensionDocument",
    "type_system::SchemaDefinition", "type_system::ScalarTypeDefinition", "type_system::ObjectTypeDefinition",
    "type_system::FieldDefinition", "type_system::InterfaceTypeDefinition", "type_system::UnionTypeDefinition",
    "type_system::DirectiveDefinition", "type_system::ArgumentsDefinition", "type_system::InputValueDefinition",
    "type_system::EnumTypeDefinition", "type_system::EnumValueDefinition", "type_system::InputObjectTypeDefinition",
    "type_system::SchemaExtension", "type_system::ScalarTypeExtension", "type_system::ObjectTypeExtension",
    "type_system::InterfaceTypeExtension", "type_system::UnionTypeExtension", "type_system::EnumTypeExtension",
    "type_system::InputObjectTypeExtension",
]
# BooleanValue/NullValue are printed through their `keyword` (the source spelling), which is content here
AST_TYPES_KEYWORD = ["value::BooleanValue", "value::NullValue"]
EXEMPT = {
    ("value::BooleanValue", "value"): "printed through `keyword`, which spells the same boolean",
}


CHNAME = {'"': "dquote", "\\": "backslash", "\n": "lf", "\r": "cr", "`": "backtick", "{": "lbrace"}


def printer_scope(P):
    impls = [f for f in P.trait_impls(TRAIT, "print_graphql") if (f.self_adt or "").startswith(A) or
             (f.self_ty or "").startswith(A)]
    reach = P.reachable(impls)
    return sorted(p for p in reach if "nitrogql_printer::graphql_printer::" in p), impls


def r16a(P, R):
    ps = P.fn("graphql_printer::utils::print_string")
    ms = matches_on_type(ps, "char")
    R.floor("R16-a", "char matches in print_string", len(ms), 1)
    # oracle: GraphQL spec StringCharacter = SourceCharacter but not `"` or `\` or LineTerminator;
    # the same set the grammar's NormalStringCharacter excludes.
    need = ['"', "\\", "\n", "\r"]
    for m in ms:
        rows = lit_table(m)
        explicit = {}
        control_guard = False
        for lits, guard, catch, arm in rows:
            for l in lits:
                explicit[l] = arm
            if guard and any((call_name(n) or "").endswith("is_control") for n in subnodes(arm["guard"])):
                control_guard = True
        for ch in need:
            covered = ch in explicit or (control_guard and ch in "\n\r")
            esc = True
            if ch in explicit:
                lits = str_lits_in(explicit[ch]["body"])
                esc = any(s.startswith("\\") for s in lits)
            R.check("R16-a", "graphql-string:%s" % CHNAME[ch], covered and esc,
                    "character %r is escaped in single-line GraphQL strings" % ch,
                    "print_string (single-line branch) has no escaping arm for %r, which the grammar's "
                    "NormalStringCharacter forbids raw: the printed literal does not re-parse to the same string" % ch,
                    loc=ps.loc())
    # other control characters: written as a \\u escape whose digits are hexadecimal
    for m in ms:
        for lits, guard, catch, arm in lit_table(m):
            if not (guard and any((call_name(n) or "").endswith("is_control") for n in subnodes(arm["guard"]))):
                continue
            pieces = str_lits_in(arm["body"])
            fmt_calls = {(call_name(n) or "").split("::")[-1] for n in subnodes(arm["body"]) if n.get("k") == "Call" and "fmt::rt::Argument::" in (call_name(n) or "")}
            hexa = bool(fmt_calls) and fmt_calls <= {"new_lower_hex", "new_upper_hex"}
            brace = any(p_.endswith("\\u{") for p_ in pieces) and any(p_.startswith("}") for p_ in pieces)
            if not any("\\u" in p_ for p_ in pieces):
                R.violated("R16-a", "graphql-string:control-escape", "control characters are not written as a \\u escape (pieces %s)" % pieces, loc=ps.loc())
            elif not hexa:
                R.violated("R16-a", "graphql-string:control-escape", "the \\u escape of a control character formats its code point with %s, not in hexadecimal: "
                           "U+000C is printed as `\\u0012` and read back as U+0012" % sorted(fmt_calls), loc=ps.loc())
            elif brace:
                R.holds("R16-a", "graphql-string:control-escape", "control characters -> \\u{hex}")
            else:
                R.undecided("R16-a", "graphql-string:control-escape", "fixed-width \\uXXXX form: width not decoded", loc=ps.loc())
    # block string: the `\"""` escape literal is pushed
    R.check("R16-a", "graphql-blockstring:triple-quote", '\\"""' in str_lits_in(ps.body),
            'block strings escape `"""` as `\\"""`', 'print_string never emits the `\\"""` escape for block strings', loc=ps.loc())
    # JS template literal
    jw = P.fn("<sourcemap_writer::js_string_writer::JsStringWriter as sourcemap_writer::writer::SourceMapWriter>::write")
    ms = matches_on_type(jw, "char")
    R.floor("R16-a", "char matches in JsStringWriter::write", len(ms), 1)
    for m in ms:
        explicit = {}
        for lits, guard, catch, arm in lit_table(m):
            for l in lits:
                explicit[l] = arm
        for ch, why in (("\\", "backslash starts an escape in template literals"),
                        ("`", "backtick terminates the template literal"),
                        ("{", "`${` starts a substitution")):
            ok = ch in explicit and any(s.startswith("\\") for s in str_lits_in(explicit[ch]["body"]))
            R.check("R16-a", "js-template:%s" % CHNAME[ch], ok, "%r is escaped (%s)" % (ch, why),
                    "JsStringWriter::write has no escaping arm for %r (%s)" % (ch, why), loc=jw.loc())
        # the `{` escape must depend on the previous character being `$` and the flag must be updated from c == '$'
        if "{" in explicit:
            body_atoms = [n for n in subnodes(explicit["{"]["body"]) if n.get("k") == "If"]
            R.check("R16-a", "js-template:dollar-flag", bool(body_atoms), "`{` is escaped only after `$`",
                    "the `{` arm is not conditional on the previous `$`", loc=jw.loc())
    # the `$` flag is recomputed from the current character alone (`$$` followed by `{` must still be escaped)
    pvj = Prov(jw)
    flag_ids = set()
    for m in ms:
        for lits, guard, catch, arm in lit_table(m):
            if "{" in lits:
                for i_ in subnodes(arm["body"]):
                    if i_.get("k") == "If" and i_["cond"].get("k") == "Path" and "local" in i_["cond"]:
                        flag_ids.add(i_["cond"]["local"])
    flag_assigns = [n for n in jw.walk() if n.get("k") == "Assign" and n["l"].get("k") == "Path" and n["l"].get("local") in flag_ids]
    R.floor("R16-a", "dollar-flag updates", len(flag_assigns), 1)
    for n in flag_assigns:
        refs = [x for x in subnodes(n["r"]) if x.get("k") == "Path" and x.get("local") in flag_ids]
        lits = [x.get("v") for x in subnodes(n["r"]) if x.get("k") == "Lit"]
        R.check("R16-a", "js-template:dollar-flag-update", not refs and lits == ["$"],
                "flag := (c == '$'), independent of its previous value",
                "the `$`-seen flag is updated from %s: after an even run of `$` a following `{` is written unescaped and `${` "
                "becomes a live substitution" % ("its own previous value" if refs else lits), loc=jw.loc())
    # every text path goes through `write`
    wf = P.fn("<sourcemap_writer::js_string_writer::JsStringWriter as sourcemap_writer::writer::SourceMapWriter>::write_for")
    R.check("R16-a", "js-template:write_for", jw.path in P.callees_of(wf)[0], "write_for delegates to the escaping write",
            "JsStringWriter::write_for does not go through the escaping write", loc=wf.loc())
    writers = []
    for f in P.fns.values():
        if ("sourcemap_writer::js_string_writer::JsStringWriter", "buffer") in field_reads(f) and "::tests" not in f.path:
            writers.append(f.path)
    allowed = {jw.path, P.fn("js_string_writer::JsStringWriter::new").path,
               P.fn("<sourcemap_writer::js_string_writer::JsStringWriter as core::ops::drop::Drop>::drop").path}
    R.check("R16-a", "js-template:buffer-owners", set(writers) <= allowed,
            "only new/write/drop touch the output buffer", "other functions write the JsStringWriter buffer unescaped: %s"
            % sorted(set(writers) - allowed))
    new = P.fn("js_string_writer::JsStringWriter::new")
    drop = P.fn("<sourcemap_writer::js_string_writer::JsStringWriter as core::ops::drop::Drop>::drop")
    R.check("R16-d", "template-open", any(s.startswith("`") for s in str_lits_in(new.body)),
            "JsStringWriter::new opens the template literal", "JsStringWriter::new does not open a backtick", loc=new.loc())
    R.check("R16-d", "template-close", any(n.get("k") == "Lit" and n.get("v") == "`" for n in drop.walk()),
            "Drop closes the template literal", "Drop for JsStringWriter does not push the closing backtick", loc=drop.loc())


def r16b(P, R):
    scope, impls = printer_scope(P)
    R.count("graphql_printer_functions", len(scope))
    n = field_coverage(P, R, "R16-b", scope, [A + t for t in AST_TYPES], EXEMPT, "the GraphQL (SDL/operation) printer")
    # keyword-carrying literals
    from templates import reads_in
    reads = reads_in(P, scope)
    for t in AST_TYPES_KEYWORD:
        adt = P.adt(A + t)
        ok = (adt.path, "keyword") in reads
        R.check("R16-b", "%s.keyword" % t.split("::")[-1], ok, "printed via keyword",
                "`%s` is never printed" % adt.path)
        n += 1
    R.floor("R16-b", "AST content fields", n, 100)
    # every enum variant of the AST sum types is matched explicitly by its impl (no catch-all swallowing a kind)
    from facts import matches_on, arm_variants
    for enum, nvar in (("value::Value", 9), ("type::Type", 3), ("selection_set::Selection", 3),
                       ("operation::ExecutableDefinition", 2), ("type_system::TypeDefinition", 6),
                       ("type_system::TypeExtension", 6), ("type_system::TypeSystemDefinition", 3),
                       ("type_system::TypeSystemDefinitionOrExtension", 5),
                       ("operation_ext::ExecutableDefinitionExt", 3), ("operation_ext::ImportTarget", 2)):
        adt = P.adt(A + enum)
        found = False
        for f in impls:
            for m in matches_on(f, enum):
                found = True
                v, catch = arm_variants(m)
                allv = set(adt.variant_names())
                R.check("R16-b", "variants:" + enum.split("::")[-1] + "@" + short(f.path), v == allv and not catch,
                        "all %d variants printed" % len(allv),
                        "GraphQL printer match over %s handles %s of %s (catch-all=%s)" % (enum, sorted(v), sorted(allv), catch),
                        loc=f.loc())
        if not found:
            # ImportTarget is matched inside ImportDefinition's impl
            hit = [f for f in P.fns.values() if "graphql_printer" in f.path and matches_on(f, enum)]
            R.check("R16-b", "variants:" + enum.split("::")[-1], bool(hit), "matched", "no printer matches over %s" % enum)


def r16e(P, R):
    """lossless printing: no filtering/reordering adaptor and no early loop exit in the AST printer"""
    from templates import LOSSY_OR_REORDERING
    scope, impls = printer_scope(P)
    n = 0
    for p in scope:
        f = P.fns[p]
        if "graphql_printer::schema::" in p:
            continue
        for c in f.walk():
            if c.get("k") == "MethodCall":
                n += 1
                if c["method"] in LOSSY_OR_REORDERING:
                    R.violated("R16-e", "lossy:%s:%s" % (short(f.path), c["method"]),
                               "%s applies `%s` while printing: a component of the document can be dropped or reordered"
                               % (f.path, c["method"]), loc=f.loc())
        exits = [x for x in f.walk() if (x.get("k") == "Break" and "desugar" not in (x.get("x") or "")) or x.get("k") == "Ret"]
        if exits and f.name == "print_graphql":
            R.violated("R16-e", "early-exit:" + short(f.path), "%s leaves a printing function/loop early" % f.path, loc=f.loc())
    R.holds("R16-e", "lossy:none", "%d method calls inspected in the AST printer, none filters/reorders" % n)
    R.floor("R16-e", "method calls inspected", n, 300)


def r16f(P, R):
    """separator discipline: a branch that prints list elements without a separator may only be taken for < 2 elements"""
    scope, impls = printer_scope(P)
    n = 0
    for p in scope:
        f = P.fns[p]
        if "graphql_printer::schema::" in p:
            continue
        for node in f.walk():
            if node.get("k") != "If":
                continue
            c = node["cond"]
            while c.get("k") == "DropTemps":
                c = c["e"]
            if c.get("k") != "Binary" or c.get("op") not in ("<", "<=", "==", ">", ">="):
                continue
            l, r = c["l"], c["r"]
            if not (l.get("k") == "MethodCall" and l["method"] == "len" and lit_value(r) is not None):
                # also `let len = x.len(); if len < 2`
                if not (l.get("k") == "Path" and lit_value(r) is not None and "usize" == l.get("t")):
                    continue
            try:
                k = int(lit_value(r))
            except Exception:
                continue
            op = c["op"]
            if op not in ("<", "<="):
                continue
            max_compact = k - 1 if op == "<" else k
            # does the compact (then) branch write a separator inside its loop?
            then_lits = [x for x in str_lits_in(node["then"])]
            has_sep = any(s.strip(" ") in (",", "\n", ",\n") or s in (", ", "\n") for s in then_lits if s not in (": ",))
            n += 1
            R.check("R16-f", "compact-threshold:%s#%d" % (short(f.path), n), max_compact <= 1 or has_sep,
                    "separator-less form only for at most %d element(s)" % max_compact,
                    "%s prints up to %d elements in its compact form, which writes no separator between elements: the printed text "
                    "does not re-parse (e.g. `{a: 1b: 2}`)" % (f.path, max_compact), loc=f.loc())
    R.floor("R16-f", "compact/multiline thresholds", n, 3)


def r16c(P, R):
    nb = P.fn("nitrogql_cli::builtins::nitrogql_builtins")
    rb = P.fn("nitrogql_cli::builtins::remove_builtins")
    # names defined
    defined = set()
    for n in nb.walk():
        if n.get("k") == "Struct" and (n.get("adt") or "").endswith("DirectiveDefinition") and "rest" not in n:
            for f in n["fields"]:
                if f["name"] == "name":
                    for x in subnodes(f["e"]):
                        if x.get("k") == "Lit" and x.get("lk") == "str":
                            defined.add(x["v"])
    compared = []
    for n in rb.walk():
        if n.get("k") == "Binary" and n.get("op") in ("!=", "=="):
            for side in (n["l"], n["r"]):
                v = lit_value(side)
                if isinstance(v, str):
                    compared.append((n.get("op"), v))
    R.floor("R16-c", "nitrogql-only directive definitions", len(defined), 1)
    R.floor("R16-c", "name filters in remove_builtins", len(compared), 2)
    for op, v in compared:
        R.check("R16-c", "filter:%s" % v, v in defined and op == "!=",
                "filter keeps everything except `%s`" % v,
                "remove_builtins filters by `%s %s`, but the nitrogql-only directives defined are %s" % (op, v, sorted(defined)),
                loc=rb.loc())
    for d in defined:
        R.check("R16-c", "covered:%s" % d, sum(1 for _, v in compared if v == d) >= 2,
                "definition and applications of @%s are both removed" % d,
                "@%s is defined as nitrogql-only but is not removed from both definitions and applications" % d, loc=rb.loc())
    # the server schema is printed from remove_builtins(..) in both LoadedSchema arms, into a JsStringWriter
    rg = P.fn("nitrogql_cli::generate::run_generate")
    pv = Prov(rg)
    calls = [n for n in rg.walk() if n.get("k") == "MethodCall" and n.get("method") == "print_graphql"]
    R.floor("R16-c", "server-schema print sites", len(calls), 2)
    for i, c in enumerate(calls):
        a = pv.atoms(c["recv"])
        R.check("R16-c", "server-route:%d" % i, has_call(a, "builtins::remove_builtins"),
                "printed schema derives from remove_builtins(..)", "server schema is printed without remove_builtins", loc=rg.loc())
        wt = norm(c["args"][0].get("t", ""))
        R.check("R16-d", "server-writer:%d" % i, "JsStringWriter" in wt, "printed into the escaping JsStringWriter",
                "server schema is printed into `%s`, not the template-literal writer" % wt, loc=rg.loc())


def r16g(P, R):
    """the model plugin's runtime-server transformation removes @model and nothing else: every component it rebuilds is rebuilt from
    the same component of the same node"""
    fs = [f for f in P.fns.values() if f.path.endswith("::transform_document_for_runtime_server") and "model_plugin" in f.path and not f.derived]
    R.floor("R16-g", "model plugin runtime-server transformation", len(fs), 1)
    for f in fs:
        pv = Prov(f)
        lits = [n for n in f.walk() if n.get("k") == "Struct" and "rest" not in n and n.get("base") is not None and norm(n.get("adt", "")).startswith(A)]
        R.floor("R16-g", "functional-update literals", len(lits), 2)
        for n in lits:
            adt = norm(n["adt"])
            base_locals = {y["local"] for y in subnodes(n["base"]) if y.get("k") == "Path" and "local" in y}
            for fld in n["fields"]:
                a = pv.atoms(fld["e"])
                own = has_field(a, adt, fld["name"])
                foreign = sorted((x[1].split("::")[-1], x[2]) for x in a if x[0] == "field" and x[2] == fld["name"] and x[1] != adt and x[1].startswith(A))
                R.check("R16-g", "rebuilt:%s.%s" % (adt.split("::")[-1], fld["name"]), own and not (foreign and not own),
                        "`%s` is rebuilt from the node's own `%s`" % (fld["name"], fld["name"]),
                        "%s rebuilds %s.%s from %s instead of the node's own `%s`: the printed schema no longer denotes the checked one"
                        % (f.path, adt.split("::")[-1], fld["name"], foreign or "other data", fld["name"]), loc=f.loc())
        removed = sorted({x.get("v") for c in f.walk() if c.get("k") == "Binary" and c.get("op") in ("==", "!=") for x in subnodes(c) if x.get("k") == "Lit" and x.get("lk") == "str"})
        R.check("R16-g", "removes-only-model", removed == ["model"], "only the `model` directive is filtered out",
                "the transformation filters by names %s" % removed, loc=f.loc())
        bad = [c["method"] for c in f.walk() if c.get("k") == "MethodCall" and c["method"] in (LOSSY_OR_REORDERING - {"filter"})]
        R.check("R16-g", "no-other-loss", not bad, "no truncating/reordering adaptor", "the transformation applies %s" % bad, loc=f.loc())


RULES = [("R16-a", r16a), ("R16-b", r16b), ("R16-c", r16c), ("R16-e", r16e), ("R16-f", r16f), ("R16-g", r16g)]
EXPLANATION = (
    "Static necessary conditions for print/re-parse fidelity: (R16-a) escape tables — the single-line string printer has "
    "an escaping arm for every character the GraphQL grammar forbids raw, the block-string printer escapes the triple "
    "quote, and the JS template-literal writer escapes backslash, backtick and `${`, with all text funnelled through it; "
    "(R16-b) non-interference — every content field of every AST node type is read by some GraphQLPrinter function and "
    "every variant of every AST sum type is printed explicitly; (R16-c) the nitrogql-only directive name defined equals "
    "the name filtered from definitions and applications, and both server-schema routes print remove_builtins(..) into "
    "the escaping writer (R16-d: template opened in new, closed in Drop). Not decided: parse(eval(template)) = schema.")
ASSUMPTIONS = ["GraphQL spec §2.9.4 StringCharacter table and ECMAScript template literal lexical grammar, transcribed by hand",
               "rustc's type checker / HIR of nightly 1.97"]


def main(tier):
    return harness.run_property("C16", RULES, "other", EXPLANATION, ASSUMPTIONS, tier)
