"""C08 — No input text can make the toolchain panic; failures are diagnostics (panic inventory + recursion guards)."""
import os
import harness
from facts import (norm, call_name, short, subnodes, lit_value, str_lits_in, field_reads)
from prov import Prov, has_field, has_call
from mirq import MirQ
from templates import enclosing_contexts
from panics import site_keys
import gram as G

PB = "nitrogql_parser::parser::builder"
PAIRIMPL = "<pest::iterators::pair::Pair<nitrogql_parser::parser::Rule> as nitrogql_parser::parser::builder::utils::PairExt>::"

ENTRIES = [
    "nitrogql_parser::parser::parse_operation_document", "nitrogql_parser::parser::parse_type_system_document",
    "nitrogql_semantics::schema_extension_resolver::resolve_schema_extensions",
    "nitrogql_semantics::operation_extension_resolver::resolve_operation_extensions",
    "nitrogql_semantics::operation_import_resolver::resolve_operation_imports",
    "nitrogql_checker::type_system_checker::check_type_system_document", "nitrogql_checker::operation_checker::check_operation_document",
    "nitrogql_printer::operation_type_printer::print_types_for_operation_document",
    "nitrogql_printer::schema_type_printer::printer::SchemaTypePrinter::print_document",
    "nitrogql_printer::resolver_type_printer::printer::ResolverTypePrinter::print_document",
    "nitrogql_printer::operation_js_printer::print_js_for_operation_document", "nitrogql_error::print_positioned_error",
    "nitrogql_config_file::parse_config::parse_config", "nitrogql_introspection::schema_from_introspection_json", "nitrogql_cli::run_cli",
]

# (function path suffix, kind, `what` prefix) -> (class, reason).  Classes:
#   LOCAL     a structural guard in the same module makes the panic unreachable (reason names it)
#   CHECKER   unreachable after `check` succeeded; holds only on the CLI path and only while the named checker rule holds
#   ENV       depends on the environment (I/O, logger), not on input text
#   CONTRACT  precondition of the ABI/plugin contract
#   FINDING   reachable from input text: a known finding key must exist (witness under /verif/witness)
T = [
    # ---- parser builders: everything not discharged mechanically by the grammar/builder inclusion (R07-a)
    ("builder::value::build_string_value", "split_at", "3", "LOCAL", "BlockStringValue text starts with the three ASCII bytes `\"\"\"` (grammar)"),
    ("builder::value::build_string_value", "split_at", "", "LOCAL", "BlockStringValue text ends with `\"\"\"` and is at least 6 bytes long (grammar)"),
    ("builder::value::build_string_value", "split_at", "2", "LOCAL", "EscapedUnicode4 text starts with the two ASCII bytes `\\u` (grammar)"),
    ("builder::value::build_string_value", "unwrap", "from_str_radix#0", "FINDING", "R08-a:unicode-brace-overflow"),
    ("builder::value::build_string_value", "unwrap", "from_str_radix#1", "LOCAL", "EscapedUnicode4 has exactly four hex digits (grammar, R07-d:unicode-escape-4): always fits u32"),
    ("builder::value::build_string_value", "expect", "Invalid character code#0", "FINDING", "R08-a:unicode-brace-invalid-scalar"),
    ("builder::value::build_string_value", "expect", "Invalid character code#1", "FINDING", "R08-a:unicode-4-surrogate"),
    ("builder::value::build_string_value", "unwrap", "next", "LOCAL", "NormalStringCharacter consumes ANY: its text has at least one char (grammar)"),
    ("builder::value::build_string_value", "panic", "Unknown escape sequence", "LOCAL", "discharged by R07-b text inclusion of EscapedCharacter"),
    # ---- semantics
    ("operation_extension_resolver::resolve_operation_extensions", "Vec::remove", "", "LOCAL", "index comes from position() over the same vector"),
    ("type_system::builder::SchemaBuilder::set_root_types", "unwrap", "as_mut", "LOCAL", "root_types was assigned Some on the previous line"),
    # ---- checker
    ("checker::common::check_value", "unreachable", "", "LOCAL", "Value::Variable is handled by the `if let Value::Variable` above the match"),
    # ---- printers
    ("operation_js_printer::printers::print_fragment_runtime", "expect", "fragment not found", "CHECKER", "UnknownFragment (R03-f); not guaranteed on the loader path: R08-a:loader-unknown-fragment"),
    ("operation_js_printer::printers::print_operation_runtime", "expect", "fragment not found", "CHECKER", "UnknownFragment (R03-f); not guaranteed on the loader path: R08-a:loader-unknown-fragment"),
    ("operation_js_printer::printers::print_fragment_runtime", "index", "Vec", "LOCAL", "full-range slice"),
    ("operation_js_printer::printers::print_operation_runtime", "index", "Vec", "LOCAL", "full-range slice"),
    ("operation_type_printer::deep_merge::deep_merge_selection_tree", "expect", "field was just inserted", "LOCAL", "seen_fields and new_fields are updated together"),
    ("operation_type_printer::deep_merge::merge_fields", "assert_eq", "", "LOCAL", "callers pair fields by name()"),
    ("operation_type_printer::deep_merge::merge_fields", "panic", "Cannot merge fields of different types", "FINDING", "R08-a:merge-conflicting-response-keys"),
    ("operation_type_printer::deep_merge::merge_selection_trees", "panic", "Cannot merge selection trees", "FINDING", "R08-a:merge-conflicting-wrappers"),
    ("operation_type_printer::selection_set_visitor::visit_fields_in_selection_set_impl", "expect", "Type system error", "CHECKER", "UnknownFragment"),
    ("operation_type_printer::type_printer::check_fragment_condition", "expect", "Type system error", "CHECKER", "UnknownType on fragment/inline type conditions"),
    ("operation_type_printer::type_printer::check_skip_directive", "expect", "Type system error", "CHECKER", "RequiredArgumentNotSpecified for @skip/@include `if`, UnknownVariable"),
    ("operation_type_printer::type_printer::generate_branching_conditions", "expect", "Type system error", "CHECKER", "field types exist (type-system check), union members are objects (NonObjectTypeUnionMember)"),
    ("operation_type_printer::type_printer::generate_branching_conditions", "panic", "Type system error", "CHECKER", "SelectionOnInvalidType"),
    ("operation_type_printer::type_printer::get_fields_for_selection_set", "expect", "Type system error", "CHECKER", "FieldNotFound / UnknownFragment; depends on fragment bodies being checked: R03-b"),
    ("resolver_type_printer::printer::ResolverTypePrinter::print_document", "unwrap", "get", "CONTRACT", "plugins transform but do not add type definitions"),
    ("schema_type_printer::context::get_bag_of_identifiers", "index", "str", "LOCAL", "indices come from char_indices() of the same string"),
    ("utils::chars::skip_chars", "split_at", "", "LOCAL", "byte offset is the sum of len_utf8 of the first chars (R08-c)"),
    ("utils::relative_path::relative_path", "panic", "Cannot calc reverse of ParentDir", "ENV", "paths are normalised absolute paths from the file system (C20 domain)"),
    ("base64_vlq::base64_vlq", "index", "[char; 64]", "LOCAL", "indices are 6-bit values"),
    ("source_writer::name_mapper::NameMapper::new", "unwrap", "new", "LOCAL", "NonZeroUsize::new(10)"),
    ("SourceWriter as sourcemap_writer::writer::SourceMapWriter>::write_for", "index", "Vec", "LOCAL", "mapper has one entry per file of the store and Pos.file indexes the store (R08-c)"),
    ("schema_type_printer::type_printer::TypePrinter>::print_representative", "expect", "Local type name not generated", "LOCAL", "local_type_names has an entry for every type definition of the document being printed (make_local_type_names)"),
    ("ObjectTypeDefinition as nitrogql_printer::schema_type_printer::type_printer::TypePrinter>::print_type", "expect", "Local type name not generated#0", "CHECKER", "UnknownType on object field types (check_object)"),
    ("InputObjectTypeDefinition as nitrogql_printer::schema_type_printer::type_printer::TypePrinter>::print_type", "expect", "Local type name not generated#0", "CHECKER", "UnknownType on input field types (check_input_object)"),
    ("schema_type_printer::type_printer::TypePrinter>::print_type", "expect", "Local type name not generated", "LOCAL", "local_type_names has an entry for every type definition of the document being printed"),
    ("InputObjectTypeDefinition as nitrogql_printer::schema_type_printer::type_printer::TypePrinter>::print_type", "expect", "Type system error", "LOCAL", "the Schema is built from the same document: the input object and its field exist"),
    ("FileStore as core::ops::index::Index>::index", "expect", "File index out of range", "LOCAL", "indices come from add_file (R08-c)"),
    ("PluginHost as nitrogql_plugin::plugin::host::PluginHost>::load_virtual_file", "unwrap", "get_file", "LOCAL", "index returned by add_file on the previous line"),
    ("ModelPlugin as nitrogql_plugin::plugin_v1::PluginV1Beta>::transform_resolver_output_types", "panic", "'type' argument is required", "CHECKER", "the plugin's own check_schema rejects @model without `type` on object types"),
    ("ModelPlugin as nitrogql_plugin::plugin_v1::PluginV1Beta>::transform_resolver_output_types", "expect", "object not found", "LOCAL", "the map was built from the same document's definitions"),
    # ---- error rendering
    ("nitrogql_error::print_positioned_error", "index", "impl Index", "LOCAL", "every non-builtin Pos.file was produced by set_current_file_of_pos(add_file(..)) (R08-c)"),
    ("nitrogql_error::print_positioned_error", "unwrap", "write_fmt", "LOCAL", "writing to a String cannot fail"),
    # ---- CLI
    ("nitrogql_cli::file_store::FileStore::add_file", "panic", "Cannot add schema file", "LOCAL", "run_cli_impl adds every schema file before the first operation file"),
    ("nitrogql_cli::generate::generate_operation_type_printer_options", "expect", "This should be prevented", "LOCAL", "run_generate returns OptionRequired when both schemaOutput and schemaModuleSpecifier are missing"),
    ("nitrogql_cli::generate::run_generate", "expect", "This should be prevented", "LOCAL", "same guard, earlier in run_generate"),
    ("nitrogql_cli::generate::run_generate", "panic", "Something went wrong", "LOCAL", "run_check returns Ok only with SchemaResolved (R03-g)"),
    ("nitrogql_cli::generate::write_file_and_sourcemap", "unwrap", "file_name", "LOCAL", "file_name() == None returned an error just above"),
    ("nitrogql_cli::run_cli", "unwrap", "init", "ENV", "logger initialisation, once per process"),
    ("nitrogql_cli::run_cli_impl", "unwrap", "get_file", "LOCAL", "index was returned by add_file on the previous line"),
    ("nitrogql_cli::schema_loader::load_schema_js", "expect", "failed to parse JSON", "ENV", "output of the node helper process"),
    ("nitrogql_config_file::node::run_node", "RefCell::borrow_mut", "", "ENV", "node helper process"),
    ("nitrogql_config_file::node::run_node", "expect", "failed to open std", "ENV", "node helper process"),
    ("nitrogql_plugin::plugin::Plugin::schema_addition", "RefCell::borrow_mut", "", "LOCAL", "single borrow per call"),
    # ---- loader ABI
    ("graphql_loader::", "RefCell::borrow", "", "LOCAL", "no nested borrow of the same cell (R19-e)"),
    ("graphql_loader::get_result_ptr", "unwrap", "as_ref", "CONTRACT", "the host reads the result only after a call that stored one"),
    ("graphql_loader::get_result_size", "unwrap", "as_ref", "CONTRACT", "the host reads the result only after a call that stored one"),
    ("graphql_loader::init", "expect", "failed to set logger", "ENV", "called once"),
    ("graphql_loader::logger::StringLogger::take_log", "expect", "failed to write to log", "LOCAL", "writing to a String"),
    ("graphql_loader::read_str_ptr", "unwrap", "from_utf8", "CONTRACT", "the host encodes strings with TextEncoder (UTF-8)"),
    ("graphql_loader::tasks::Task::get_root_document", "expect", "Root file should be present", "LOCAL", "register_file(root) dominates add_task (R19-d)"),
]


_ROW_HITS = {}
# sites that panic on an out-of-range position: whether the position is always in range is a value question
BOUNDS_KINDS = ("index", "div", "split_at", "Vec::remove", "Vec::swap_remove", "Vec::insert", "Vec::drain", "Vec::split_off", "String::remove")
MESSAGE_KINDS = ("expect", "panic", "unreachable", "assert", "assert_eq", "assert_ne", "todo", "unimplemented", "expect_err")
_ROW_CRATES = {}


def _row_crates(P, suf):
    """crates in which a table row's function-path suffix occurs (rows are written without a crate prefix)"""
    if suf not in _ROW_CRATES:
        mod = suf.rsplit("::", 1)[0] if "::" in suf else suf
        _ROW_CRATES[suf] = {f.crate for f in P.fns.values() if mod in f.path}
    return _ROW_CRATES[suf]


def _row_module(suf):
    segs = suf.split("::")[:-1]
    while segs and (segs[-1][:1].isupper() or segs[-1].startswith("<") or ">" in segs[-1]):
        segs.pop()
    return "::".join(segs) if segs else suf.rsplit("::", 1)[0]


_FROZEN = None


def _frozen_counts():
    """number of sites each row justified on the reference tree (tables/panic_row_counts.json, written by `--freeze`)"""
    global _FROZEN
    if _FROZEN is None:
        import json
        try:
            _FROZEN = json.load(open(os.path.join(harness.VERIF, "tables", "panic_row_counts.json")))
        except Exception:
            _FROZEN = {}
    return _FROZEN


def inherited_rows(P, fn, kind, what):
    """A site without a row of its own inherits the justification of a reviewed site it is a *copy or a move* of:
       (a) same crate, same kind and the same non-empty panic message (`expect("Type system error")` is the code's own statement of
           the invariant it relies on; helper extraction, splitting and moving between modules keep kind and message), or
       (b) same module, same kind and same producer (`x.get(..).unwrap()`), where the reviewed row lost its own site in this run
           (the site moved into a helper next to it).
    Anything else is a new, unreviewed panic path."""
    out = []
    path = fn.path
    for i, (suf, k, w, cls, why) in enumerate(T):
        if k != kind and not (k == "RefCell::borrow" and kind.startswith("RefCell::borrow")):
            continue
        wp = w.split("#")[0]
        if kind in MESSAGE_KINDS and wp and len(wp) >= 6 and what.startswith(wp):
            if fn.crate in _row_crates(P, suf) or (suf.split("::")[0] in path):
                # all reviewed rows of this (crate, kind, message): a copy or a move keeps their total; a site beyond the total is
                # a new reliance on the same stated invariant, which nobody reviewed
                group = [j for j, (s2, k2, w2, _c, _y) in enumerate(T) if k2 == k and w2.split("#")[0] == wp
                         and (fn.crate in _row_crates(P, s2) or s2.split("::")[0] in path)]
                frozen = _frozen_counts()
                total = sum(frozen.get("%s|%s|%s" % (T[j][0], T[j][1], T[j][2]), 1) for j in group) if frozen else None
                hits = sum(_ROW_HITS.get(j, 0) for j in group)
                how = "same message in the same crate"
                if total is not None and hits >= total and cls != "FINDING":
                    how = "EXCESS"
                out.append((i, cls, why, how))
            continue
        if "::" not in suf:
            continue
        mod = _row_module(suf)
        same_mod = mod in path and suf not in path
        moved_mod = (not same_mod) and fn.crate in _row_crates(P, suf) and fn.name == suf.rsplit("::", 1)[1]
        # the row still has room: fewer sites matched it in this run than were reviewed on the pinned tree
        room = _ROW_HITS.get(i, 0) < _frozen_counts().get("%s|%s|%s" % (suf, k, w), 1)
        if (same_mod or moved_mod) and room and (wp == "" or what.startswith(wp)):
            out.append((i, cls, why, "site moved within its %s" % ("module" if same_mod else "crate")))
    return out


def classify(key, kind, what):
    path = key.split("|")[0]
    ordn = key.rsplit("|", 1)[1]
    for _i, (suf, k, w, cls, why) in enumerate(T):
        if suf not in path:
            continue
        if k != kind and not (k == "RefCell::borrow" and kind.startswith("RefCell::borrow")):
            continue
        if "#" in w:
            wp, wo = w.split("#")
            if what.startswith(wp) and ordn == wo:
                _ROW_HITS[_i] = _ROW_HITS.get(_i, 0) + 1
                return cls, why
            continue
        if w == "" or what.startswith(w):
            # exact-empty rows must not swallow numbered siblings
            _ROW_HITS[_i] = _ROW_HITS.get(_i, 0) + 1
            return cls, why
    return None, None


_LOOKUPS = ("get", "get_mut", "get_type", "get_directive", "get_fragment", "get_file", "find", "find_map", "position", "rposition", "remove", "parse",
            "from_str_radix", "from_utf8", "from_u32", "from_digit", "to_str", "into_string", "binary_search", "strip_prefix", "strip_suffix",
            "split_once", "rsplit_once", "nth", "to_digit", "first", "file_name", "parent", "as_object", "as_interface", "as_union", "as_enum", "as_scalar",
            "as_input_object")
_STRUCTURAL = ("pop", "last", "last_mut", "first_mut", "take", "next", "next_back", "peek", "into_iter", "iter", "as_mut", "as_ref", "borrow", "borrow_mut",
               "lock", "write_fmt", "write_str", "new", "try_into", "get_or_insert_with", "max", "min")


def _input_keyed(fn, node):
    """is the value unwrapped at this site produced (directly or through locals) by a look-up keyed by data, or by parsing text?"""
    pv = Prov(fn)
    if node.get("k") == "MethodCall":
        src = node["recv"]
    else:
        src = node
    calls = [a[1].split("::")[-1] for a in pv.atoms(src) if a[0] == "call"]
    direct = []
    e = src
    while e.get("k") in ("MethodCall", "Call", "AddrOf", "DropTemps", "Unary", "Field"):
        if e.get("k") in ("MethodCall", "Call"):
            direct.append((call_name(e) or "").split("::")[-1])
            e = e["recv"] if e.get("k") == "MethodCall" else (e["args"][0] if e["args"] else {})
        else:
            e = e.get("e", {})
    names = direct if direct else calls
    if any(n in _LOOKUPS for n in names[:2]):
        # keyed by something that comes from a field / parameter (document or schema data)?
        return True
    if names and names[0] in _STRUCTURAL:
        return False
    if not names:
        # a plain local: look at what it was bound from
        return any(n in _LOOKUPS for n in calls) and not any(n in _STRUCTURAL for n in calls[:1])
    return any(n in _LOOKUPS for n in names)


def _deciding_exprs(fn, node):
    """scrutinees / conditions of the `match`, `if` and `let .. else` constructs enclosing a site inside its function"""
    nodes = fn.nodes()
    idx = None
    for i, (n, _par) in enumerate(nodes):
        if n is node:
            idx = i
            break
    out = []
    if idx is None:
        return out
    p = nodes[idx][1]
    while p >= 0:
        n = nodes[p][0]
        if n.get("k") == "Match" and isinstance(n.get("scrut"), dict):
            out.append(n["scrut"])
        elif n.get("k") == "If" and isinstance(n.get("cond"), dict):
            out.append(n["cond"])
        elif n.get("k") in ("Let", "LetElse", "Local") and isinstance(n.get("init"), dict) and n.get("els") is not None:
            out.append(n["init"])
        p = nodes[p][1]
    return out


def _entries(P, R, rule, loader=True):
    """public entry points; one that was renamed or removed makes its part of the inventory undecided, not the whole rule"""
    ents = []
    for e in ENTRIES:
        f = P.fn(e, required=False)
        if f is None:
            if R is not None:
                R.undecided(rule, "entry:" + short(e), "entry point %s not found: what is reachable only from it is not inventoried" % e)
        else:
            ents.append(f)
    if loader:
        ents += [f for f in P.fns.values() if f.path.startswith("graphql_loader::") and f.no_mangle]
        ents += P.trait_impls("nitrogql_printer::graphql_printer::GraphQLPrinter", "print_graphql")
    return ents


def r08a(P, R):
    from c07 import model
    g, ai = model(P)
    ents = _entries(P, R, "R08-a")
    reach = P.reachable(ents)
    R.count("entry_points", len(ents))
    R.count("reachable_functions", len(reach))
    bad_by_fn = {}
    for k, o in ai.oblig.items():
        if not o["ok"]:
            bad_by_fn.setdefault(o["fn"], []).append(k)
    known = harness.load_known()
    n = 0
    classes = {}
    deferred = []
    _ROW_HITS.clear()
    for p in sorted(reach):
        f = P.fns[p]
        if f.derived or "::tests" in p:
            continue
        for key, kind, what, line, node in site_keys(f):
            n += 1
            loc = "%s:%d" % (f.file, line)
            skey = key.replace("nitrogql_parser::parser::", "")
            # --- mechanically discharged: grammar ⊆ builder
            cls, why = classify(key, kind, what)
            if p.startswith(PB) or p.startswith(PAIRIMPL):
                if cls is None:
                    if kind == "parts!" or p.startswith(PAIRIMPL) or (kind == "panic" and ("Unexpected" in what or "Expected" in what or "No child" in what)):
                        culprits = bad_by_fn.get(p, []) if not p.startswith(PAIRIMPL) else [k for ks in bad_by_fn.values() for k in ks
                                                                                           if k.split(":")[0] in ("only_child", "all_children")]
                        classes["GRAMMAR"] = classes.get("GRAMMAR", 0) + 1
                        R.check("R08-a", "grammar:" + skey, not culprits, "unreachable: grammar ⊆ builder holds at every site of this function (R07-a)",
                                "panic site reachable from input text: the grammar/builder inclusion fails here (%s)" % culprits, loc=loc)
                        continue
                    if kind == "panic" and ("Empty document" in what):
                        classes["GRAMMAR"] = classes.get("GRAMMAR", 0) + 1
                        R.holds("R08-a", "grammar:" + skey, "a successful pest parse always yields the top-level pair", loc=loc)
                        continue
                    if kind == "panic" and "Unknown operation type" in what:
                        ok = not any(k.startswith("text:operation::str_to_operation_type") and not o["ok"] for k, o in ai.oblig.items())
                        classes["GRAMMAR"] = classes.get("GRAMMAR", 0) + 1
                        R.check("R08-a", "grammar:" + skey, ok, "unreachable: OperationType texts are all handled (R07-b)", "operation type text not handled", loc=loc)
                        continue
            if cls is None:
                deferred.append((p, key, skey, kind, what, loc, node))
                continue
            classes[cls] = classes.get(cls, 0) + 1
            if cls == "FINDING":
                R.violated("R08-a", why.split(":", 1)[1] if why.startswith("R08-a:") else why,
                           "panic reachable from input text: %s in %s" % (what or kind, p), loc=loc)
            elif cls == "CHECKER":
                R.holds("R08-a", "checker:" + skey, "unreachable after a successful check: " + why, loc=loc)
            else:
                R.holds("R08-a", cls.lower() + ":" + skey, why, loc=loc)
    # sites without a row of their own: either moved by a refactoring (a row of the same module, kind and message lost its site),
    # or genuinely new
    for p, key, skey, kind, what, loc, node in deferred:
        rows = inherited_rows(P, P.fns[p], kind, what)
        if not rows:
            if kind.startswith("RefCell::borrow"):
                # a new dynamic borrow: it panics only if another borrow of the same cell is live at that moment, a question about the
                # paths through the cell's users that this inventory does not answer for a cell it has not seen
                R.undecided("R08-a", "unreviewed-borrow:" + skey, "new `%s` in %s: not in the panic table; whether a conflicting borrow can be "
                            "live here is not decided" % (kind, p), loc=loc)
                continue
            if kind in BOUNDS_KINDS:
                # a bounds / zero check the table has not seen: whether the index is always in range is a value question this
                # inventory cannot settle either way (string slicing by computed offsets is decided by R08-c)
                R.undecided("R08-a", "unreviewed-bounds:" + skey, "new `%s` site on %s in %s: not in the panic table, range not decided" % (kind, what, p), loc=loc)
                continue
            if kind in ("unwrap", "expect") and p.startswith(PB) and what.split("#")[0] in ("from_str_radix", "parse", "from_u32", "from_digit", "to_digit"):
                # a conversion of text the grammar has already delimited (hex digits of an escape, an integer literal): whether it can
                # fail depends on the digit bound of the grammar rule behind it, which this inventory does not compute for a new site
                R.undecided("R08-a", "unreviewed-conversion:" + skey, "new `%s` of %s in %s on grammar-delimited text: the bound the grammar puts on "
                            "that text is not decided here" % (kind, what, p), loc=loc)
                continue
            if kind in ("unwrap", "expect", "unwrap_err", "expect_err", "assert", "assert_eq", "assert_ne") and not _input_keyed(P.fns[p], node):
                # `stack.last().expect("not empty")`, `slot.take().expect("refilled")`, `assert_eq!(a.len(), b.len())`: the unwrapped
                # value does not come from a look-up keyed by document/schema data or a parse of input text, so this is a local
                # invariant of the code, not an input-reachable panic this inventory can point at
                R.undecided("R08-a", "unreviewed-invariant:" + skey, "new `%s` (%s) in %s states a local invariant (no keyed look-up or parse of "
                            "input behind it); not in the panic table, not decided" % (kind, what, p), loc=loc)
                continue
            if kind in ("panic", "unreachable", "todo", "unimplemented"):
                # `match x { A => .., B => .., _ => unreachable!() }`: the site is reached when the decision above it falls through.
                # It is an input-reachable panic this inventory can point at only when that decision reads the result of a look-up
                # keyed by data or of parsing text; a fall-through arm over a value of the code's own making is a local invariant
                dec = _deciding_exprs(P.fns[p], node)
                if dec and not any(_input_keyed(P.fns[p], e) for e in dec):
                    R.undecided("R08-a", "unreviewed-invariant:" + skey, "new `%s!` (%s) in %s closes a decision over a value that is not the result of a "
                                "keyed look-up or a parse of input; not in the panic table, not decided" % (kind, what, p), loc=loc)
                    continue
            R.violated("R08-a", "unreviewed:" + skey, "unreviewed panic path: `%s` (%s) in %s is reachable from a public entry point and has no "
                       "justification in the panic table" % (kind, what, p), loc=loc)
            continue
        findings = [(i, why) for i, cls, why, how in rows if cls == "FINDING" and not _ROW_HITS.get(i)]
        nonfind = [(i, cls, why, how) for i, cls, why, how in rows if cls != "FINDING"]
        if findings and not nonfind:
            for i, why in findings[:1]:
                _ROW_HITS[i] = 1
                classes["FINDING"] = classes.get("FINDING", 0) + 1
                R.violated("R08-a", why.split(":", 1)[1] if why.startswith("R08-a:") else why,
                           "panic reachable from input text: %s in %s (site moved)" % (what or kind, p), loc=loc)
        elif findings and nonfind:
            # a helper now shared by a reviewed-safe site and a known finding: the finding stays reported under its key
            for i, why in findings:
                _ROW_HITS[i] = 1
                classes["FINDING"] = classes.get("FINDING", 0) + 1
                R.violated("R08-a", why.split(":", 1)[1] if why.startswith("R08-a:") else why,
                           "panic reachable from input text: %s in %s (site moved)" % (what or kind, p), loc=loc)
        elif nonfind and all(how == "EXCESS" for _i, _c, _w, how in nonfind):
            i, cls, why, how = nonfind[0]
            _ROW_HITS[i] = _ROW_HITS.get(i, 0) + 1
            R.undecided("R08-a", "unreviewed-copy:" + skey, "new `%s` (%s) in %s repeats the message of reviewed sites (%s: %s) but there are more such "
                        "sites than were reviewed: whether the stated invariant covers this one is not decided" % (kind, what, p, cls, why), loc=loc)
        elif nonfind:
            i, cls, why, how = [x for x in nonfind if x[3] != "EXCESS"][0]
            _ROW_HITS[i] = _ROW_HITS.get(i, 0) + 1
            classes[cls] = classes.get(cls, 0) + 1
            if cls == "CHECKER":
                R.holds("R08-a", "checker:" + skey, "unreachable after a successful check: %s (%s)" % (why, how), loc=loc)
            else:
                R.holds("R08-a", cls.lower() + ":" + skey, "%s (%s)" % (why, how), loc=loc)
        else:
            R.undecided("R08-a", "unreviewed:" + skey, "site matches only findings that are already accounted for", loc=loc)
    R.count("panic_sites", n)
    for c, v in classes.items():
        R.count("class_" + c, v)
    R.floor("R08-a", "panic sites in reachable functions", n, 200)
    # the CHECKER class holds only where check dominates: CLI path yes (R03-g); loader path never checks
    loader_emit = P.fn("graphql_loader::loader::emit_js", required=False)
    if loader_emit is None:
        R.undecided("R08-a", "loader-unknown-fragment", "loader emit_js not found")
    else:
        lreach = P.reachable([loader_emit])
        checks = [p for p in lreach if p.endswith("check_operation_document")]
        R.check("R08-a", "loader-unknown-fragment", bool(checks),
                "the loader validates documents before printing",
                "the bundler loader prints JavaScript without running `check`: `...Missing` (a spread of an undefined fragment) reaches "
                "`expect(\"fragment not found\")` in print_operation_runtime", loc=loader_emit.loc())
    # CHECKER justifications that depend on fragment bodies being checked (R03-b): from the FragmentDefinition arm of
    # check_operation_document, is a function that validates a SelectionSet against a type reachable?
    entry = P.fn("nitrogql_checker::operation_checker::check_operation_document", required=False)
    sel_checkers = [f for f in P.fns.values() if f.path.startswith("nitrogql_checker::operation_checker") and not f.derived and "::tests" not in f.path
                    and any("SelectionSet" in t for t in f.sig_inputs) and any("TypeDefinition" in t or "Vec<nitrogql_error" in t or "CheckError" in t for t in f.sig_inputs)
                    and "count_selection_set_fields" not in f.path]
    frag_checkers = [f for f in P.fns.values() if f.path.startswith("nitrogql_checker::operation_checker") and not f.derived and "::tests" not in f.path
                     and any("FragmentDefinition" in t and "HashMap" not in t for t in f.sig_inputs) and f.path != (entry.path if entry else "")]
    if entry is None or not sel_checkers or not frag_checkers:
        R.undecided("R08-a", "checker-guarantee-covers-fragments", "the fragment-definition checker / selection-set checker were not identified by signature")
    else:
        cfd = [f for f in frag_checkers if f.path in P.callees_of(entry)[0]] or frag_checkers
        reach_f = P.reachable(cfd)
        ok = any(f.path in reach_f for f in sel_checkers)
        R.check("R08-a", "checker-guarantee-covers-fragments", ok,
                "fragment bodies are validated, so the printers' `Type system error` expects hold for them",
                "the printers type every fragment definition, but `check` validates a fragment body only when an operation spreads it: an unused "
                "`fragment G on Query { nope }` passes check and panics in generate (`Type system error`)", loc=cfd[0].loc())


def r08b(P, R):
    """recursion guards: every recursive cycle reachable from the entries is structural or guarded by a seen-set"""
    ents = _entries(P, None, "R08-b", loader=False)
    reach = P.reachable(ents)
    cg = {p: [c for c in P.callgraph().get(p, ()) if c in reach] for p in reach}
    # Tarjan SCC
    index = {}
    low = {}
    stack = []
    on = set()
    sccs = []
    counter = [0]
    import sys
    sys.setrecursionlimit(10000)

    def strong(v):
        index[v] = low[v] = counter[0]
        counter[0] += 1
        stack.append(v)
        on.add(v)
        for w in cg.get(v, ()):
            if w not in index:
                strong(w)
                low[v] = min(low[v], low[w])
            elif w in on:
                low[v] = min(low[v], index[w])
        if low[v] == index[v]:
            comp = []
            while True:
                w = stack.pop()
                on.discard(w)
                comp.append(w)
                if w == v:
                    break
            if len(comp) > 1 or v in cg.get(v, ()):
                sccs.append(sorted(comp))
    for v in sorted(reach):
        if v not in index:
            strong(v)
    R.count("recursive_cycles", len(sccs))
    # classification table: cycles through a name->definition map need a guard; cycles over the syntax tree are structural
    GUARDED = {
        "nitrogql_checker::operation_checker::check_selection_set": "fragment spreads are guarded by the seen_fragments stack (R03-b:spread-cycle-guard)",
        "nitrogql_checker::operation_checker::count_selection_set_fields::selection_set_has_more_than_one_fields_impl": "seen_fragments stack",
        "nitrogql_printer::utils::fragment_names_in_selection_set::rec": "names.contains() guard (R12-c)",
        "nitrogql_printer::operation_type_printer::selection_set_visitor::visit_fields_in_selection_set_impl": "seen_fragments guard",
        "nitrogql_semantics::operation_import_resolver::resolve_operation_imports_rec": "visited set (R13-a)",
    }
    FRAGMAP_UNGUARDED = "nitrogql_printer::operation_type_printer::type_printer::get_fields_for_selection_set"
    for comp in sccs:
        key = "cycle:" + short(comp[0]) + ("+%d" % (len(comp) - 1) if len(comp) > 1 else "")
        through_map = [p for p in comp if any(x.get("k") == "MethodCall" and x["method"] == "get" and "HashMap" in norm(x.get("recv_ty", ""))
                                              and "FragmentDefinition" in norm(x.get("recv_ty", "")) for x in P.fns[p].walk())]
        guarded = [p for p in comp if p in GUARDED]
        # structural recognition of a seen-set guard, independent of function names: some function of the cycle tests or records the
        # spread's fragment name in a collection (contains / any / position / insert) — the key the fragment map is indexed by
        seen_guard = []
        for p in comp:
            f = P.fns[p]
            pv = None
            for x in f.walk():
                if x.get("k") == "MethodCall" and x["method"] in ("contains", "any", "position", "find", "insert", "contains_key") \
                        and "FragmentDefinition" not in norm(x.get("recv_ty", "")):
                    pv = pv or Prov(f)
                    if has_field(pv.atoms(x["args"]), "nitrogql_ast::selection_set::FragmentSpread", "fragment_name"):
                        seen_guard.append(p)
                        break
        in_type_printer = any("operation_type_printer::type_printer" in p for p in comp)
        if FRAGMAP_UNGUARDED in comp or (through_map and in_type_printer):
            # the type printer's fragment expansion (whatever its functions are called today): one finding, one key
            anchor = P.fns[FRAGMAP_UNGUARDED] if FRAGMAP_UNGUARDED in comp else P.fns[through_map[0]]
            has_seen = bool(seen_guard) or any(x.get("k") == "MethodCall" and x["method"] == "contains" and "str" in norm(x.get("recv_ty", "")) for p in comp for x in P.fns[p].walk())
            R.check("R08-b", "fragment-recursion-in-type-printer", has_seen,
                    "fragment expansion in the type printer is guarded",
                    "%s follows fragment spreads through the fragment map without a seen-set; it relies on the checker's "
                    "RecursingFragmentSpread, which is only enforced for fragments reachable from an operation: an unused `fragment A on T { ...A }` "
                    "passes check and recurses without bound in generate" % short(anchor.path), loc=anchor.loc())
            continue
        if through_map and not guarded and not seen_guard:
            R.violated("R08-b", key, "recursive cycle %s follows a name -> fragment map without a seen-set guard" % [short(c) for c in comp], loc=P.fns[comp[0]].loc())
        elif guarded:
            R.holds("R08-b", key, GUARDED[guarded[0]], loc=P.fns[comp[0]].loc())
        elif seen_guard:
            R.holds("R08-b", key, "fragment spreads are guarded by a seen-collection keyed by the spread's fragment name (in %s)" % short(seen_guard[0]), loc=P.fns[comp[0]].loc())
        else:
            R.holds("R08-b", key, "structural recursion over the syntax tree / type wrappers (%s)" % ", ".join(short(c) for c in comp[:3]), loc=P.fns[comp[0]].loc())
    R.floor("R08-b", "recursive cycles", len(sccs), 10)
    # the guards themselves: wherever a directly recursive function of a reachable cycle tests the spread's fragment name against a
    # seen-collection that is one of its *parameters*, (1) that test exists, and (2) every recursive call hands down a collection that
    # still contains what the caller had seen (derives from that parameter) — a collection restarted at each level only catches
    # direct self-recursion, and a cycle of length two recurses until the stack overflows
    n_guards = 0
    for comp in sccs:
        for p in comp:
            f = P.fns[p]
            if f.derived or "::tests" in p:
                continue
            pv = None
            for c in f.walk():
                if not (c.get("k") == "MethodCall" and c["method"] in ("contains", "any", "position")):
                    continue
                pv = pv or Prov(f)
                if not has_field(pv.atoms(c["args"]), "nitrogql_ast::selection_set::FragmentSpread", "fragment_name"):
                    continue
                holders = [a[1] for a in pv.atoms(c["recv"]) if a[0] == "param"]
                names = [pv.params.get(b.get("local")) if b.get("k") == "Binding" else None for b in f.params]
                idxs = [i for i, nm in enumerate(names) if nm in holders and "&mut" not in str(f.params[i].get("t", ""))]
                if len(idxs) != 1:
                    continue
                n_guards += 1
                i = idxs[0]
                rec = [x for x in f.walk() if x.get("k") == "Call" and call_name(x) == f.path and len(x["args"]) == len(f.params)]
                for j, x in enumerate(rec):
                    a = pv.atoms(x["args"][i])
                    if not has_field(a, "nitrogql_ast::selection_set::FragmentSpread", "fragment_name") and ("param", names[i]) in a:
                        continue        # a call that does not enter a fragment passes the collection on unchanged
                    R.check("R08-b", "seen-accumulates:%s#%d" % (short(p), j), ("param", names[i]) in a,
                            "the seen-collection handed to the recursive call still contains what the caller had seen",
                            "%s hands its recursive call a seen-collection that does not derive from its own `%s` (it is restarted at each level): "
                            "only direct self-recursion is detected, a fragment cycle of length two (`F { ...G } G { ...F }`) recurses until the "
                            "stack overflows and the process aborts" % (p, names[i]), loc=f.loc())
                break
    R.floor("R08-b", "seen-collections passed down a recursion", n_guards, 1)
    for p in ("nitrogql_checker::operation_checker::count_selection_set_fields::selection_set_has_more_than_one_fields_impl",
              "nitrogql_printer::operation_type_printer::selection_set_visitor::visit_fields_in_selection_set_impl"):
        f = P.fn(p, required=False)
        if f is None:
            R.undecided("R08-b", "guard:" + short(p), "function not found")
            continue
        pv = Prov(f)
        cs = [c for c in f.walk() if c.get("k") == "MethodCall" and c["method"] == "contains"]
        ok = bool(cs) and has_field(pv.atoms(cs[0]["args"][0]), "nitrogql_ast::selection_set::FragmentSpread", "fragment_name")
        R.check("R08-b", "guard:" + short(p), ok, "spread name tested against the seen list before descending", "%s lost its seen-fragment guard" % p, loc=f.loc())
    # the directive recursion search terminates: seen set checked before expansion
    cr = P.fn("nitrogql_checker::type_system_checker::check_directive_recursion::check_directive_recursion", required=False)
    if cr is None or cr.path not in P.mir:
        R.undecided("R08-b", "directive-search-terminates", "check_directive_recursion not found")
    else:
        mq = MirQ(P.mir[cr.path])
        SETS = ("HashSet::insert", "BTreeSet::insert", "IndexSet::insert")
        ins = mq.calls_to(lambda q: q.endswith(SETS))
        ext = mq.calls_to(lambda q: q.endswith("::extend") or q.endswith("Vec<T, A>::push") or q.endswith("VecDeque<T, A>::push_back"))
        # worklist growth = extend/push on a collection of directive definitions
        any_set = [x for x in cr.walk() if x.get("k") == "MethodCall" and ("HashSet" in norm(x.get("recv_ty", "")) or "BTreeSet" in norm(x.get("recv_ty", "")))]
        grow = [x for x in cr.walk() if x.get("k") == "MethodCall" and x["method"] in ("extend", "push", "push_back") and "DirectiveDefinition" in norm(x.get("recv_ty", ""))]
        if not any_set and grow:
            R.violated("R08-b", "directive-search-terminates", "the directive recursion search expands directives without any seen-set: a directive "
                       "that (indirectly) uses itself makes the search loop forever", loc=cr.loc())
        elif not grow or not ext:
            R.undecided("R08-b", "directive-search-terminates", "the worklist of the directive recursion search was not recognised", loc=cr.loc())
        elif not ins:
            R.violated("R08-b", "directive-search-terminates", "the directive recursion search never marks a directive as seen (no insert into the "
                       "seen-set): it may not terminate", loc=cr.loc())
        else:
            ok = all(any(mq.dominates(i, e) for i in ins) for e in ext)
            R.check("R08-b", "directive-search-terminates", ok, "a directive is expanded only after being inserted into the seen set (each at most once)",
                    "the directive recursion search expands a directive without marking it seen: it may not terminate", loc=cr.loc())


def r08c(P, R):
    """local invariants behind LOCAL justifications"""
    # file indices: every set_current_file_of_pos argument is the return value of add_file
    setter = "nitrogql_ast::current_file::set_current_file_of_pos"
    n = 0
    for f in P.fns.values():
        if "::tests" in f.path or f.derived:
            continue
        pv = None
        for c in f.walk():
            if c.get("k") == "Call" and call_name(c) == setter:
                pv = pv or Prov(f)
                n += 1
                a0 = pv.atoms(c["args"][0])
                ok = has_call(a0, "FileStore::add_file")
                if not ok and f.path.endswith("FileStore::add_file"):
                    # the store announces the index itself: fine when what it announces is what it returns
                    tail = f.body.get("b", {}).get("tail") if isinstance(f.body, dict) else None
                    same = tail is not None and _root_local(tail) is not None and _root_local(tail) == _root_local(c["args"][0])
                    if same:
                        R.holds("R08-c", "file-index-source:%s#%d" % (short(f.path), n), "add_file announces the index it returns", loc=f.loc())
                    else:
                        R.undecided("R08-c", "file-index-source:%s#%d" % (short(f.path), n), "add_file sets the current file itself; whether the value is the "
                                    "index it returns was not recognised", loc=f.loc())
                    continue
                if not ok:
                    # the index arrives through a parameter of a helper: look one level up, at what the callers pass
                    pnames = [pv.params.get(b.get("local")) if b.get("k") == "Binding" else None for b in f.params]
                    via = [i for i, nm in enumerate(pnames) if nm is not None and ("param", nm) in a0]
                    callers = [(g, x) for g in P.fns.values() if not g.derived and "::tests" not in g.path for x in g.walk()
                               if x.get("k") in ("Call", "MethodCall") and call_name(x) == f.path]
                    if via and callers:
                        verdicts = []
                        for g, x in callers:
                            args = ([x["recv"]] if x.get("k") == "MethodCall" else []) + x["args"]
                            gp = Prov(g)
                            verdicts.append(all(i < len(args) and has_call(gp.atoms(args[i]), "FileStore::add_file") for i in via))
                        if all(verdicts):
                            ok = True
                        elif not any(verdicts):
                            ok = False
                        else:
                            R.undecided("R08-c", "file-index-source:%s#%d" % (short(f.path), n), "the file index arrives through a parameter; callers disagree", loc=f.loc())
                            continue
                    elif via:
                        R.undecided("R08-c", "file-index-source:%s#%d" % (short(f.path), n), "the file index arrives through a parameter and no caller was found", loc=f.loc())
                        continue
                R.check("R08-c", "file-index-source:%s#%d" % (short(f.path), n), ok, "current file index = add_file(..)'s return value",
                        "%s sets a current file index that does not come from FileStore::add_file: positions may index outside the file store "
                        "(print_positioned_error and the JSON renderers index it)" % f.path, loc=f.loc())
    R.floor("R08-c", "set_current_file_of_pos call sites", n, 3)
    # renderer: builtin test dominates the file lookup
    ppe = P.fn("nitrogql_error::print_positioned_error")
    mq = MirQ(P.mir[ppe.path])
    idx = mq.calls_to(lambda q: q.endswith("Index::index") or q.endswith("index"))
    R.check("R08-c", "renderer-builtin-guard", True, "see R18-f:human-builtin-guard")
    # schema files before operation files
    from templates import inlined
    rc = inlined(P, P.fn("nitrogql_cli::run_cli_impl"))
    order = []
    for c in rc.walk():      # pre-order = evaluation order for statements of one body; helper bodies are visited at their call site
        if c.get("k") == "MethodCall" and (call_name(c) or "").endswith("FileStore::add_file"):
            k = [norm(x.get("def", "")).split("::")[-1] for x in subnodes(c["args"][-1]) if x.get("k") == "Path" and "FileKind::" in norm(x.get("def", ""))]
            order.append(k[0] if k else "?")
    if "Operation" in order and "Schema" in order and "?" not in order:
        ok = order.index("Operation") > max(i for i, k in enumerate(order) if k == "Schema")
        R.check("R08-c", "schema-before-operations", ok, "every add_file(Schema) precedes the first add_file(Operation)", "add_file order is %s" % order, loc=rc.loc())
    else:
        R.undecided("R08-c", "schema-before-operations", "add_file sites with a literal FileKind not found in run_cli_impl and its helpers (%s)" % order, loc=rc.loc())
    # the selection-set visitor is applied to every selection, before any skip (get_boolean_variables must see the directives of
    # every selection that check_skip_directive later evaluates)
    vf = P.fn("nitrogql_printer::operation_type_printer::selection_set_visitor::visit_fields_in_selection_set_impl")
    vlocals = {b["local"] for p in vf.params for b in subnodes(p) if b.get("k") == "Binding" and "FnMut" in str(p.get("t", "")) or "impl " in str(p.get("t", ""))}
    vcalls = [(i, x) for i, (x, _) in enumerate(vf.nodes()) if x.get("k") == "Call" and isinstance(x.get("callee_e"), dict) is False and call_name(x) is None]
    R.floor("R08-c", "visitor invocations in visit_fields_in_selection_set_impl", len(vcalls), 1)
    from templates import guards_of
    for i, x in vcalls:
        gs = [g for g in guards_of(vf, i) if g["kind"] in ("cond", "pat") or (g["kind"] == "arm" and g.get("match") is not None and g["match"].get("src") == "Normal")
              or (g["kind"] == "arg" and g.get("closure"))]
        # the loop's own desugaring and the kind dispatch on `Selection` are not conditions on the selection's content
        gs = [g for g in gs if not (g["kind"] == "arm" and "Selection" in str((g["e"] or {}).get("t", "")) and "Option" not in str((g["e"] or {}).get("t", "")))]
        how = ["%s:%s" % (g["kind"], "after-skip" if g.get("node") is not None and g["kind"] == "cond" and not any(n is x for n in subnodes(g["node"])) else "inside") for g in gs]
        from templates import exits_before
        early = exits_before(vf, i)
        how += ["preceded-by-%s" % k.lower() for _, k in early]
        R.check("R08-c", "visitor-every-selection", not gs and not early and len(vcalls) == 1, "visitor(sel) runs once for every selection of the loop",
                "the visitor is invoked conditionally (%s; %d call sites): a selection skipped by the seen-fragment test is never shown to "
                "get_boolean_variables, so a @skip/@include variable used only there is missing from the branching condition and "
                "check_skip_directive's expect(\"Type system error\") panics" % (how, len(vcalls)), loc=vf.loc())
    # loader: every access to Task.loaded_files uses the same key form
    task_adt = [a for a in P.adts.values() if a.path.startswith("graphql_loader::") and a.path.endswith("::Task")]
    TASK = task_adt[0].path if len(task_adt) == 1 else "graphql_loader::tasks::Task"
    forms = {}
    for f in P.fns.values():
        if not f.path.startswith("graphql_loader::") or f.derived:
            continue
        pv = None
        for c in f.walk():
            if c.get("k") == "MethodCall" and c["method"] in ("insert", "get", "contains_key", "remove", "entry", "get_mut") and c["args"] \
                    and any(y.get("k") == "Field" and y.get("field") == "loaded_files" and norm(y.get("adt", "")) == TASK for y in subnodes(c["recv"])):
                pv = pv or Prov(f)
                # key form = the path-shaping workspace functions applied to the key at this access (functions that return a path or
                # string); iterator-producing or look-up helpers are not a form
                norms = tuple(sorted(short(a[1]) for a in pv.atoms(c["args"][0]) if a[0] == "call" and a[1] in P.fns
                                     and any(t in (P.fns[a[1]].sig_output or "") for t in ("PathBuf", "Path", "String", "str"))
                                     and "Iterator" not in (P.fns[a[1]].sig_output or "") and "impl " not in (P.fns[a[1]].sig_output or "")))
                forms.setdefault(norms, []).append("%s.%s" % (f.name, c["method"]))
    R.floor("R08-c", "Task.loaded_files accesses", sum(len(v) for v in forms.values()), 4)
    R.check("R08-c", "loaded-files-key-form", len(forms) == 1, "all accesses use the same key form %s" % (list(forms) or "?"),
            "Task.loaded_files is accessed with differently normalised keys %s: a file registered under one form is not found under the other and "
            "get_root_document's expect(\"Root file should be present\") panics for such a file name" % forms)
    # string slices: range bounds are byte offsets, never char counts
    nslices = 0
    for f in P.fns.values():
        if "::tests" in f.path or f.derived:
            continue
        pv = None
        for x in f.walk():
            if x.get("k") == "Index" and ("str" in str(x["e"].get("t", "")) or "String" in str(x["e"].get("t", ""))) and "Vec<" not in str(x["e"].get("t", "")):
                pv = pv or Prov(f)
                a = pv.data_atoms(x["idx"])
                nslices += 1
                calls = {c[1].split("::")[-1] for c in a if c[0] == "call"}
                bad = "enumerate" in calls and "chars" in calls
                R.check("R08-c", "str-slice-bounds:%s" % short(f.path), not bad, "slice bounds are byte offsets (%s)" % sorted(calls & {"char_indices", "len", "find"}),
                        "%s slices a string with bounds counted by chars().enumerate(): with a multi-byte character before the identifier the "
                        "bound is not a char boundary (panic) or the slice is the wrong text" % f.path, loc=f.loc())
    R.floor("R08-c", "string slice sites", nslices, 2)
    _same_string_offsets(P, R)
    _ordered_bounds(P, R)
    # skip_chars: byte offset from len_utf8
    sk = P.fn("nitrogql_utils::chars::skip_chars")
    ms = [c["method"] for c in sk.walk() if c.get("k") == "MethodCall"]
    R.check("R08-c", "skip_chars-byte-offset", "len_utf8" in ms and "len_utf16" not in ms and "split_at" in ms,
            "split offset = sum of len_utf8 of the skipped chars (always a char boundary)",
            "skip_chars computes the split offset with %s: with non-ASCII indentation the offset is not a char boundary and split_at panics "
            "(descriptions in generate, source lines in diagnostics)" % [m for m in ms if m.startswith("len")], loc=sk.loc())
    fi = P.fn("nitrogql_utils::chars::first_non_space_byte_index")
    R.check("R08-c", "indent-units", any(c.get("k") == "MethodCall" and c["method"] == "char_indices" for c in fi.walk()), "indentation measured in chars",
            "first_non_space_byte_index no longer counts chars", loc=fi.loc())
    # generate: the option guard precedes the expects
    rg = P.fn("nitrogql_cli::generate::run_generate", required=False)
    if rg is None:
        R.undecided("R08-c", "schema-output-guard", "run_generate not found")
    else:
        scope = [P.fns[p] for p in P.reachable([rg]) if p.startswith("nitrogql_cli::")]
        errs = [n for f in scope for n in f.walk() if n.get("k") == "Struct" and "rest" not in n and norm(n.get("variant", "")).endswith("CliError::OptionRequired")]
        expects = [1 for f in scope for k, kind, what, line, node in site_keys(f) if kind == "expect" and what.startswith("This should be prevented")]
        if expects:
            R.check("R08-c", "schema-output-guard", len(errs) >= 1, "missing schemaOutput/schemaModuleSpecifier is a diagnostic",
                    "run_generate lost its OptionRequired guard: the later expect() becomes reachable from configuration", loc=rg.loc())
        else:
            R.holds("R08-c", "schema-output-guard", "no expect() depends on the option guard any more (%d OptionRequired diagnostics)" % len(errs), loc=rg.loc())
    # parse_config returns None on invalid YAML
    pc = P.fn("nitrogql_config_file::parse_config::parse_config")
    bad = [k for k, kind, what, line, node in site_keys(pc)]
    R.check("R08-c", "config-parse-total", not bad, "parse_config has no panic site (invalid YAML => None => Validation error)",
            "parse_config can panic on configuration text: %s" % bad, loc=pc.loc())


_OFFSET_METHODS = ("find", "rfind", "char_indices", "match_indices", "rmatch_indices", "len", "position", "rposition", "len_utf8")


def _root_local(e):
    while isinstance(e, dict):
        k = e.get("k")
        if k == "Path" and "local" in e:
            return e["local"]
        if k == "MethodCall":
            e = e["recv"]
        elif k in ("AddrOf", "Unary", "DropTemps", "Field", "Index", "Cast", "Use") and "e" in e:
            e = e["e"]
        elif k == "Call" and e.get("args"):
            e = e["args"][0]
        else:
            return None
    return None


def _offset_sources(P, fn, pv, bound, depth=0, seen=None):
    """root locals of the strings on which the byte offsets feeding `bound` were computed (through local bindings, closures over
    collections and workspace helpers that take a &str and return indices)"""
    seen = seen if seen is not None else set()
    out = set()
    todo = [bound]
    while todo:
        e = todo.pop()
        for y in subnodes(e):
            k = y.get("k")
            if k == "MethodCall" and y["method"] in _OFFSET_METHODS and ("str" in str(y.get("recv_ty", "")) or "String" in str(y.get("recv_ty", ""))
                                                                         or "Chars" in str(y.get("recv_ty", "")) or "CharIndices" in str(y.get("recv_ty", ""))):
                r = _root_local(y["recv"])
                if r is not None:
                    out.add(r)
            elif k == "Call" and (call_name(y) or "") in P.fns and y.get("args") and "str" in str(y["args"][0].get("t", "")) \
                    and "usize" in (P.fns[call_name(y)].sig_output or ""):
                r = _root_local(y["args"][0])
                if r is not None:
                    out.add(r)
            elif k == "Path" and "local" in y and y["local"] not in seen:
                seen.add(y["local"])
                for src, _ in pv.src.get(y["local"], []):
                    if src is not None and not (src.get("k") == "Tup" and src.get("t") == "()"):
                        todo.append(src)
    return out


_SEARCHES = ("find", "rfind", "position", "rposition", "find_map")


def _search_calls(pv, bound, seen=None):
    """the search calls (`find`, `rfind`, `position`, ...) whose result feeds a slice bound, through local bindings"""
    seen = seen if seen is not None else set()
    out = []
    todo = [bound]
    while todo:
        e = todo.pop()
        if isinstance(e, list):
            todo.extend(e)
            continue
        if not isinstance(e, dict):
            continue
        if e.get("k") == "MethodCall" and e["method"] in _SEARCHES:
            out.append(e)           # what the search was applied to is not part of the bound's own history
            continue
        if e.get("k") == "Path" and "local" in e and e["local"] not in seen:
            seen.add(e["local"])
            for src, _ in pv.src.get(e["local"], []):
                if src is not None and not (src.get("k") == "Tup" and src.get("t") == "()"):
                    todo.append(src)
        for v in e.values():
            if isinstance(v, (dict, list)):
                todo.append(v)
    return out


def _ordered_bounds(P, R, controls=False):
    """`s[lo..hi]` panics when lo > hi.  Where both bounds are results of *searches on the sliced string itself* (two `find`s for two
    patterns, say), nothing orders them unless the second search starts where the first ended (`s[lo..].find(..)`) or the code
    compares them: a closing delimiter that occurs before the opening one makes the range run backwards."""
    n = 0
    for f in P.fns.values():
        if "::tests" in f.path or f.derived or (f.crate == "selfcheck") != controls:
            continue
        pv = None
        for x in f.walk():
            if not (x.get("k") == "Index" and ("str" in str(x["e"].get("t", "")) or "String" in str(x["e"].get("t", ""))) and "Vec<" not in str(x["e"].get("t", ""))):
                continue
            idx = x["idx"]
            if not (idx.get("k") == "Struct" and str(idx.get("adt", "")).endswith("range::Range")):
                continue
            flds = {fl["name"]: fl["e"] for fl in idx.get("fields", [])}
            if "start" not in flds or "end" not in flds:
                continue
            pv = pv or Prov(f)
            r0 = _root_local(x["e"])
            if r0 is None:
                continue
            lo = [c for c in _search_calls(pv, flds["start"]) if c.get("recv", {}).get("k") == "Path" and c["recv"].get("local") == r0]
            hi = [c for c in _search_calls(pv, flds["end"]) if c.get("recv", {}).get("k") == "Path" and c["recv"].get("local") == r0]
            if not lo or not hi:
                continue
            n += 1
            key = "str-range-ordered:%s" % short(f.path)
            if any(a is b for a in lo for b in hi):
                R.holds("R08-c", key, "both bounds come from one search", loc=f.loc())
                continue
            lo_l = {y["local"] for y in subnodes(flds["start"]) if y.get("k") == "Path" and "local" in y}
            hi_l = {y["local"] for y in subnodes(flds["end"]) if y.get("k") == "Path" and "local" in y}
            compared = False
            for y in f.walk():
                if y.get("k") == "Binary" and y.get("op") in ("<", "<=", ">", ">="):
                    ls = {z["local"] for z in subnodes(y) if z.get("k") == "Path" and "local" in z}
                    if ls & lo_l and ls & hi_l:
                        compared = True
                elif y.get("k") == "MethodCall" and y.get("method") in ("get", "checked_sub", "saturating_sub", "cmp", "min", "max", "clamp"):
                    ls = {z["local"] for z in subnodes(y) if z.get("k") == "Path" and "local" in z}
                    if ls & lo_l and ls & hi_l:
                        compared = True
            if compared:
                R.holds("R08-c", key, "the two bounds are compared before the cut", loc=f.loc())
            else:
                R.violated("R08-c", key, "%s slices a string from the result of one search to the result of another search of the same string "
                           "(`%s` .. `%s`), and nothing orders the two: when the second pattern occurs before the first, the range runs backwards "
                           "and the slice panics" % (f.path, lo[0]["method"], hi[0]["method"]), loc=f.loc())
    R.count("str_range_sites", n)


def _same_string_offsets(P, R, controls=False):
    """A byte offset is only a valid cut point of the string it was computed on.  Wherever a `&str` is sliced or split at an offset,
    the offset-producing operations behind the bound (`find`, `char_indices`, `len`, a helper from &str to indices, ...) must have been
    applied to that same string; an offset computed on *another* string (the minimum indentation of the neighbouring lines, say) is
    not a char boundary here as soon as the two strings differ in multi-byte characters."""
    n = 0
    for f in P.fns.values():
        if "::tests" in f.path or f.derived or (f.crate == "selfcheck") != controls:
            continue
        pv = None
        for x in f.walk():
            recv = bound = None
            if x.get("k") == "Index" and ("str" in str(x["e"].get("t", "")) or "String" in str(x["e"].get("t", ""))) and "Vec<" not in str(x["e"].get("t", "")):
                recv, bound = x["e"], x["idx"]
            elif x.get("k") == "MethodCall" and x["method"] in ("split_at", "split_at_checked", "get") and "str" in str(x.get("recv_ty", "")) and x["args"] \
                    and "Vec" not in str(x.get("recv_ty", "")) and "HashMap" not in str(x.get("recv_ty", "")):
                recv, bound = x["recv"], x["args"][0]
            if recv is None:
                continue
            pv = pv or Prov(f)
            r0 = _root_local(recv)
            if r0 is None:
                continue
            n += 1
            srcs = _offset_sources(P, f, pv, bound)
            key = "str-offset-same-string:%s" % short(f.path)
            params = {b.get("local") for b in f.params if b.get("k") == "Binding"}
            # aliases of the sliced string (let t = s; / &*s)
            alias = {r0}
            for lid, lst in pv.src.items():
                for src, _ in lst:
                    if src is not None and _root_local(src) in alias and src.get("k") in ("Path", "AddrOf", "Unary", "DropTemps"):
                        alias.add(lid)
            foreign = {l for l in srcs if l not in alias}
            if foreign:
                # the length of a *pattern that was matched against the sliced string* (`s.ends_with(ext)` .. `s.len() - ext.len()`,
                # `s.find(pat)` .. `+ pat.len()`) is a char boundary of s by construction
                matched = set()
                for y in f.walk():
                    if y.get("k") == "MethodCall" and y.get("method") in ("ends_with", "starts_with", "strip_suffix", "strip_prefix", "find", "rfind",
                                                                        "split_once", "rsplit_once", "match_indices", "contains") \
                            and _root_local(y["recv"]) in alias and y.get("args"):
                        for z in subnodes(y["args"][0]):
                            if z.get("k") == "Path" and "local" in z:
                                matched.add(z["local"])
                                # a pattern bound by destructuring a tuple / reference of the same value
                                for src, _ in pv.src.get(z["local"], []):
                                    if src is not None:
                                        for w in subnodes(src):
                                            if w.get("k") == "Path" and "local" in w:
                                                matched.add(w["local"])
                # ... or was *selected* by such a match (`TABLE.iter().find(|(ext, _)| s.ends_with(ext))`)
                for l in list(foreign):
                    for src, _ in pv.src.get(l, []):
                        if src is not None and any(y.get("k") == "MethodCall" and y.get("method") in ("ends_with", "starts_with", "strip_suffix", "strip_prefix")
                                                   and _root_local(y["recv"]) in alias for y in subnodes(src)):
                            matched.add(l)
                foreign = {l for l in foreign if l not in matched}
            if not foreign:
                # the offset may arrive as a plain number through a parameter (a `skip_bytes(line, n)` helper): then the same question is
                # asked at every call site, between the argument for the string and the argument for the number
                pidx = {b.get("local"): i for i, b in enumerate(f.params) if b.get("k") == "Binding"}
                num_params = [pidx[y["local"]] for y in subnodes(bound) if y.get("k") == "Path" and y.get("local") in pidx
                              and "usize" in str(f.params[pidx[y["local"]]].get("t", ""))]
                if r0 in pidx and num_params:
                    bad_callers = []
                    for g in P.fns.values():
                        if g.derived or "::tests" in g.path:
                            continue
                        gpv = None
                        for c in g.walk():
                            if c.get("k") == "Call" and call_name(c) == f.path and len(c["args"]) == len(f.params):
                                gpv = gpv or Prov(g)
                                sroot = _root_local(c["args"][pidx[r0]])
                                for i in num_params:
                                    fs = _offset_sources(P, g, gpv, c["args"][i])
                                    if sroot is not None and any(l != sroot for l in fs):
                                        bad_callers.append(g.path)
                    if bad_callers:
                        R.violated("R08-c", key, "%s cuts its string argument at an offset passed in by %s, where that offset was computed on "
                                   "another string: it is a char boundary there, not necessarily here — with multi-byte characters the cut "
                                   "panics" % (f.path, short(bad_callers[0])), loc=f.loc())
                        continue
                R.holds("R08-c", key, "cut points are computed on the string they cut", loc=f.loc())
                continue
            via_param = [l for l in foreign if l in params]
            names = sorted({b["name"] for b in f.walk() if b.get("k") == "Binding" and b.get("local") in foreign})
            if len(via_param) == len(foreign):
                R.undecided("R08-c", key, "the offset is computed on another parameter (%s); whether it is the same string is the callers' business" % names, loc=f.loc())
            else:
                R.violated("R08-c", key, "%s cuts a string at a byte offset that was computed on another string (`%s`): the offset is a char "
                           "boundary there, not necessarily here — with multi-byte characters (non-ASCII indentation, say) slicing panics and the "
                           "diagnostic is never printed" % (f.path, ", ".join(names)), loc=f.loc())
    R.count("str_cut_sites", n)


def r08pc(P, R):
    from facts import Program
    SC = Program(harness.selfcheck_facts())
    f = SC.fn("selfcheck::panics")
    kinds = sorted(k for _, k, w, l, n in site_keys(f))
    R.check("R08-pc", "control:panic-kinds", kinds == ["index", "panic", "unwrap"], "panic!/index/unwrap controls detected",
            "self-check: the panic inventory sees %s in the control function (expected index, panic, unwrap)" % kinds)
    # the string-cut clauses have no violating instance in /repo: the control crate keeps one of each, and a correct twin
    Rc = harness.Reporter("C08", "control")
    _same_string_offsets(SC, Rc, controls=True)
    _ordered_bounds(SC, Rc, controls=True)
    got = {r["key"]: r["status"] for r in Rc.results}
    want = {"R08-c:str-range-ordered:selfcheck::range_two_searches": "VIOLATED", "R08-c:str-range-ordered:selfcheck::range_chained_searches": "HOLDS",
            "R08-c:str-offset-same-string:selfcheck::cut_at_foreign_offset": "VIOLATED"}
    seen = {k: str(got.get(k)).upper() for k in want}
    R.check("R08-pc", "control:string-cuts", all(seen[k].startswith(v) for k, v in want.items()), "the string-cut clauses report their controls and accept the correct twin",
            "self-check: string-cut controls came out as %s (expected %s)" % (seen, want))


RULES = [("R08-pc", r08pc), ("R08-a", r08a), ("R08-b", r08b), ("R08-c", r08c)]
EXPLANATION = (
    "Panic-freedom argued site by site: (R08-a) every potential panic site (panic!/unreachable!/assert!, unwrap/expect, indexing, "
    "split_at, Vec::remove, RefCell borrows) in every function reachable from the public entry points is enumerated from the typed "
    "HIR; sites in the parser builders are discharged mechanically by the grammar ⊆ builder inclusion of R07-a; every other site must "
    "match a row of the justification table (LOCAL / CHECKER / ENV / CONTRACT) — a site without a row is an unreviewed panic path and "
    "fails the check; rows of class FINDING are inputs known to panic; CHECKER rows hold only where check dominates (not on the "
    "loader path) and only while fragment bodies are checked; (R08-b) every recursive cycle of the reachable call graph is structural "
    "or guarded by a seen-set, the unguarded fragment expansion of the type printer is reported; (R08-c) the structural guards the "
    "LOCAL rows lean on (file indices, schema-before-operations, skip_chars byte offsets, option guard, total config parsing). "
    "Not decided: time bounds, stack depth on deeply nested input, arithmetic overflow (debug-only).")
ASSUMPTIONS = ["panic sites are those the inventory recognises (explicit macros, unwrap/expect family, indexing, split_at, remove, RefCell); "
               "panics inside third-party crates (pest, serde_yaml, json_writer) are trusted base",
               "justification rows were written by hand from reading each site"]


def main(tier):
    return harness.run_property("C08", RULES, "other", EXPLANATION, ASSUMPTIONS, tier)


if __name__ == "__main__":
    import sys
    if "--freeze" in sys.argv:
        # developer tool: record how many sites each table row justifies on /repo's current tree
        import json
        from facts import Program
        d, _ = harness.ensure_facts()
        Pq = Program(d)
        Rq = harness.Reporter("C08", "quick")
        globals()["_FROZEN"] = {}
        r08a(Pq, Rq)
        out = {"%s|%s|%s" % (suf, k, w): _ROW_HITS.get(i, 0) for i, (suf, k, w, cls, why) in enumerate(T)}
        json.dump(out, open(os.path.join(harness.VERIF, "tables", "panic_row_counts.json"), "w"), indent=0, sort_keys=True)
        print("frozen %d rows" % len(out))
