"""C04 — `check` raises no diagnostic on spec-valid operation documents (finite decision tables)."""
import harness
from facts import (norm, call_name, short, subnodes, lit_value, matches_on, arm_variants, matches_on_type, lit_table,
                   field_reads, peel_ty)
from prov import Prov, has_field, has_call
from templates import variant_table, first_match, iterator_reuse, enclosing_contexts

CK = "nitrogql_checker::"
A = "nitrogql_ast::"

# GraphQL spec §3.5 input coercion of literals: built-in scalar -> literal kinds accepted (null is handled by nullability)
SCALAR_LITERALS = {
    "Int": {"IntValue"},
    "Float": {"IntValue", "FloatValue"},
    "String": {"StringValue"},
    "Boolean": {"BooleanValue"},
    "ID": {"StringValue", "IntValue"},
}
KINDS = ("Named", "NonNull", "List")
COMPOSITE = ("Object", "Interface", "Union")


def r04a(P, R):
    f = P.fn(CK + "common::is_value_compatible_type_def")
    ms = matches_on_type(f, "str")
    R.floor("R04-a", "scalar-name match", len(ms), 1)
    for m in ms:
        rows = lit_table(m)
        seen = {}
        custom_ok = False
        for lits, guard, catch, arm in rows:
            accepted = set()
            for inner in subnodes(arm["body"]):
                if inner.get("k") == "Match" and "matches" in (inner.get("x") or ""):
                    v, _ = arm_variants(inner)
                    accepted |= v
            for l in lits:
                seen[l] = accepted
            if catch:
                custom_ok = any(x.get("k") == "Lit" and x.get("v") is True for x in subnodes(arm["body"]))
        for name, want in sorted(SCALAR_LITERALS.items()):
            got = seen.get(name)
            if got is None:
                R.violated("R04-a", "scalar:" + name, "built-in scalar %s has no row in the literal-compatibility table" % name, loc=f.loc())
                continue
            missing = want - got
            extra = got - want - {"NullValue"}
            R.check("R04-a", "scalar:" + name, not missing and not extra and "NullValue" in got,
                    "%s accepts %s (+null)" % (name, sorted(want)),
                    "literal kinds accepted for %s are %s; input coercion (spec §3.5) accepts %s plus null: %s"
                    % (name, sorted(got), sorted(want), ("rejects valid " + str(sorted(missing))) if missing else ("accepts invalid " + str(sorted(extra)))),
                    loc=f.loc())
        R.check("R04-a", "scalar:custom", custom_ok, "custom scalars accept any literal (their coercion is server-defined)",
                "custom scalars no longer accept arbitrary literals", loc=f.loc())
    # enum / input object rows
    for m in matches_on(f, "TypeDefinition"):
        tab = variant_table(m)
        enum_arm = tab.get("Enum")
        if enum_arm:
            inner = [x for x in subnodes(enum_arm["body"]) if x.get("k") == "Match" and x.get("src") == "Normal"]
            ok = False
            for im in inner:
                t = variant_table(im)
                if "NullValue" in t and "EnumValue" in t:
                    ok = True
            R.check("R04-a", "enum-literals", ok, "enum types accept enum literals and null", "enum typing does not accept {EnumValue, NullValue}", loc=f.loc())
        io = tab.get("InputObject")
        if io:
            pv = Prov(f)
            # missing optional field is fine: RequiredFieldNotSpecified only if non-null AND no default
            sites = [(i, x) for i, (x, _) in enumerate(f.nodes()) if x.get("k") == "Struct" and "rest" not in x and norm(x.get("variant", "")).endswith("RequiredFieldNotSpecified")]
            ok = False
            for i, x in sites:
                for c in enclosing_contexts(f, i):
                    if c[0] == "if-then":
                        names = {n_.get("method") for n_ in subnodes(c[1]["cond"]) if n_.get("k") == "MethodCall"}
                        fields = {a[2] for a in pv.atoms(c[1]["cond"]) if a[0] == "field"}
                        if "is_nonnull" in names and "default_value" in fields:
                            ok = True
            R.check("R04-a", "input-object-required", ok, "an omitted input field is an error only if non-null and without default",
                    "RequiredFieldNotSpecified is not conditional on (non-null type AND no default value)", loc=f.loc())
    # required arguments: same condition in check_arguments
    ca = P.fn(CK + "common::check_arguments")
    pv = Prov(ca)
    sites = [(i, x) for i, (x, _) in enumerate(ca.nodes()) if x.get("k") == "Struct" and "rest" not in x and norm(x.get("variant", "")).endswith("RequiredArgumentNotSpecified")]
    R.floor("R04-a", "required-argument diagnostics", len(sites), 1)
    reads = field_reads(ca)
    ok = any(k[1] == "default_value" for k in reads) and any(x.get("k") == "MethodCall" and x["method"] == "is_nonnull" for x in ca.walk())
    R.check("R04-a", "argument-required", ok, "an omitted argument is an error only if non-null and without default",
            "check_arguments does not consider nullability and default value before reporting a missing argument", loc=ca.loc())


def r04b(P, R):
    f = P.fn(CK + "common::check_value")
    outer = [m for m in matches_on(f, "Type") if len(m["arms"]) >= 3]
    R.floor("R04-b", "wrapper match in check_value", len(outer), 1)
    m = outer[0]
    tab = variant_table(m)
    R.check("R04-b", "wrapper-kinds", set(tab) == set(KINDS), "Named/NonNull/List all handled", "check_value handles wrappers %s" % sorted(tab), loc=f.loc())
    VALUE_KINDS = ["NullValue", "IntValue", "FloatValue", "StringValue", "BooleanValue", "EnumValue", "ListValue", "ObjectValue"]

    def action(arm_body):
        """'mismatch' if the arm yields literal true, 'recurse' if it calls check_value and yields false, 'ok' for plain false"""
        calls = [x for x in subnodes(arm_body) if x.get("k") == "Call" and (call_name(x) or "") == f.path]
        bools = [x.get("v") for x in subnodes(arm_body) if x.get("k") == "Lit" and x.get("lk") == "bool"]
        if calls and bools[-1:] == [False]:
            return "recurse"
        if bools == [True]:
            return "mismatch"
        if bools == [False]:
            return "ok"
        return "?"
    for wrapper, want in (("NonNull", {"NullValue": "mismatch", "*": "recurse"}),
                          ("List", {"ListValue": "recurse", "NullValue": "ok", "*": "recurse"})):
        arm = tab.get(wrapper)
        if arm is None:
            continue
        inner = [x for x in subnodes(arm["body"]) if x.get("k") == "Match" and x.get("src") == "Normal" and peel_ty(x["scrut"].get("t", "")).endswith("value::Value")]
        if not inner:
            R.undecided("R04-b", "table:" + wrapper, "no inner match over the value", loc=f.loc())
            continue
        im = inner[0]
        for vk in VALUE_KINDS:
            idx = first_match(im, vk)
            got = action(im["arms"][idx]["body"]) if idx is not None else "none"
            exp = want.get(vk, want["*"])
            R.check("R04-b", "table:%s x %s" % (wrapper, vk), got == exp,
                    "%s x %s -> %s" % (wrapper, vk, got),
                    "check_value decides (%s type, %s literal) as `%s`; input coercion requires `%s` (%s)"
                    % (wrapper, vk, got, exp, "null is valid for any nullable type; a non-list value coerces to a one-element list"),
                    loc=f.loc())
    # variables: compatibility instead of literal typing, unknown variable reported
    pv = Prov(f)
    R.check("R04-b", "variable-branch", has_call(pv.atoms(f.body), "common::check_type_compatibility") and has_call(pv.atoms(f.body), "common::get_variable_definition"),
            "variables are checked by type compatibility with their definition", "check_value does not treat variables through check_type_compatibility", loc=f.loc())


def r04c(P, R):
    """IsVariableUsageAllowed / AreTypesCompatible as decision tables"""
    f = P.fn(CK + "common::check_value")
    reads = field_reads(f)
    R.check("R04-c", "variable-default-considered", (A + "variable::VariableDefinition", "default_value") in reads,
            "the variable's default value takes part in IsVariableUsageAllowed",
            "check_value never reads VariableDefinition.default_value: a nullable variable with a default cannot be allowed in a non-null position",
            loc=f.loc())
    # only a *non-null* default relaxes, and only for a nullable variable in a non-null location
    pv = Prov(f)
    calls = {x["method"] for x in f.walk() if x.get("k") == "MethodCall"}
    R.check("R04-c", "variable-default-nonnull", "is_null" in calls and "is_nonnull" in calls, "relaxation requires a non-null default and a nullable variable type",
            "the default-value relaxation does not test `default is not null` and `variable type is nullable`", loc=f.loc())
    g = P.fn(CK + "common::check_type_compatibility")
    ms = [m for m in g.walk() if m.get("k") == "Match" and m.get("src") == "Normal" and m["scrut"].get("k") == "Tup" and not m.get("x")]
    R.floor("R04-c", "compatibility match", len(ms), 1)
    m = ms[0]
    pvg = Prov(g)
    # which tuple element is `expected`?
    order = [sorted(x[1] for x in pvg.atoms(e) if x[0] == "param") for e in m["scrut"]["es"]]
    exp_first = order[0] == ["expected_type"]
    R.check("R04-c", "scrutinee-order", order in ([["expected_type"], ["value_type"]], [["value_type"], ["expected_type"]]), "scrutinee is (expected, value)",
            "scrutinee order is %s" % order, loc=g.loc())

    def act(arm):
        body = arm["body"]
        rec = [x for x in subnodes(body) if x.get("k") == "Call" and (call_name(x) or "") == g.path]
        if rec:
            a0 = {x[1] for x in pvg.atoms(rec[0]["args"][0]) if x[0] == "param"}
            a1 = {x[1] for x in pvg.atoms(rec[0]["args"][1]) if x[0] == "param"}
            a1n = rec[0]["args"][1]
            whole1 = a1n.get("k") == "Path" and len(g.params) > 1 and a1n.get("local") == g.params[1].get("local")
            return "rec-strip-value" if whole1 else "rec-both"
        v = lit_value(body if body.get("k") != "BlockExpr" else (body["b"].get("tail") or {}))
        if v is False:
            return "false"
        if any(x.get("k") == "Binary" and x.get("op") == "==" for x in subnodes(body)):
            return "name-eq"
        return "?"
    # oracle over (expected kind, value kind) — spec AreTypesCompatible(variableType, locationType)
    oracle = {
        ("NonNull", "NonNull"): "rec-both", ("Named", "NonNull"): "rec-strip-value", ("List", "NonNull"): "rec-strip-value",
        ("NonNull", "Named"): "false", ("NonNull", "List"): "false", ("List", "List"): "rec-both",
        ("List", "Named"): "false", ("Named", "List"): "false", ("Named", "Named"): "name-eq",
    }
    for (ek, vk), want in sorted(oracle.items()):
        val = (ek, vk) if exp_first else (vk, ek)
        idx = first_match(m, val)
        got = act(m["arms"][idx]) if idx is not None else "none"
        R.check("R04-c", "compat:(expected %s, variable %s)" % (ek, vk), got == want, "-> %s" % got,
                "check_type_compatibility decides (location %s, variable %s) with `%s` (arm %s, first match wins); AreTypesCompatible requires `%s`"
                % (ek, vk, got, idx, want), loc=g.loc())


def r04d(P, R):
    """fragment applicability: every composite (scope, condition) pair has its own overlap test; no catch-all swallows a pair"""
    f = P.fn(CK + "operation_checker::check_fragment_spread_core")
    ms = [m for m in f.walk() if m.get("k") == "Match" and m.get("src") == "Normal" and m["scrut"].get("k") == "Tup" and not m.get("x")]
    R.floor("R04-d", "applicability match", len(ms), 1)
    m = ms[0]
    pv = Prov(f)
    TSD = "graphql_type_system::definitions::"
    want_reads = {
        ("Object", "Object"): [("ObjectDefinition", "name")],
        ("Object", "Interface"): [("ObjectDefinition", "interfaces")], ("Interface", "Object"): [("ObjectDefinition", "interfaces")],
        ("Object", "Union"): [("UnionDefinition", "possible_types")], ("Union", "Object"): [("UnionDefinition", "possible_types")],
        ("Interface", "Interface"): [("ObjectDefinition", "interfaces")],
        ("Interface", "Union"): [("UnionDefinition", "possible_types"), ("ObjectDefinition", "interfaces")],
        ("Union", "Interface"): [("UnionDefinition", "possible_types"), ("ObjectDefinition", "interfaces")],
        ("Union", "Union"): [("UnionDefinition", "possible_types")],
    }
    for a in COMPOSITE:
        for b in COMPOSITE:
            idx = first_match(m, (a, b))
            arm = m["arms"][idx] if idx is not None else None
            reports = arm is not None and any(x.get("k") == "Struct" and norm(x.get("variant", "")).endswith("FragmentConditionNeverMatches") for x in subnodes(arm["body"]))
            conditional = arm is not None and any(x.get("k") == "If" for x in subnodes(arm["body"]))
            atoms = pv.atoms(arm["body"]) if arm else set()
            reads_ok = all(any(x[0] == "field" and x[1] == TSD + adt and x[2] == fld for x in atoms) for adt, fld in want_reads[(a, b)])
            R.check("R04-d", "applicability:(%s, %s)" % (a, b), reports and conditional and reads_ok,
                    "dedicated overlap test on %s" % [w[1] for w in want_reads[(a, b)]],
                    "fragment applicability for (scope %s, condition %s) falls into arm %s which %s: %s"
                    % (a, b, idx, "reports unconditionally" if reports and not conditional else ("has no overlap test" if not reports else "tests the wrong component"),
                       "a valid spread is rejected or an impossible one accepted"), loc=f.loc())
    # after the applicability test the fragment's selections are checked against the *condition* type
    calls = [c for c in f.walk() if c.get("k") == "Call" and (call_name(c) or "").endswith("operation_checker::check_selection_set")]
    ok = bool(calls) and ("param", "fragment_condition") in pv.atoms(calls[-1]["args"][3]) and ("param", "root_type") not in pv.atoms(calls[-1]["args"][3])
    R.check("R04-d", "narrowed-parent", ok, "selections inside a fragment are checked against the fragment's type condition",
            "the fragment body is not checked against the (narrowed) condition type", loc=f.loc())
    # inline fragment without type condition keeps the parent type
    g = P.fn(CK + "operation_checker::check_inline_fragment")
    pvg = Prov(g)
    for mm in g.walk():
        if mm.get("k") == "Match" and mm.get("src") == "Normal":
            tab = variant_table(mm)
            if "None" in tab:
                cs = [c for c in subnodes(tab["None"]["body"]) if c.get("k") == "Call" and (call_name(c) or "").endswith("check_selection_set")]
                ok = bool(cs) and ("param", "root_type") in pvg.atoms(cs[0]["args"][3])
                R.check("R04-d", "inline-no-condition", ok, "`... { }` without type condition is checked against the enclosing type",
                        "an inline fragment without type condition is not checked against the enclosing type", loc=g.loc())
    fns = [x for x in P.fns.values() if x.path.startswith((CK + "operation_checker", CK + "common", CK + "types"))]
    n = iterator_reuse(P, R, "R04-d", fns)
    R.holds("R04-d", "iter-reuse:none", "%d iterator locals in the checker, none consumed by two partial consumers" % n)


def r04e(P, R):
    """__typename is selectable; subscriptions: one root field counted through fragments"""
    d = P.fn("nitrogql_semantics::direct_fields_of_output_type::get_typename_meta_field")
    lits = [x.get("v") for x in d.walk() if x.get("k") == "Lit" and x.get("lk") == "str"]
    R.check("R04-e", "typename-meta-field", "__typename" in lits and "String" in lits, "__typename: String! meta field",
            "the __typename meta field is not defined as `__typename: String!`", loc=d.loc())
    c = P.fn(CK + "operation_checker::count_selection_set_fields::selection_set_has_more_than_one_fields")
    cmp_ = [x for x in c.walk() if x.get("k") == "Binary" and x.get("op") in (">", ">=", "!=", "==", "<")]
    ok = len(cmp_) == 1 and cmp_[0]["op"] == ">" and lit_value(cmp_[0]["r"]) == "1"
    R.check("R04-e", "subscription-threshold", ok, "more than one root field", "the single-root-field rule compares with %s"
            % ([(x["op"], lit_value(x["r"])) for x in cmp_]), loc=c.loc())


def r04f(P, R):
    """name spaces: operation names are unique among operations, fragment names among fragments — an operation and a fragment may
    share a name (spec 5.2.1.1 / 5.5.1.1)"""
    from templates import enclosing_contexts
    e = P.fn(CK + "operation_checker::check_operation_document")
    pv = Prov(e)
    OD, FD = A + "operation::OperationDefinition", A + "operation::FragmentDefinition"
    for variant, own, other in (("DuplicateOperationName", OD, FD), ("DuplicateFragmentName", FD, OD)):
        sites = [i for i, (x, _) in enumerate(e.nodes()) if x.get("k") == "Struct" and "rest" not in x and norm(x.get("variant", "")).endswith(variant)]
        R.floor("R04-f", variant + " sites", len(sites), 1)
        for i in sites:
            guards = [c for c in enclosing_contexts(e, i) if c[0] in ("if-then", "let-else")]
            if not guards:
                R.undecided("R04-f", "namespace:" + variant, "no guard found", loc=e.loc())
                continue
            g = guards[0][1]["cond"] if guards[0][0] == "if-then" else guards[0][1].get("init")
            # fields of the *earlier* definition that the search predicate reads, callee bodies included
            reads = {}
            todo, seen = [g], set()
            while todo:
                x = todo.pop()
                for y in subnodes(x):
                    if y.get("k") == "Field" and norm(y.get("adt", "")) in (OD, FD):
                        reads.setdefault(norm(y["adt"]), set()).add(y["field"])
                    cn = call_name(y) if y.get("k") in ("Call", "MethodCall") else None
                    if cn and cn in P.fns and cn not in seen and not P.fns[cn].derived:
                        seen.add(cn)
                        todo.append(P.fns[cn].body)
                    if y.get("k") == "Path" and "local" in y and y["local"] not in seen:
                        seen.add(y["local"])
                        todo.extend(src for src, _ in pv.src.get(y["local"], []) if src is not None)
            # the current definition's own name is read through its binding (outside the predicate); what matters is that the
            # predicate never consults the *other* kind's name
            bad = "name" in reads.get(other, set())
            R.check("R04-f", "namespace:" + variant, "name" in reads.get(own, set()) and not bad,
                    "%s compares names of %s only" % (variant, own.split("::")[-1]),
                    "%s is raised by a search that also compares against the names of %s: `fragment User ...` followed by `query User ...` "
                    "is rejected although operations and fragments live in separate name spaces" % (variant, other.split("::")[-1]), loc=e.loc())


def _r03c(P, R):
    # every check_directives site uses exactly the spec location of the position its directives come from (shared with C03:
    # a wrong location both misses misplaced directives and rejects correctly placed ones)
    from c03 import r03c
    r03c(P, R, only_locations=True)


RULES = [("R04-a", r04a), ("R04-b", r04b), ("R04-c", r04c), ("R04-d", r04d), ("R04-e", r04e), ("R04-f", r04f), ("R03-c", _r03c)]
EXPLANATION = (
    "False-alarm freedom decided on finite tables read out of the code and compared with the GraphQL spec: (R04-a) literal kinds accepted "
    "per built-in scalar (Int literal for Float/ID), enum and input-object rows, required-ness = non-null and no default; (R04-b) the "
    "(wrapper type x literal kind) table of check_value evaluated with first-match semantics: null valid for nullable types, a "
    "non-list value coerces to a one-element list; (R04-c) IsVariableUsageAllowed reads the variable's default, and the nine "
    "(location kind, variable kind) cases of AreTypesCompatible hit arms with the required action in arm order; (R04-d) each of the "
    "nine composite (scope, condition) pairs has a dedicated conditional overlap test reading the right components, bodies are checked "
    "against the narrowed type, no iterator is consumed by two partial consumers; (R04-e) __typename meta field, subscription "
    "threshold. Not decided: value-dependent parts (possible-type overlap computed from a concrete schema, imported fragments).")
ASSUMPTIONS = ["GraphQL spec (October 2021) §3.5, §5.8.5 transcribed by hand", "first-match semantics of Rust `match` (patterns evaluated on abstract kinds)"]


def main(tier):
    return harness.run_property("C04", RULES, "other", EXPLANATION, ASSUMPTIONS, tier)
