"""C04 — `check` raises no diagnostic on spec-valid operation documents (finite decision tables).

The tables are read by abstract evaluation over kinds (c03.KindEval): for each row the function is run with the type / value
parameters fixed to one kind and the events on every path (recursive calls, diagnostics built, values returned) are compared with
the spec.  The verdict therefore does not depend on how the control flow is spelled (`match`, `if let`, `let else`, `matches!`,
early return, helper functions).  A row whose paths disagree, or whose value the evaluation cannot determine, is UNDECIDED.
"""
import harness
from facts import norm, call_name, short, subnodes, lit_value
from prov import Prov, has_field, has_call
from templates import iterator_reuse, enclosing_contexts, inlined, scope_fns
from c03 import (directed, KindEval, TooComplex, MProv, V, B_TRUE, B_FALSE, role_fn, decide, guard_exprs, ev_calls, ev_ctors, all_args, core_roles,
                 same_job, source_nodes, verdict_of, anchors_present, _sig, T_TYPE, T_TYPEDEF, T_VALUE)

CK = "nitrogql_checker::"
A = "nitrogql_ast::"

# GraphQL spec §3.5 input coercion of literals: built-in scalar -> literal kinds accepted (null is handled by nullability)
SCALAR_LITERALS = {
    "Int": {"IntValue"},
    "Float": {"IntValue", "FloatValue"},
    "String": {"StringValue"},
    "Boolean": {"BooleanValue"},
    "ID": {"StringValue", "IntValue"},
}
KINDS = ("Named", "NonNull", "List")
COMPOSITE = ("Object", "Interface", "Union")
VALUE_KINDS = ["NullValue", "IntValue", "FloatValue", "StringValue", "BooleanValue", "EnumValue", "ListValue", "ObjectValue"]
VD = A + "variable::VariableDefinition"


def _idx(f, needle):
    hits = [i for i, t in enumerate(_sig(f)) if needle in t]
    return hits[0] if len(hits) == 1 else None


def literal_row(P, f, ti, vi, kind, seeds=()):
    """(accepted, rejected, unknown) literal kinds of is_value_compatible_type_def for an expected type of `kind`"""
    acc, rej, unk = set(), set(), set()
    for vk in VALUE_KINDS:
        try:
            res = KindEval(P, want=lambda ev: False, seeds=seeds).run(f, {ti: V(kind), vi: V(vk)})
        except TooComplex:
            res = []
        firsts = {verdict_of(v) for v, _, _ in res}
        if firsts == {B_TRUE}:
            acc.add(vk)
        elif firsts == {B_FALSE}:
            rej.add(vk)
        else:
            unk.add(vk)
    return acc, rej, unk


def guarded_by(P, f, variant, pred):
    """Is the construction of diagnostic `variant` in `f` (helpers inlined) decided by a condition whose provenance satisfies
    `pred`?  True | False (sites and conditions seen, none satisfies) | None (no site)"""
    g = inlined(P, f)
    pv = MProv(g)
    sites = [i for i, (x, _) in enumerate(g.nodes()) if x.get("k") == "Struct" and "rest" not in x and norm(x.get("variant", "")).endswith("::" + variant)]
    if not sites:
        return None
    for i in sites:
        if any(pred(pv.deep_atoms(ge)) for ge in guard_exprs(g, i)):
            return True
    return False


def _required_unless_nullable_or_default(a):
    return has_call(a, "is_nonnull") and any(x[0] == "field" and x[2] == "default_value" for x in a)


def r04a(P, R):
    f = role_fn(P, CK + "common::is_value_compatible_type_def")
    ti, vi = _idx(f, T_TYPEDEF), _idx(f, T_VALUE)
    if ti is None or vi is None:
        R.undecided("R04-a", "scalar-table", "the type / value parameters of %s were not identified" % short(f.path), loc=f.loc())
    else:
        for name, want in sorted(SCALAR_LITERALS.items()):
            acc, rej, unk = literal_row(P, f, ti, vi, "Scalar", seeds=[("str", ("s", name))])
            want_all = want | {"NullValue"}
            missing = want_all & rej
            extra = acc - want_all
            verdict = False if (missing or extra) else (True if not unk else None)
            dev = "both" if (missing and extra) else ("strict" if missing else "lenient")
            decide(R, "R04-a", "scalar:" + name, verdict, dev=dev, ok_msg=
                   "%s accepts %s (+null)" % (name, sorted(want)), bad_msg=
                   "literal kinds accepted for %s are %s; input coercion (spec §3.5) accepts %s plus null: %s"
                   % (name, sorted(acc), sorted(want), ("rejects valid " + str(sorted(missing))) if missing else ("accepts invalid " + str(sorted(extra)))),
                   und_msg="the verdict for %s literals %s could not be evaluated" % (name, sorted(unk)), loc=f.loc())
        acc, rej, unk = literal_row(P, f, ti, vi, "Scalar", seeds=[("str", ("s", "\x00a scalar the schema defines"))])
        decide(R, "R04-a", "scalar:custom", False if rej else (True if not unk else None),
               "custom scalars accept any literal (their coercion is server-defined)",
               "custom scalars reject literals of kind %s" % sorted(rej), "the verdict for custom scalars could not be evaluated", loc=f.loc(), dev="strict")
        # enum row
        acc, rej, unk = literal_row(P, f, ti, vi, "Enum")
        want_all = {"NullValue", "EnumValue"}
        verdict = False if ((want_all & rej) or (acc - want_all)) else (True if not unk else None)
        decide(R, "R04-a", "enum-literals", verdict, "enum types accept enum literals and null",
               "enum typing accepts %s and rejects %s; it must accept exactly {EnumValue, NullValue}" % (sorted(acc), sorted(rej)),
               "the verdict for enum literals %s could not be evaluated" % sorted(unk), loc=f.loc(),
               dev="both" if ((want_all & rej) and (acc - want_all)) else ("strict" if (want_all & rej) else "lenient"))
    # missing optional input field is fine: RequiredFieldNotSpecified only if non-null AND no default
    IV = "graphql_type_system::definitions::InputValue"
    if anchors_present(P, R, "R04-a", "input-object-required", [(IV, "default_value")], ["is_nonnull"], loc=f.loc()):
        decide(R, "R04-a", "input-object-required", guarded_by(P, f, "RequiredFieldNotSpecified", _required_unless_nullable_or_default),
               "an omitted input field is an error only if non-null and without default",
               "RequiredFieldNotSpecified is not conditional on (non-null type AND no default value)",
               "RequiredFieldNotSpecified is not built in %s" % short(f.path), loc=f.loc())
    # required arguments: same condition in check_arguments
    ca = role_fn(P, CK + "common::check_arguments")
    if anchors_present(P, R, "R04-a", "argument-required", [(IV, "default_value")], ["is_nonnull"], loc=ca.loc()):
        decide(R, "R04-a", "argument-required", guarded_by(P, ca, "RequiredArgumentNotSpecified", _required_unless_nullable_or_default),
               "an omitted argument is an error only if non-null and without default",
               "check_arguments does not consider nullability and default value before reporting a missing argument",
               "RequiredArgumentNotSpecified is not built in %s" % short(ca.path), loc=ca.loc())


def r04b(P, R):
    f = role_fn(P, CK + "common::check_value")
    ivc = role_fn(P, CK + "common::is_value_compatible_type_def")
    ctc = role_fn(P, CK + "common::check_type_compatibility")
    vi, ti = _idx(f, T_VALUE), _idx(f, T_TYPE)
    if vi is None or ti is None:
        R.undecided("R04-b", "table", "the value / type parameters of %s were not identified" % short(f.path), loc=f.loc())
        return

    def enter(g):
        # pieces split off check_value (the variable branch, the literal branch) are part of the table
        return True if same_job(f, g) else None
    # the value checker may be a family of functions doing the same job (a public wrapper around a worker with more parameters):
    # "recursion" is a call of any of them that the evaluation does not enter because it is already being evaluated
    family = {f.path} | {g.path for g in P.fns.values() if g.kind in ("Fn", "AssocFn") and not g.derived and same_job(f, g) and _idx(g, T_VALUE) is not None}

    def recursions(evs):
        entered = {(e[1], e[2]) for e in evs if e[0] == "enter"}
        return [e for e in evs if e[0] == "call" and e[1] in family and (e[1], e[2]) not in entered]

    def value_arg(e):
        g = P.fns[e[1]]
        gi = _idx(g, T_VALUE)
        return e[3][gi] if (e[3] is not None and gi is not None and gi < len(e[3])) else None

    def want(ev):
        return (ev[0] in ("call", "enter") and (ev[1] in family or ev[1] in (ivc.path, ctc.path))) \
            or (ev[0] == "ctor" and ev[1].split("::")[-1] in ("TypeMismatch", "UnknownVariable")) or (ev[0] in ("call", "enter") and ev[1].startswith(CK))

    def run(w, vk):
        E = KindEval(P, want=want_plus, enter=enter)
        return E, E.run(f, {vi: V(vk), ti: V(w)})

    def want_plus(ev):
        return want(ev) or ev[0] in ("assign", "again")

    def iterates_on_inner(evs, w):
        """recursion spelled as a loop: the local that holds the expected type (it had kind `w`) is re-bound and the enclosing
        `loop` goes round again — the same value is then checked against the component type"""
        for i, e in enumerate(evs):
            if e[0] == "assign" and e[3] == V(w):
                if any(x[0] == "again" and x[1] != "ForLoop" for x in evs[i + 1:]):
                    return True
        return False

    def action(paths, vk, w):
        mism = [bool(ev_ctors(evs, "TypeMismatch")) for _, evs, _ in paths]
        rec = []
        for _, evs, _ in paths:
            calls = recursions(evs)
            rec.append((bool(calls) and (vk == "ListValue" or all(value_arg(c) == V(vk) for c in calls))) or iterates_on_inner(evs, w))
        anyrec = [bool(recursions(evs)) or iterates_on_inner(evs, w) for _, evs, _ in paths]
        if not paths:
            return "?"
        if all(mism) and not any(anyrec):
            return "mismatch"
        if not any(mism) and (all(rec) or (vk == "ListValue" and any(rec))):
            return "recurse"
        if not any(mism) and not any(anyrec):
            return "ok"
        return "?"
    try:
        # named types are typed against their definition
        _, paths = run("Named", "IntValue")
        decide(R, "R04-b", "wrapper-kinds", any(ev_calls(evs, ivc.path) for _, evs, _ in paths) if paths else None,
               "a literal for a named type is typed against the type's definition",
               "check_value never calls is_value_compatible_type_def for a named type", "no path evaluated", loc=f.loc(), dev="lenient")
        for wrapper, wantd in (("NonNull", {"NullValue": "mismatch", "*": "recurse"}),
                               ("List", {"ListValue": "recurse", "NullValue": "ok", "*": "recurse"})):
            for vk in VALUE_KINDS:
                _, paths = run(wrapper, vk)
                got = action(paths, vk, wrapper)
                exp = wantd.get(vk, wantd["*"])
                decide(R, "R04-b", "table:%s x %s" % (wrapper, vk), None if got == "?" else got == exp,
                       "%s x %s -> %s" % (wrapper, vk, got),
                       "check_value decides (%s type, %s literal) as `%s`; input coercion requires `%s` (%s)"
                       % (wrapper, vk, got, exp, "null is valid for any nullable type; a non-list value coerces to a one-element list"),
                       "the paths of check_value for (%s type, %s literal) disagree (%d paths)" % (wrapper, vk, len(paths)), loc=f.loc(),
                       # reporting a mismatch (or re-checking null against the item type) where none is due rejects valid input;
                       # not reporting / not descending where it is due accepts invalid input
                       dev="strict" if (got == "mismatch" or (exp == "ok" and got == "recurse")) else "lenient")
        # a literal for a named type is a mismatch iff the definition-level check says "incompatible": notes it returns along
        # only decorate the report.  Reading them for the verdict is harmless as long as notes come with "incompatible" only
        named_verdict(P, R, f, ivc, family, vi, ti)
        # variables: compatibility instead of literal typing, unknown variable reported
        verdicts, why = [], ""
        for w in KINDS:
            E, paths = run(w, "Variable")
            for _, evs, _ in paths:
                entered = {e[1] for e in evs if e[0] == "enter"}
                if ev_calls(evs, ivc.path) or recursions(evs):
                    verdicts.append(False)
                    why = "a variable in a %s position is typed as if it were a literal" % w
                elif ev_ctors(evs, "UnknownVariable") or ev_calls(evs, ctc.path):
                    verdicts.append(True)
                elif any(e[0] == "call" and e[1].startswith(CK) and e[1] not in entered for e in evs):
                    verdicts.append(None)
                else:
                    verdicts.append(False)
                    why = why or "for a variable in a %s position there is a path that neither reports an unknown variable nor calls check_type_compatibility" % w
        v = False if False in verdicts else (None if (None in verdicts or not verdicts) else True)
        decide(R, "R04-b", "variable-branch", v, "variables are checked by type compatibility with their definition",
               "check_value does not treat variables through check_type_compatibility: %s" % why,
               "a path for variables hands over to a function the evaluation did not enter", loc=f.loc())
    except TooComplex as ex:
        R.undecided("R04-b", "table", "abstract evaluation of %s gave up: %s" % (short(f.path), ex), loc=f.loc())


_COLLECT = ("push", "extend", "insert", "append", "push_back", "extend_from_slice")


def notes_while_compatible(P, ivc):
    """can the definition-level check return notes together with a *compatible* verdict?  -> (type kind, value kind, what is noted)
    of a path that does, or None.  Read off `(verdict, notes)` tuples: the notes local received something on the path and the
    verdict component is known to be true."""
    ti, vi = _idx(ivc, T_TYPEDEF), _idx(ivc, T_VALUE)
    if ti is None or vi is None:
        return None

    def want(ev):
        return ev[0] == "call" and ev[1].split("::")[-1] in _COLLECT
    for k in ("InputObject", "Enum", "Scalar"):
        for vk in VALUE_KINDS:
            try:
                E = KindEval(P, want=want)
                paths = E.run(ivc, {ti: V(k), vi: V(vk)})
            except TooComplex:
                continue
            for val, evs, src in paths:
                if not (val is not None and val[0] == "t" and len(val[1]) == 2 and val[1][0] == B_TRUE and src is not None and src.get("k") == "Tup"):
                    continue
                info = src["es"][1]
                while info.get("k") in ("AddrOf", "DropTemps", "Use"):
                    info = info["e"]
                if info.get("k") != "Path" or "local" not in info:
                    continue
                for e in evs:
                    node = E.event_node(e)[0]
                    b = node.get("recv", {})
                    while b.get("k") in ("AddrOf", "DropTemps") or (b.get("k") == "Unary" and b.get("op") == "Deref"):
                        b = b["e"]
                    if b.get("k") == "Path" and b.get("local") == info["local"]:
                        noted = sorted({norm(y.get("variant") or "").split("::")[-1] for a in node.get("args", []) for y in subnodes(a)
                                        if y.get("k") == "Struct" and "rest" not in y and y.get("variant")})
                        return k, vk, noted
    return None


def named_verdict(P, R, f, ivc, family, vi, ti):
    fam = [P.fns[p] for p in sorted(family) if p in P.fns]
    # does the decision to report TypeMismatch read the notes returned by the definition-level check?
    reads_notes = False
    try:
        E = KindEval(P, want=lambda ev: ev[0] == "assume" or (ev[0] == "ctor" and ev[1].endswith("::TypeMismatch")),
                     enter=lambda g: True if same_job(f, g) else None)
        paths = E.run(f, {vi: V("ObjectValue"), ti: V("Named")})
    except TooComplex:
        paths = []
    note_locals = set()
    for g in fam:
        for x in g.walk():
            if x.get("k") == "Let" and x["pat"].get("k") == "Tuple" and x.get("init") is not None \
                    and any(y.get("k") in ("Call", "MethodCall") and call_name(y) == ivc.path for y in subnodes(x["init"])):
                for p in x["pat"]["ps"][1:]:
                    note_locals |= {b["local"] for b in subnodes(p) if b.get("k") == "Binding"}
    provs = {}
    for _, evs, _ in paths:
        if not ev_ctors(evs, "TypeMismatch"):
            continue
        for e in evs:
            if e[0] == "assume":
                node, fn = E.event_node(e)
                if fn.path not in provs:
                    provs[fn.path] = MProv(fn)
                if any(y.get("k") == "Path" and y.get("local") in note_locals for y in source_nodes(P, provs[fn.path], node, depth=0)):
                    reads_notes = True
    witness = notes_while_compatible(P, ivc) if reads_notes else None
    decide(R, "R04-b", "named-verdict", not (reads_notes and witness), dev="strict", ok_msg=
            "a literal for a named type is reported iff the definition-level check finds it incompatible", bad_msg=
            "check_value also reports TypeMismatch when is_value_compatible_type_def returns notes, and for a %s type and a %s literal it can "
            "return a note (%s) together with a *compatible* verdict: a valid literal is reported as a type mismatch"
            % ((witness or ("?", "?", []))[0], (witness or ("?", "?", []))[1], ", ".join((witness or ("", "", []))[2]) or "an entry"), loc=f.loc())


def compat_site(P):
    """the call of check_type_compatibility made for a variable usage: (caller, call node, index of the location-type argument,
    index of the variable-type argument) — the location argument is the one that derives from the caller's own type parameter"""
    cv = role_fn(P, CK + "common::check_value")
    ctc = role_fn(P, CK + "common::check_type_compatibility")
    for g in scope_fns(P, cv, 2):
        if g.path == ctc.path:
            continue
        for c in g.walk():
            if c.get("k") in ("Call", "MethodCall") and call_name(c) == ctc.path:
                pv = MProv(g)
                tnames = {pv.params.get(p["local"]) for p, t in zip(g.params, _sig(g)) if p.get("k") == "Binding" and T_TYPE in t}
                args = all_args(c)
                from_param = [i for i, a in enumerate(args) if any(("param", nm) in pv.atoms(a) for nm in tnames)]
                if len(args) == 2 and len(from_param) == 1:
                    return g, c, from_param[0], 1 - from_param[0]
    return None


def r04c(P, R):
    """IsVariableUsageAllowed / AreTypesCompatible as decision tables"""
    f = role_fn(P, CK + "common::check_value")
    g = role_fn(P, CK + "common::check_type_compatibility")
    site = compat_site(P)
    if site is None:
        R.undecided("R04-c", "variable-usage", "no call of check_type_compatibility whose location argument derives from the expected type was found "
                    "below %s" % short(f.path), loc=f.loc())
        return
    caller, call, ei, wi = site
    if anchors_present(P, R, "R04-c", "variable-default", [(VD, "default_value"), (VD, "type")], loc=caller.loc()):
        pv = MProv(caller)
        loc_arg = all_args(call)[ei]
        a = pv.deep_atoms(loc_arg)
        decide(R, "R04-c", "variable-default-considered", has_field(a, VD, "default_value"), dev="strict", ok_msg=
                "the variable's default value takes part in IsVariableUsageAllowed", bad_msg=
                "the location type handed to check_type_compatibility never depends on VariableDefinition.default_value: a nullable variable "
                "with a default cannot be allowed in a non-null position", loc=caller.loc())
        # only a *non-null* default relaxes, and only for a nullable variable in a non-null location: something in the computation
        # of the location type must look at the null-ness of the default, and at the variable's own type
        nodes = source_nodes(P, pv, loc_arg)
        null_test = any((y.get("k") == "MethodCall" and y.get("method") == "is_null") or norm(y.get("ctor_of") or "").endswith("value::Value::NullValue")
                        for y in nodes)
        nullable_test = has_field(a, VD, "type")
        # a relaxation that applies too often lets incompatible usages through
        decide(R, "R04-c", "variable-default-nonnull", null_test and nullable_test, dev="lenient",
               ok_msg="relaxation requires a non-null default and a nullable variable type", bad_msg=
                "the default-value relaxation does not test %s"
                % " and ".join(w for w, ok in (("`default is not null`", null_test), ("`variable type is nullable`", nullable_test)) if not ok),
                loc=caller.loc())
    # AreTypesCompatible(variableType, locationType) over (location kind, variable kind)
    pvg = MProv(g)
    names = [pvg.params.get(p["local"]) if p.get("k") == "Binding" else None for p in g.params]

    def shape(arg, i):
        e = arg
        while e.get("k") in ("AddrOf", "DropTemps", "Use") or (e.get("k") == "Unary" and e.get("op") == "Deref"):
            e = e["e"]
        if e.get("k") == "Path" and g.params[i].get("k") == "Binding" and e.get("local") == g.params[i].get("local"):
            return "whole"
        ps = {x[1] for x in pvg.atoms(arg) if x[0] == "param"}
        return "inner" if ps == {names[i]} else ("swapped" if (ps and names[i] not in ps) else "other")

    def act(val, evs, src, E):
        rec = ev_calls(evs, g.path)
        if rec:
            node = E.event_node(rec[0])[0]
            args = all_args(node)
            if len(args) != 2:
                return "?"
            s = (shape(args[wi], wi), shape(args[ei], ei))
            if "swapped" in s:
                return "rec-swapped"     # a component of one type is passed in the other type's position
            return {("inner", "inner"): "rec-both", ("inner", "whole"): "rec-strip-value", ("whole", "inner"): "rec-strip-location",
                    ("whole", "whole"): "rec-unchanged"}.get(s, "?")
        if val == B_FALSE:
            return "false"
        if val == B_TRUE:
            return "true"
        if src is not None and src.get("k") == "Binary" and src.get("op") == "==" and {names[0], names[1]} <= {x[1] for x in pvg.atoms(src) if x[0] == "param"}:
            return "name-eq"
        return "?"
    # oracle over (expected kind, value kind) — spec AreTypesCompatible(variableType, locationType)
    oracle = {
        ("NonNull", "NonNull"): "rec-both", ("Named", "NonNull"): "rec-strip-value", ("List", "NonNull"): "rec-strip-value",
        ("NonNull", "Named"): "false", ("NonNull", "List"): "false", ("List", "List"): "rec-both",
        ("List", "Named"): "false", ("Named", "List"): "false", ("Named", "Named"): "name-eq",
    }
    for (ek, vk), want in sorted(oracle.items()):
        try:
            E = KindEval(P, want=lambda ev: ev[0] == "call" and ev[1] == g.path)
            paths = E.run(g, {ei: V(ek), wi: V(vk)})
            got = sorted({act(val, evs, src, E) for val, evs, src in paths})
        except TooComplex:
            got = ["?"]
        verdict = None if (len(got) != 1 or got[0] == "?") else got[0] == want
        decide(R, "R04-c", "compat:(expected %s, variable %s)" % (ek, vk), verdict, "-> %s" % want,
               "check_type_compatibility decides (location %s, variable %s) with `%s`; AreTypesCompatible requires `%s`"
               % (ek, vk, "/".join(got), want),
               "the action for (location %s, variable %s) could not be evaluated (%s)" % (ek, vk, "/".join(got) or "no path"), loc=g.loc(),
               # `false` where the spec compares: valid usages rejected; comparing / `true` where the spec says false: invalid accepted;
               # a different recursion (swapped or partly stripped arguments) errs both ways
               dev=("lenient" if want == "false" else ("strict" if got == ["false"] else ("lenient" if got == ["true"] else "both"))))


SELECT_ONE = {"find", "rfind", "find_map", "next", "last", "nth", "first", "position", "rposition", "max_by_key", "min_by_key", "max_by", "min_by"}
TEST_FOUND = {"is_some_and", "is_none_or", "map_or", "map_or_else", "filter", "and_then", "map", "is_ok_and"}
NESTED_ITER = {"any", "all", "contains", "iter", "find", "position", "into_iter", "contains_key"}


def first_match_then_test(P, pv, cond):
    """In what `cond` is computed from: an existential question over a collection answered by picking ONE element with a test that
    several elements can pass (a membership test in a sub-collection of the element, not a look-up by key) and then putting a
    further test to that element only.  -> (selector, test) | None.  `find(key == x)` followed by a test is a keyed look-up and
    is not reported; `find(..).is_some()/.is_none()` is a plain existence test."""
    nodes = source_nodes(P, pv, cond)
    for y in nodes:
        if not (y.get("k") == "MethodCall" and y.get("method") in TEST_FOUND and any(a.get("k") == "Closure" for a in y["args"])):
            continue
        r = y["recv"]
        if r.get("k") == "Path" and "local" in r:
            srcs = [src for src, _ in pv.src.get(r["local"], []) if src is not None]
            r = srcs[0] if len(srcs) == 1 else r
        if not (r.get("k") == "MethodCall" and r.get("method") in SELECT_ONE):
            continue
        preds = [a for a in r["args"] if a.get("k") == "Closure"]
        if not preds:
            continue
        # is the selecting predicate a membership test (it iterates something itself, possibly inside a helper)?
        inner = source_nodes(P, pv, preds[0]["body"])
        if any(z.get("k") == "MethodCall" and z.get("method") in NESTED_ITER for z in inner):
            return r["method"], y["method"]
    return None


def r04d(P, R):
    """fragment applicability: every composite (scope, condition) pair has its own overlap test; no catch-all swallows a pair"""
    f, ri, ci = core_roles(P)
    css = role_fn(P, CK + "operation_checker::check_selection_set")
    TSD = "graphql_type_system::definitions::"
    want_reads = {
        ("Object", "Object"): [("ObjectDefinition", "name")],
        ("Object", "Interface"): [("ObjectDefinition", "interfaces")], ("Interface", "Object"): [("ObjectDefinition", "interfaces")],
        ("Object", "Union"): [("UnionDefinition", "possible_types")], ("Union", "Object"): [("UnionDefinition", "possible_types")],
        ("Interface", "Interface"): [("ObjectDefinition", "interfaces")],
        ("Interface", "Union"): [("UnionDefinition", "possible_types"), ("ObjectDefinition", "interfaces")],
        ("Union", "Interface"): [("UnionDefinition", "possible_types"), ("ObjectDefinition", "interfaces")],
        ("Union", "Union"): [("UnionDefinition", "possible_types")],
    }
    if ri is None:
        R.undecided("R04-d", "applicability", "the enclosing-type / type-condition parameters of %s could not be told apart" % short(f.path), loc=f.loc())
    else:
        provs = {}
        for a in COMPOSITE:
            for b in COMPOSITE:
                key = "applicability:(%s, %s)" % (a, b)
                try:
                    E = KindEval(P, want=lambda ev: ev[0] == "assume" or (ev[0] == "ctor" and ev[1].endswith("::FragmentConditionNeverMatches")),
                                 enter=lambda g_: True if same_job(f, g_) else None)
                    paths = E.run(f, {ri: V(a), ci: V(b)})
                except TooComplex as ex:
                    R.undecided("R04-d", key, "abstract evaluation gave up: %s" % ex, loc=f.loc())
                    continue
                reporting = [evs for _, evs, _ in paths if ev_ctors(evs, "FragmentConditionNeverMatches")]
                silent = [evs for _, evs, _ in paths if not ev_ctors(evs, "FragmentConditionNeverMatches")]
                atoms = set()
                first_only = None
                for evs in reporting:
                    for e in evs:
                        if e[0] == "assume":
                            node, fn = E.event_node(e)
                            if fn.path not in provs:
                                provs[fn.path] = MProv(fn)
                            atoms |= E.event_atoms(e, provs)
                            first_only = first_only or first_match_then_test(P, provs[fn.path], node)
                if first_only:
                    decide(R, "R04-d", key, False, dev="strict", ok_msg="", bad_msg="fragment applicability for (scope %s, condition %s) is decided by `.%s(<membership test>)` followed by `.%s(..)` "
                               "on the element found: only the first candidate (in schema order) that passes the first test is asked the second "
                               "question, where the overlap test must ask whether *any* candidate passes both — a valid spread is rejected when a "
                               "later candidate is the common one" % (a, b, first_only[0], first_only[1]), loc=f.loc())
                    continue
                if not anchors_present(P, R, "R04-d", key, [(TSD + adt, fld) for adt, fld in want_reads[(a, b)]], loc=f.loc()):
                    continue
                reads_ok = all(any(x[0] == "field" and x[1] == TSD + adt and x[2] == fld for x in atoms) for adt, fld in want_reads[(a, b)])
                decide(R, "R04-d", key, bool(reporting) and bool(silent) and reads_ok,
                       dev=("lenient" if not reporting else ("strict" if not silent else "both")),
                       ok_msg="dedicated overlap test on %s" % [w[1] for w in want_reads[(a, b)]], bad_msg=
                        "fragment applicability for (scope %s, condition %s) %s: %s"
                        % (a, b, "has no path that reports FragmentConditionNeverMatches" if not reporting else
                           ("reports FragmentConditionNeverMatches on every path" if not silent else
                            "is decided by conditions that never read %s" % [w for w in want_reads[(a, b)] if not any(x[0] == "field" and x[1] == TSD + w[0] and x[2] == w[1] for x in atoms)]),
                           "a valid spread is rejected or an impossible one accepted"), loc=f.loc())
    # after the applicability test the fragment's selections are checked against the *condition* type
    pv = MProv(f)
    names = [pv.params.get(p["local"]) if p.get("k") == "Binding" else None for p in f.params]
    ti = [i for i, t in enumerate(_sig(css)) if T_TYPEDEF in t]
    calls = [c for c in f.walk() if c.get("k") in ("Call", "MethodCall") and call_name(c) == css.path]
    if not calls or ri is None or len(ti) != 1:
        R.undecided("R04-d", "narrowed-parent", "no direct call of the selection checker in %s" % short(f.path), loc=f.loc())
    else:
        a = pv.atoms(all_args(calls[-1])[ti[0]])
        has_c, has_r = ("param", names[ci]) in a, ("param", names[ri]) in a
        verdict, why = (True if (has_c and not has_r) else (False if not has_c else None)), "the fragment body is not checked against the condition type"
        if verdict is None:
            # the parent handed down is chosen between the two types: which one, per (scope kind, condition kind)?  Kinds tell the two
            # apart whenever they differ
            verdict = True
            try:
                for a_ in COMPOSITE:
                    for b_ in COMPOSITE:
                        if a_ == b_:
                            continue
                        E = KindEval(P, want=lambda ev: ev[0] == "call" and ev[1] == css.path, enter=lambda g_: True if same_job(f, g_) else None)
                        for _, evs, _ in E.run(f, {ri: V(a_), ci: V(b_)}):
                            for e in ev_calls(evs, css.path):
                                got = e[3][ti[0]] if e[3] is not None and ti[0] < len(e[3]) else None
                                if got == V(a_):
                                    verdict, why = False, ("for a %s scope and a %s type condition a path checks the fragment's selections against "
                                                           "the enclosing %s instead of the type condition" % (a_, b_, a_))
                                elif got != V(b_) and verdict is not False:
                                    verdict = None
            except TooComplex:
                verdict = None
        decide(R, "R04-d", "narrowed-parent", verdict,
               "selections inside a fragment are checked against the fragment's type condition",
               "%s: nested type conditions valid for the condition type are then reported as never matching" % why,
               "the parent type handed down derives from both types", loc=f.loc())
    # inline fragment without type condition keeps the parent type
    g = role_fn(P, CK + "operation_checker::check_inline_fragment")
    pvg = MProv(g)
    conds = [x for x in g.walk() if x.get("k") == "Field" and x.get("field") == "type_condition" and norm(x.get("adt") or "").endswith("selection_set::InlineFragment")]
    roots = {pvg.params.get(p["local"]) for p, t in zip(g.params, _sig(g)) if p.get("k") == "Binding" and T_TYPEDEF in t}
    verdict, und = None, "check_inline_fragment does not read InlineFragment.type_condition directly"
    if conds and roots and len(ti) == 1:
        try:
            E = KindEval(P, want=lambda ev: ev[0] == "call" and ev[1] == css.path, force={id(x): V("None") for x in conds})
            paths = E.run(g)
            oks = []
            for _, evs, _ in paths:
                cs = ev_calls(evs, css.path)
                oks.append(bool(cs) and all(any(("param", r) in pvg.atoms(all_args(E.event_node(c)[0])[ti[0]]) for r in roots) for c in cs))
            verdict = all(oks) if oks else None
        except TooComplex as ex:
            und = "abstract evaluation gave up: %s" % ex
    decide(R, "R04-d", "inline-no-condition", verdict, "`... { }` without type condition is checked against the enclosing type",
           "an inline fragment without type condition is not checked against the enclosing type", und, loc=g.loc())
    fns = [x for x in P.fns.values() if x.path.startswith((CK + "operation_checker", CK + "common", CK + "types"))]
    stack_balance(P, R, [x for x in fns if x.kind in ("Fn", "AssocFn") and not x.derived])
    if getattr(R, "direction", None) == "lenient":
        # a second partial consumer sees fewer elements: an existing overlap is missed, a valid spread rejected — C04's direction
        R.holds("R04-d", "iter-reuse:none", "iterator reuse under-approximates the overlap: decided under C04")
    else:
        n = iterator_reuse(P, R, "R04-d", fns)
        R.holds("R04-d", "iter-reuse:none", "%d iterator locals in the checker, none consumed by two partial consumers" % n)


def threshold_dev(forms):
    """a bound above "more than one" lets two root fields through (lenient); a bound below it rejects a single one (strict)"""
    try:
        op, n = forms[0]
        n = int(n)
        least = n + 1 if op == ">" else (n if op == ">=" else None)     # smallest count reported
        if least is None:
            return "both"
        return "lenient" if least > 2 else ("strict" if least < 2 else "both")
    except Exception:
        return "both"


def stack_balance(P, R, fns):
    """A function that both pushes to and pops from a stack it does not own (reached through a `&mut` parameter or `self`) keeps
    the stack as it found it: on every path to an exit it pops as often as it pushed.  A path that leaves with the pushed entry
    still on the stack makes later calls see a fragment as "being expanded" that is not (a false RecursingFragmentSpread)."""
    for f in fns:
        owned = {p["local"] for p in f.params if p.get("k") == "Binding"}
        places = {}
        for x in f.walk():
            if x.get("k") == "MethodCall" and x.get("method") in ("push", "pop", "push_back", "pop_back") and not x.get("inl"):
                pl, ads = seq_place(x["recv"])
                if pl is not None and pl[0] in owned and not ads:
                    places.setdefault(pl, set()).add(x["method"].split("_")[0])
        for pl, ms in sorted(places.items(), key=lambda kv: str(kv[0])):
            if ms != {"push", "pop"}:
                continue
            key = "stack-balance:%s:%s" % (short(f.path), ".".join(str(x) for x in pl[1:]) or "param")
            try:
                E = KindEval(P, want=lambda ev: ev[0] == "call" and ev[1].split("::")[-1] in ("push", "pop", "push_back", "pop_back"), enter=lambda g: False)
                paths = E.run(f)
            except TooComplex as ex:
                R.undecided("R04-d", key, "abstract evaluation gave up: %s" % ex, loc=f.loc())
                continue
            unbalanced = 0
            for _, evs, _ in paths:
                depth = 0
                for e in evs:
                    node = E.event_node(e)[0]
                    if node.get("k") == "MethodCall" and seq_place(node["recv"])[0] == pl:
                        depth += 1 if node["method"].startswith("push") else -1
                if depth > 0:
                    unbalanced += 1
            decide(R, "R04-d", key, unbalanced == 0, dev="strict",
                   ok_msg="every path pops what it pushed", bad_msg="%s pushes onto a stack owned by its caller and has %d path(s) to an exit that do not pop "
                   "again (an early return between the push and the pop): the entry stays on the stack, and a later spread of the same fragment "
                   "is reported as recursive although nothing recurses" % (f.path, unbalanced), loc=f.loc())


def r04e(P, R):
    """__typename is selectable; subscriptions: one root field counted through fragments"""
    d = role_fn(P, "nitrogql_semantics::direct_fields_of_output_type::get_typename_meta_field")
    lits = [x.get("v") for x in d.walk() if x.get("k") == "Lit" and x.get("lk") == "str"]
    decide(R, "R04-e", "typename-meta-field", "__typename" in lits and "String" in lits, "__typename: String! meta field",
           "the __typename meta field is not defined as `__typename: String!`", loc=d.loc(), dev="strict")
    c = P.fn(CK + "operation_checker::count_selection_set_fields::selection_set_has_more_than_one_fields")
    cmp_ = [x for x in c.walk() if x.get("k") == "Binary" and x.get("op") in (">", ">=", "!=", "==", "<", "<=")]
    # "more than one": n > 1, n >= 2, 1 < n, 2 <= n
    forms = []
    for x in cmp_:
        l, r = lit_value(x["l"]), lit_value(x["r"])
        if r is not None and l is None:
            forms.append((x["op"], str(r)))
        elif l is not None and r is None:
            forms.append(({">": "<", "<": ">", ">=": "<=", "<=": ">="}.get(x["op"], x["op"]), str(l)))
    good = {(">", "1"), (">=", "2")}
    verdict = None
    if len(forms) == 1 and len(cmp_) == 1:
        verdict = forms[0] in good if forms[0][0] in (">", ">=", "<", "<=", "==", "!=") else None
    decide(R, "R04-e", "subscription-threshold", verdict, "more than one root field", "the single-root-field rule compares with %s" % forms,
           "the comparison(s) %s in %s are not of a form this rule reads" % ([x["op"] for x in cmp_], short(c.path)), loc=c.loc(),
           dev=threshold_dev(forms))


def field_writes(P, adt, field):
    """[(fn, expr)] of what the checker puts into field `field` of its own struct `adt`: the value given in a struct literal, the
    arguments of method chains rooted at the field (`s.f.entry(k).or_insert(v)`, `s.f.push(x)`), the right-hand sides of
    assignments to it"""
    out = []
    for g in P.fns.values():
        if g.crate != "nitrogql_checker" or g.derived or g.kind == "Closure":
            continue
        for x in g.walk():
            k = x.get("k")
            if k == "Struct" and "rest" not in x and norm(x.get("adt") or "") == adt:
                for fld in x.get("fields", []):
                    if isinstance(fld, dict) and fld.get("name") == field and "e" in fld:
                        out.append((g, fld["e"], x))
            elif k == "MethodCall" and x.get("args"):
                r = x["recv"]
                while r.get("k") in ("MethodCall", "AddrOf", "Unary", "DropTemps", "Index"):
                    r = r["recv"] if r.get("k") == "MethodCall" else r["e"]
                if r.get("k") == "Field" and norm(r.get("adt") or "") == adt and r.get("field") == field:
                    out.extend((g, a, x) for a in x["args"])
            elif k in ("Assign", "AssignOp"):
                l = x["l"]
                while l.get("k") in ("Unary", "Index", "DropTemps"):
                    l = l["e"]
                if l.get("k") == "Field" and norm(l.get("adt") or "") == adt and l.get("field") == field:
                    out.append((g, x["r"], x))
    return out


class _Owned(dict):
    """a node together with the function it belongs to"""
    def __init__(self, node, fn):
        dict.__init__(self, node)
        self.fn = fn
        self.node = node


def search_rejects_kind(P, seen_nodes, own_variant, other_variant):
    """Does the predicate of the search (the closure of a `find`/`any`/`position` over definitions) evaluate to false for a candidate
    of the other kind, when the definition searched for is of the own kind?  True | None (not decided)"""
    ED = A + "operation::ExecutableDefinition"
    for y in seen_nodes:
        if y.get("k") == "MethodCall" and y.get("method") in ("find", "any", "position", "rfind", "filter") and y.fn is not None:
            for cl in y.node["args"]:
                if cl.get("k") != "Closure" or not cl.get("params"):
                    continue
                binds = [b for b in subnodes(cl["params"][0]) if b.get("k") == "Binding"]
                if len(binds) != 1 or ED not in norm(binds[0].get("t") or ""):
                    continue
                try:
                    E = KindEval(P, want=lambda ev: False, seeds=[(ED, V(own_variant))])
                    vals = {v for v, _, _ in E.run_expr(y.fn, cl["body"], by_local={binds[0]["local"]: V(other_variant)})}
                except TooComplex:
                    continue
                if vals and vals <= {B_FALSE}:
                    return True
    return None


def definition_reads(P, fn, expr, adts, with_nodes=False):
    """{adt: {fields}} of the AST types `adts` that the value of `expr` (in `fn`) is computed from — through locals, through the
    bodies of the checker functions called, and *per field* through the checker's own structs: a value read from `s.f` depends on
    what is written into `s.f`, not on everything the function that built `s` has looked at (an index struct with one map per
    kind keeps the kinds apart)."""
    reads = {}
    provs = {}
    seen = set()
    visited = []
    owners = {}

    def prov_of(g):
        if g.path not in provs:
            provs[g.path] = MProv(g)
        return provs[g.path]

    def visit(n, g):
        st = [n]
        while st:
            y = st.pop()
            if isinstance(y, list):
                st.extend(y)
                continue
            if not isinstance(y, dict):
                continue
            k = y.get("k")
            if k is not None:
                visited.append(y)
                owners[id(y)] = g
            if k == "Field":
                a = norm(y.get("adt") or "")
                if a in adts:
                    reads.setdefault(a, set()).add(y["field"])
                elif a.startswith(CK) and a in P.adts and P.adts[a].kind == "Struct":
                    if (a, y["field"]) not in seen:
                        seen.add((a, y["field"]))
                        for h, e, _ in field_writes(P, a, y["field"]):
                            visit(e, h)
                    continue       # the struct as a whole is not followed: only this field's content matters
            elif k in ("Call", "MethodCall"):
                cn = call_name(y)
                if cn and cn in P.fns and ("f", cn) not in seen and not P.fns[cn].derived and "inl" not in y:
                    seen.add(("f", cn))
                    visit(P.fns[cn].body, P.fns[cn])
            elif k == "Path" and "local" in y and ("l", y["local"]) not in seen:
                seen.add(("l", y["local"]))
                for src, _ in prov_of(g).src.get(y["local"], []):
                    if src is not None:
                        visit(src, g)
            for key, v in y.items():
                if key != "s" and isinstance(v, (dict, list)):
                    st.append(v)
    visit(expr, fn)
    if with_nodes:
        return reads, [_Owned(y, owners.get(id(y))) for y in visited]
    return reads


def r04f(P, R):
    """name spaces: operation names are unique among operations, fragment names among fragments — an operation and a fragment may
    share a name (spec 5.2.1.1 / 5.5.1.1)"""
    e0 = P.fn(CK + "operation_checker::check_operation_document")
    e = inlined(P, e0)
    OD, FD = A + "operation::OperationDefinition", A + "operation::FragmentDefinition"
    for variant, own, other in (("DuplicateOperationName", OD, FD), ("DuplicateFragmentName", FD, OD)):
        sites = [i for i, (x, _) in enumerate(e.nodes()) if x.get("k") == "Struct" and "rest" not in x and norm(x.get("variant", "")).endswith(variant)]
        R.floor("R04-f", variant + " sites", len(sites), 1)
        for i in sites:
            guards = [c for c in enclosing_contexts(e, i) if c[0] in ("if-then", "let-else") or (c[0] == "arm" and c[1] is not None and c[1].get("src") == "Normal")]
            if not guards:
                R.undecided("R04-f", "namespace:" + variant, "no guard found", loc=e0.loc())
                continue
            g = guards[0][1]["cond"] if guards[0][0] == "if-then" else (guards[0][1].get("init") if guards[0][0] == "let-else" else guards[0][1]["scrut"])
            # names of definitions that the search deciding the report is computed from
            reads, seen_nodes = definition_reads(P, e, g, (OD, FD), with_nodes=True)
            # "an earlier definition" is decided by the position in the list of definitions, not by comparing source positions:
            # `Pos` orders by line and column only, and a document holds definitions imported from other files
            by_pos = [y for y in seen_nodes if y.get("k") == "Binary" and y.get("op") in ("<", ">", "<=", ">=")
                      and any(peel_pos(s) for s in (y["l"], y["r"]))]
            if by_pos and pos_order_ignores_file(P):
                decide(R, "R04-f", "earlier-definition:" + variant, False, dev="lenient", ok_msg="", bad_msg="the search that decides %s orders definitions by comparing their `Pos` (`%s`); Pos "
                           "ordering looks at line and column only, and an operation document contains fragments imported from other files: two "
                           "definitions of one name at the same line:column of different files are neither earlier than the other, so the "
                           "duplicate is not reported" % (variant, by_pos[0].get("op")), loc=e0.loc())
            else:
                R.holds("R04-f", "earlier-definition:" + variant, "the search does not order definitions by source position")
            # the current definition's own name is read through its binding; what matters is that the search never consults the
            # *other* kind's name
            # ... and among its own kind it compares *names* only: a search that also reads another property of the definitions
            # (their operation type, ..) only meets the candidates that agree on it, the others escape
            narrowed = sorted(reads.get(own, set()) - {"name", "position"})
            decide(R, "R04-f", "all-of-kind:" + variant, not narrowed, dev="lenient",
                   ok_msg="every earlier %s takes part in the search" % own.split("::")[-1],
                   bad_msg="the search that decides %s also depends on %s.%s of the definitions compared: two definitions with the same name "
                           "that differ there are not recognised as duplicates (e.g. `query X` and `mutation X`), although the name must be "
                           "unique among all %ss of the document" % (variant, own.split("::")[-1], "/".join(narrowed), own.split("::")[-1].replace("Definition", "").lower()),
                   loc=e0.loc())
            bad = "name" in reads.get(other, set())
            if bad and search_rejects_kind(P, seen_nodes, own.split("::")[-1], other.split("::")[-1]):
                bad = False       # the names are read through a kind-agnostic accessor, but candidates of the other kind are rejected first
            verdict = False if bad else (True if "name" in reads.get(own, set()) else None)
            decide(R, "R04-f", "namespace:" + variant, verdict,
                   "%s compares names of %s only" % (variant, own.split("::")[-1]),
                   "%s is raised by a search that also compares against the names of %s: `fragment User ...` followed by `query User ...` "
                   "is rejected although operations and fragments live in separate name spaces" % (variant, other.split("::")[-1]),
                   "the search that decides %s reads no definition name the rule can see" % variant, loc=e0.loc(), dev="strict")
    index_agreement(P, R, "R04-f", e, "check_operation_document")
    uniqueness_scopes(P, R, "R04-f")


def peel_pos(n):
    t = (n.get("t") or "")
    while t.startswith("&"):
        t = t[1:].lstrip()
    return norm(t) == A + "base::Pos"


def pos_order_ignores_file(P):
    """does the ordering of `Pos` leave out the file index?  (read off the body of its `Ord`/`PartialOrd` impl)"""
    fns = [f for p, f in P.fns.items() if p.startswith("<" + A + "base::Pos as core::cmp::") and f.name in ("cmp", "partial_cmp") and not f.derived]
    if not fns:
        return False
    reads = set()
    for f in fns:
        reads |= {x.get("field") for x in f.walk() if x.get("k") == "Field" and norm(x.get("adt") or "") == A + "base::Pos"}
    return "file" not in reads


LOSSY_SEQ = {"filter", "filter_map", "skip", "skip_while", "take", "take_while", "step_by", "dedup", "dedup_by", "dedup_by_key", "rev", "flat_map",
             "flatten", "chain", "retain", "sort", "sort_by", "sort_by_key", "sort_unstable", "sort_unstable_by", "sort_unstable_by_key"}
_SEQ_VIEW = {"iter", "iter_mut", "into_iter", "as_slice", "as_ref", "as_mut", "borrow", "to_vec", "clone", "cloned", "copied", "collect", "enumerate",
             "by_ref", "as_deref"}


def seq_place(n):
    """(place, adaptors): the place expression a sequence expression views (`document.definitions`, a local) and the adaptors
    applied on the way"""
    ads = []
    while True:
        k = n.get("k")
        if k == "MethodCall":
            ads.append(n.get("method"))
            n = n["recv"]
        elif k in ("AddrOf", "DropTemps", "Use") or (k == "Unary" and n.get("op") == "Deref"):
            n = n["e"]
        elif k == "Call" and n.get("args") and (call_name(n) or "").endswith("into_iter"):
            n = n["args"][0]
        else:
            break
    path = []
    m = n
    while m.get("k") == "Field":
        path.append(m.get("field"))
        m = m["e"]
        while m.get("k") in ("AddrOf", "DropTemps") or (m.get("k") == "Unary" and m.get("op") == "Deref"):
            m = m["e"]
    if m.get("k") == "Path" and "local" in m:
        return (m["local"],) + tuple(reversed(path)), ads
    return None, ads


def index_agreement(P, R, rule, g, what):
    """An index produced by enumerating one sequence positions an element of *that* sequence: using it to cut (`take`/`skip`/
    `[..i]`) or index another sequence is only right if the other one is the same sequence.  VIOLATED when the other sequence
    is a local built from the enumerated one through a selecting / re-ordering adaptor (positions differ); instances whose two
    places are unrelated are UNDECIDED."""
    pv = MProv(g)
    n = 0
    for x in g.walk():
        # `for (i, x) in SEQ.enumerate()` and `SEQ.enumerate().adaptor(|(i, x)| ..)`
        seq, pats = None, []
        if x.get("k") == "Match" and x.get("src") == "ForLoopDesugar" and x["scrut"].get("k") == "Call" and x["scrut"].get("args"):
            it = x["scrut"]["args"][0]
            if it.get("k") == "MethodCall" and it.get("method") == "enumerate":
                seq = it["recv"]
                pats = [q for q in subnodes(x["arms"]) if q.get("k") == "Tuple" and len(q.get("ps", [])) == 2]
        elif x.get("k") == "MethodCall" and x["recv"].get("k") == "MethodCall" and x["recv"].get("method") == "enumerate":
            seq = x["recv"]["recv"]
            pats = [p for a in x["args"] if a.get("k") == "Closure" for p in a.get("params", []) if p.get("k") == "Tuple" and len(p.get("ps", [])) == 2]
        if seq is None or not pats or pats[0]["ps"][0].get("k") != "Binding":
            continue
        idx = pats[0]["ps"][0]["local"]
        e_place, e_ads = seq_place(seq)
        if e_place is None or set(e_ads) & LOSSY_SEQ:
            continue
        for y in g.walk():
            other = None
            if y.get("k") == "MethodCall" and y.get("method") in ("take", "skip", "nth", "split_at", "get") and y.get("args"):
                a0 = y["args"][0]
                while a0.get("k") in ("AddrOf", "DropTemps") or (a0.get("k") == "Unary" and a0.get("op") == "Deref"):
                    a0 = a0["e"]
                if a0.get("k") == "Path" and a0.get("local") == idx:
                    other = y["recv"]
            elif y.get("k") == "Index":
                ix = [z for z in subnodes(y.get("idx") or y.get("i") or {}) if z.get("k") == "Path" and z.get("local") == idx] if isinstance(y.get("idx") or y.get("i"), dict) else []
                if ix:
                    other = y["e"]
            if other is None:
                continue
            n += 1
            o_place, o_ads = seq_place(other)
            key = "index-agreement:%s#%d" % (what, n)
            if o_place == e_place and not (set(o_ads) & LOSSY_SEQ):
                R.holds(rule, key, "the index cuts the sequence it was counted on", loc=g.loc())
                continue
            verdict = None
            if o_place is not None and len(o_place) == 1 and o_place != e_place:
                # another local: how was it built?
                for src, _ in pv.src.get(o_place[0], []):
                    if src is None:
                        continue
                    s_place, s_ads = seq_place(src)
                    if s_place == e_place and set(s_ads) & LOSSY_SEQ:
                        verdict = sorted(set(s_ads) & LOSSY_SEQ)
            if verdict:
                # a prefix cut (`take`) of a *selection* of the enumerated sequence reaches at least as far as intended: it never
                # misses an earlier element, it adds later ones (the element itself) — spurious matches only
                dev = "strict" if (y.get("k") == "MethodCall" and y.get("method") == "take" and set(verdict) <= {"filter", "filter_map"}) else "both"
                decide(R, rule, key, False, dev=dev, ok_msg="", bad_msg="%s: an index counted by enumerating one sequence is used to cut another one that was built from it with `.%s(..)`: "
                           "the two number their elements differently, so the cut reaches the wrong elements (a definition is compared with "
                           "itself, or an earlier one is missed)" % (g.path, "/".join(verdict)), loc=g.loc())
            else:
                R.undecided(rule, key, "an index counted on one sequence cuts another; their relation is not one this rule reads", loc=g.loc())
    return n


# the unit within which each "already seen" name set must live (GraphQL spec: variable names are unique per operation 5.8.1,
# non-repeatable directives per location 5.7.3): diagnostic -> does a loop over elements of this type step from one unit to the next?
def _steps_variables(P, t):
    return any(x in t for x in (A + "operation::ExecutableDefinition", A + "operation::OperationDefinition"))


def _steps_directive_lists(P, t):
    """a loop over things that each carry their own list of directives (variable definitions, selections, definitions)"""
    for ap, adt in P.adts.items():
        if ap.startswith(A) and ap in t and ap != A + "directive::Directive":
            if adt.kind == "Struct" and "directives" in adt.fields():
                return True
            if adt.kind == "Enum" and ap.split("::")[-1] in ("Selection", "ExecutableDefinition", "TypeSystemDefinition"):
                return True
    return False


UNIQUENESS_SCOPE = {
    "DuplicatedVariableName": ("operation", _steps_variables),
    "RepeatedDirective": ("directive list", _steps_directive_lists),
}
_SEEN_QUERY = {"contains", "insert", "get", "contains_key", "entry", "binary_search", "replace"}


def _base_local(b):
    while b.get("k") in ("AddrOf", "DropTemps", "MethodCall", "Index") or (b.get("k") == "Unary" and b.get("op") == "Deref"):
        b = b["recv"] if b.get("k") == "MethodCall" else b["e"]
    return b.get("local") if b.get("k") == "Path" else None


def uniqueness_scopes(P, R, rule):
    """The collection of names consulted before a duplicate is reported must not outlive one unit of the uniqueness rule.  Followed
    from the guard of the report through `&mut` parameters to every place that creates it: VIOLATED when, between the creation and
    the use (or the call that hands it down), there is a loop that steps from one unit to the next — one operation to the next for
    variable names, one directive list to the next for directives — and the collection is not emptied inside that loop: names seen
    in one unit are then duplicates in the next."""
    from c03 import checker_scope, call_sites
    scope = [P.fns[p] for p in checker_scope(P) if P.fns[p].kind in ("Fn", "AssocFn")]
    for variant, (what, steps) in sorted(UNIQUENESS_SCOPE.items()):
        key = "scope:" + variant
        starts = []
        for f in scope:
            for i, (x, _) in enumerate(f.nodes()):
                if x.get("k") == "Struct" and "rest" not in x and norm(x.get("variant", "")).endswith("::" + variant):
                    for ge in guard_exprs(f, i):
                        for src_n in source_nodes(P, MProv(f), ge, depth=0):
                            if src_n.get("k") == "MethodCall" and src_n.get("method") in _SEEN_QUERY:
                                lid = _base_local(src_n["recv"])
                                if lid is not None:
                                    j = [k for k, (y, _) in enumerate(f.nodes()) if y is src_n]
                                    starts.append((f, lid, j[0] if j else i))
        if not starts:
            continue
        verdicts, why = [], ""
        todo, seen = list(starts[:1]), set()
        while todo:
            f, lid, use_idx = todo.pop()
            if (f.path, lid) in seen or len(seen) > 12:
                continue
            seen.add((f.path, lid))
            pidx = [j for j, p in enumerate(f.params) if p.get("k") == "Binding" and p["local"] == lid]
            if pidx:
                sites = [(h, j, c) for h, j, c in call_sites(scope, f.path) if h.path != f.path]
                if not sites:
                    verdicts.append(None)
                for h, j, c in sites:
                    a = all_args(c)[pidx[0]] if pidx[0] < len(all_args(c)) else None
                    hl = _base_local(a) if a is not None else None
                    if hl is None:
                        verdicts.append(None)
                    else:
                        todo.append((h, hl, j))
                continue
            # a local of f: loops around the use (or hand-over) that do not contain its creation
            lets = [j for j, (x, _) in enumerate(f.nodes()) if x.get("k") == "Let" and x["pat"].get("k") == "Binding" and x["pat"]["local"] == lid]
            if not lets:
                verdicts.append(None)
                continue
            let_loops = {id(cx[1]) for cx in enclosing_contexts(f, lets[0]) if cx[0] == "loop"}
            crossing = [cx[1] for cx in enclosing_contexts(f, use_idx) if cx[0] == "loop" and id(cx[1]) not in let_loops]
            bad = None
            for lp in crossing:
                # element type of the loop: the binding of the `Some(..)` arm of the desugared `for`
                elems = [str(q.get("t") or "") for arm in subnodes(lp) if arm.get("k") == "Arm" for q in subnodes(arm["pat"]) if q.get("k") == "Binding"][:3]
                cleared = any(y.get("k") == "MethodCall" and y.get("method") in ("clear", "truncate", "drain") and _base_local(y["recv"]) == lid for y in subnodes(lp))
                if any(steps(P, norm(t)) for t in elems) and not cleared:
                    bad = lp
            if bad is not None:
                verdicts.append(False)
                why = short(f.path)
            else:
                verdicts.append(True)
        v = False if False in verdicts else (None if (None in verdicts or not verdicts) else True)
        decide(R, rule, key, v, "the names already seen are collected per %s" % what,
               "the collection consulted before %s is reported is created in %s outside a loop that goes from one %s to the next, and is not "
               "emptied in between: a name seen in one %s is reported as a duplicate in the next" % (variant, why, what, what),
               "where the set of seen names is created was not found on every route", dev="strict")


def _r03c(P, R):
    # every check_directives site uses exactly the spec location of the position its directives come from (shared with C03:
    # a wrong location both misses misplaced directives and rejects correctly placed ones)
    from c03 import r03c
    r03c(P, R)


RULES = [(rid, directed(fn, "strict")) for rid, fn in
         [("R04-a", r04a), ("R04-b", r04b), ("R04-c", r04c), ("R04-d", r04d), ("R04-e", r04e), ("R04-f", r04f), ("R03-c", _r03c)]]
EXPLANATION = (
    "False-alarm freedom decided on finite tables read out of the code by abstract evaluation over kinds and compared with the GraphQL "
    "spec: (R04-a) literal kinds accepted per built-in scalar (Int literal for Float/ID), enum and input-object rows, required-ness = "
    "non-null and no default; (R04-b) the (wrapper type x literal kind) table of check_value: null valid for nullable types, a "
    "non-list value coerces to a one-element list, variables go through type compatibility; (R04-c) IsVariableUsageAllowed depends on "
    "the variable's default, and the nine (location kind, variable kind) cases of AreTypesCompatible take the required action; "
    "(R04-d) each of the nine composite (scope, condition) pairs has a conditional overlap test deciding on the right components, bodies "
    "are checked against the type condition for every (scope kind, condition kind), no iterator is consumed by two partial consumers; (R04-e) __typename meta field, "
    "subscription threshold. Not decided: value-dependent parts (possible-type overlap computed from a concrete schema, imported fragments).")
ASSUMPTIONS = ["GraphQL spec (October 2021) §3.5, §5.8.5 transcribed by hand",
               "abstract evaluation over kinds over-approximates the paths of the evaluated functions (loops: 0 or 1 iteration)"]


def main(tier):
    return harness.run_property("C04", RULES, "other", EXPLANATION, ASSUMPTIONS, tier)
