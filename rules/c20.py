"""C20 — relative and resolved paths are mutually inverse and land on the intended file (structural clauses only).

The algebraic laws (`resolve(a, relative(a, b)) = normalize(b)`, idempotence) quantify over run-time path strings and are not
decided here.  What *is* visible in the shape of the code, and is a necessary condition of those laws:

  R20-a  normalize_path's per-`Component` action table (`.` dropped, `..` pops, names pushed, root/prefix reset), and the result
         is rebuilt from the whole stack in order;
  R20-b  relative_path normalises both inputs, drops the file name of `from` (and only of `from`), measures a common *prefix*
         by equality, skips the same count on both sides, turns every remaining `from` directory into `..`, emits the ups before
         the rest of `to`, and prefixes `./` exactly when the first component is neither `.` nor `..`;
  R20-c  resolve_relative_path = normalize(dir(from_file) + relative);
  R20-d  consumers pass (file the specifier is written into, target) in that order, apply the TS->JS extension table after the
         relative path, and the extension table has no shadowed row and equals the TypeScript table.

Three-valued: a rule reports VIOLATED only on positive evidence (e.g. the `..` arm has no stack operation; `skip` receives two
different counts); a shape it does not recognise is UNDECIDED and raises no alarm.
"""
import harness
from facts import norm, call_name, short, subnodes, lit_value, arm_variants, AnchorMissing, is_catch_all
from prov import Prov, has_call
from templates import first_match, method_chain, enclosing_contexts, index_of, LOSSY_OR_REORDERING, inlined

UT = "nitrogql_utils::"
COMPONENT = "std::path::Component"
VARIANTS = ["Prefix", "RootDir", "CurDir", "ParentDir", "Normal"]
DROP_LAST = {"pop", "parent", "split_last", "truncate", "with_file_name", "set_file_name"}


def _path_fns(P):
    """the three path utilities, anchored by name, falling back to signature + features (so a rename is followed)"""
    cands = [f for f in P.fns.values() if f.path.startswith(UT) and f.kind in ("Fn", "AssocFn") and not f.from_expansion
             and (f.sig_output or "").endswith("std::path::PathBuf") and not f.path.split("::")[-1].startswith("test")]

    def uses_components(f):
        return any(n.get("k") == "MethodCall" and n["method"] == "components" for n in f.walk())

    normalize = P.fn(UT + "relative_path::normalize_path", required=False)
    relative = P.fn(UT + "relative_path::relative_path", required=False)
    resolve = P.fn(UT + "relative_path::resolve_relative_path", required=False)
    if normalize is None:
        c = [f for f in cands if f.sig_inputs == ["&std::path::Path"] and uses_components(f)]
        normalize = c[0] if len(c) == 1 else None
    two = [f for f in cands if f.sig_inputs == ["&std::path::Path", "&std::path::Path"]]
    if relative is None:
        c = [f for f in two if uses_components(f)]
        relative = c[0] if len(c) == 1 else None
    if resolve is None:
        c = [f for f in two if not uses_components(f)]
        resolve = c[0] if len(c) == 1 else None
    if normalize is None or relative is None or resolve is None:
        raise AnchorMissing("path utilities normalize_path / relative_path / resolve_relative_path in nitrogql_utils "
                            "(by name or by signature fn(&Path[, &Path]) -> PathBuf)")
    return normalize, relative, resolve


_NORMALISERS = {}


def _normalisers(P):
    """functions of nitrogql_utils that normalise by role: they fold `components()` through a match in which `..` pops a stack and
    `.` contributes nothing (normalize_path itself, or a constructor of a normalised-path type)"""
    if id(P) not in _NORMALISERS:
        out = set()
        for f in P.fns.values():
            if not f.path.startswith(UT) or f.derived or f.kind not in ("Fn", "AssocFn"):
                continue
            for m in _component_matches(f):
                i, j = first_match(m, "ParentDir"), first_match(m, "Normal")
                if i is None or j is None:
                    continue
                if any(o in ("pop", "truncate") for o in _vec_ops(m["arms"][i]["body"])) and "push" in _vec_ops(m["arms"][j]["body"]):
                    out.add(f.path)
        _NORMALISERS[id(P)] = out
    return _NORMALISERS[id(P)]


def _normalised(P, atoms):
    ns = _normalisers(P)
    return any(a[0] in ("call", "def") and (a[1] in ns or any(a[1].endswith("::" + n.split("::")[-1]) and n.split("::")[-2:] == a[1].split("::")[-2:] for n in ns)) for a in atoms)


def _component_matches(f):
    out = []
    for n in f.walk():
        if n.get("k") == "Match" and n.get("src") == "Normal":
            t = (norm(n["scrut"].get("t")) or "").lstrip("&").replace("mut ", "")
            if t.startswith(COMPONENT):
                out.append(n)
    return out


def _arm_components(body):
    """Component variants named by an arm's own code (bodies of virtually inlined callees excluded: what a helper does
    with the value it is handed is not what the arm contributes), and whether the arm calls such a helper."""
    made, helper = [], False
    stack = [body]
    while stack:
        n = stack.pop()
        if isinstance(n, dict):
            if n.get("k") == "Path" and COMPONENT in (norm(n.get("def")) or ""):
                made.append(norm(n["def"]).split("::")[-1])
            for key, v in n.items():
                if key == "inl":
                    helper = True
                elif isinstance(v, (dict, list)):
                    stack.append(v)
        elif isinstance(n, list):
            stack.extend(n)
    return sorted(made), helper


_LAZY_INIT = ("get_or_insert_with", "get_or_init", "get_or_try_init", "or_insert_with", "or_insert_with_key")


def _root_local(e):
    """the local a receiver expression is rooted in (through field accesses, borrows, derefs and method receivers)"""
    while isinstance(e, dict):
        if e.get("k") == "Path":
            return e.get("local")
        if e.get("k") == "MethodCall":
            e = e.get("recv")
        else:
            e = e.get("e")
    return None


def _pop_depth_guard(body):
    """the least stack length at which the removal in a `..` arm takes place, when the removal sits under a comparison of the
    stack's `len()` with an integer literal (None: no such guard). `!is_empty()` / `len() > 0` is what `pop` does anyway."""
    worst = None
    stack = [(body, [])]
    while stack:
        n, guards = stack.pop()
        if isinstance(n, list):
            for v in n:
                stack.append((v, guards))
            continue
        if not isinstance(n, dict):
            continue
        if n.get("k") == "If":
            stack.append((n.get("cond"), guards))
            stack.append((n.get("then"), guards + [n.get("cond")]))
            for key in ("else", "els"):
                if n.get(key) is not None:
                    stack.append((n[key], guards))
            continue
        if n.get("k") == "MethodCall" and n.get("method") in ("pop", "truncate", "remove") and "alloc::vec::Vec" in (norm(n.get("recv_ty")) or ""):
            for g in guards:
                for c in subnodes(g):
                    if c.get("k") != "Binary":
                        continue
                    l, r = c.get("l", {}), c.get("r", {})
                    flip = False
                    if not (l.get("k") == "MethodCall" and l.get("method") == "len"):
                        l, r, flip = r, l, True
                    if not (l.get("k") == "MethodCall" and l.get("method") == "len" and "alloc::vec::Vec" in (norm(l.get("recv_ty")) or "")):
                        continue
                    k = _int(r)
                    if k is None:
                        continue
                    op = c.get("op")
                    if flip:
                        op = {">": "<", "<": ">", ">=": "<=", "<=": ">="}.get(op, op)
                    least = {">": k + 1, ">=": k, "!=": (1 if k == 0 else None)}.get(op)
                    if least is not None:
                        worst = max(worst or 0, least)
        for key, v in n.items():
            if isinstance(v, (dict, list)):
                stack.append((v, guards))
    return worst


_ALIAS_METHODS = ("clone", "to_owned", "to_path_buf", "as_path", "as_ref", "borrow", "deref", "into", "as_deref")
_FS_WRITERS = ("std::fs::write", "std::fs::File::create", "std::fs::OpenOptions::open")


def _param_feeding(P, g, target_pred, depth=0):
    """indices of the parameters of g from which an argument of a call satisfying target_pred derives (one level of helpers)"""
    pv = Prov(g)
    names = [pv.params.get(b.get("local")) if b.get("k") == "Binding" else None for b in g.params]
    out = set()
    for c in g.walk():
        if c.get("k") not in ("Call", "MethodCall"):
            continue
        which = target_pred(c)
        if which is None:
            continue
        args = ([c["recv"]] if c.get("k") == "MethodCall" else []) + c.get("args", [])
        if which < len(args):
            a = pv.atoms(args[which])
            for i, nm in enumerate(names):
                # only parameters that can carry a path (a flag that merely decides whether the call happens is not a source of it)
                if nm is not None and ("param", nm) in a and "Path" in str(g.params[i].get("t", "")):
                    out.add(i)
    return out


def _specifier_for_written_file(P, R, relative, spec_fns):
    cli = [f for f in P.fns.values() if f.path.startswith("nitrogql_cli::") and f.kind in ("Fn", "AssocFn") and not f.derived and "::tests" not in f.path]
    # writers: functions of the CLI that create/write a file at a path taken from a parameter
    writers = {}
    for g in cli:
        idx = _param_feeding(P, g, lambda c: 0 if norm(call_name(c) or "") in _FS_WRITERS else None)
        if idx:
            writers[g.path] = idx
    # specifier functions: which parameter is the `from` of relative_path
    froms = {}
    for gp in spec_fns:
        g = P.fns.get(gp)
        if g is None or gp == relative.path:
            continue
        idx = _param_feeding(P, g, lambda c: 0 if call_name(c) == relative.path else None)
        if idx:
            froms[gp] = idx
    if not writers or not froms:
        R.undecided("R20-d", "specifier-for-written-file", "no file writer taking a path parameter (%d) or no specifier function (%d) found in the CLI"
                    % (len(writers), len(froms)), loc=None)
        return
    n = 0
    for f in cli:
        nodes = f.nodes()
        spec_calls = [(i, x) for i, (x, _) in enumerate(nodes) if x.get("k") == "Call" and call_name(x) in froms and call_name(x) != f.path]
        write_calls = [(i, x) for i, (x, _) in enumerate(nodes) if x.get("k") == "Call" and call_name(x) in writers and call_name(x) != f.path]
        if not spec_calls or not write_calls:
            continue
        pv = Prov(f)

        def loop_of(i):
            p = nodes[i][1]
            while p >= 0:
                if nodes[p][0].get("k") == "Loop":
                    return p
                p = nodes[p][1]
            return -1

        def derives(a, b, seen=None):
            """is local a computed from local b through something other than an alias? -> 'alias' | 'computed' | None"""
            seen = seen if seen is not None else set()
            if a == b:
                return "alias"
            if a in seen:
                return None
            seen.add(a)
            best = None
            for src, _ in pv.src.get(a, []):
                if src is None:
                    continue
                locs = {y["local"] for y in subnodes(src) if y.get("k") == "Path" and "local" in y}
                calls = [y for y in subnodes(src) if y.get("k") in ("Call", "MethodCall")
                         and not (y.get("k") == "MethodCall" and y.get("method") in _ALIAS_METHODS)]
                for l in locs:
                    r = derives(l, b, seen)
                    if r is not None:
                        r = "computed" if (calls or r == "computed") else "alias"
                        best = "computed" if "computed" in (best, r) else r
            return best

        for si, sc in spec_calls:
            for wi, wc in write_calls:
                if loop_of(si) != loop_of(wi):
                    continue
                for fi in froms[call_name(sc)]:
                    for pi in writers[call_name(wc)]:
                        if fi >= len(sc["args"]) or pi >= len(wc["args"]):
                            continue
                        ls, lw = _root_local(sc["args"][fi]), _root_local(wc["args"][pi])
                        if ls is None or lw is None:
                            continue
                        rel = derives(lw, ls) or derives(ls, lw)
                        if rel is None:
                            continue        # unrelated outputs (the schema file and an operation's declaration file, say)
                        n += 1
                        key = "specifier-for-written-file:%s" % short(f.path)
                        if rel == "alias":
                            R.holds("R20-d", key, "the import specifier is computed for the path the file is written to", loc=f.loc())
                        else:
                            R.violated("R20-d", key, "%s computes the schema import specifier for one path and writes the file to a path computed "
                                       "from it (a relocation applied after the specifier was taken, or before it on one side only): the relative "
                                       "import in the written file points at the wrong place" % f.path, loc=f.loc())
    if n == 0:
        R.undecided("R20-d", "specifier-for-written-file", "no specifier call and write call over related paths found in one function", loc=None)


def _vec_ops(body):
    """methods applied to a Vec receiver below `body`"""
    ops = []
    for x in subnodes(body):
        if x.get("k") == "MethodCall" and "alloc::vec::Vec" in (norm(x.get("recv_ty")) or ""):
            ops.append(x["method"])
    return ops


def _calls_below(body):
    return [x for x in subnodes(body) if x.get("k") in ("Call", "MethodCall")]


def r20a(P, R):
    normalize, _, _ = _path_fns(P)
    normalize = inlined(P, normalize)
    ms = _component_matches(normalize)
    if len(ms) != 1:
        R.undecided("R20-a", "table", "normalize_path does not consist of one `match` over std::path::Component (%d found); "
                    "its action table is not read" % len(ms), loc=normalize.loc())
        return
    m = ms[0]
    R.count("component_table_rows", len(VARIANTS))
    for v in VARIANTS:
        i = first_match(m, v)
        if i is None:
            R.undecided("R20-a", "row:" + v, "no unguarded arm decides Component::%s" % v, loc=normalize.loc())
            continue
        body = m["arms"][i]["body"]
        ops = _vec_ops(body)
        calls = _calls_below(body)
        other = [short(call_name(c) or "?") for c in calls if not (c.get("k") == "MethodCall" and "alloc::vec::Vec" in (norm(c.get("recv_ty")) or ""))]
        if v == "CurDir":
            if "push" in ops or "insert" in ops:
                R.violated("R20-a", "row:CurDir", "normalize_path keeps `.` components (the CurDir arm pushes onto the stack): the result is not "
                           "free of `.` and normalisation is not idempotent with respect to consumers that compare paths", loc=normalize.loc())
            elif not ops and not other:
                R.holds("R20-a", "row:CurDir", "`.` contributes nothing")
            elif set(ops) <= {"len", "is_empty", "last"} and not other:
                R.holds("R20-a", "row:CurDir", "`.` contributes nothing")
            else:
                R.undecided("R20-a", "row:CurDir", "CurDir arm does %s" % (ops + other), loc=normalize.loc())
        elif v == "ParentDir":
            if "push" in ops or "insert" in ops:
                R.violated("R20-a", "row:ParentDir", "normalize_path keeps `..` components (the ParentDir arm pushes): the result still contains "
                           "`..`", loc=normalize.loc())
            elif any(o in ("pop", "truncate", "remove", "split_off", "drain") for o in ops):
                need = _pop_depth_guard(body)
                if need is not None and need >= 2:
                    R.violated("R20-a", "row:ParentDir", "the ParentDir arm of normalize_path removes the component before `..` only when the stack "
                               "holds at least %d components: whether `..` cancels depends on the depth, not on what precedes it, so `a/../b` "
                               "(a relative root file importing `../x`) keeps `a`" % need, loc=normalize.loc())
                else:
                    R.holds("R20-a", "row:ParentDir", "`..` removes the component before it")
            elif not ops and not other:
                R.violated("R20-a", "row:ParentDir", "the ParentDir arm of normalize_path has no effect on the component stack: `a/../b` "
                           "normalises to `a/b`, so every `#import \"../x\"` and every relative specifier lands on the wrong file", loc=normalize.loc())
            else:
                R.undecided("R20-a", "row:ParentDir", "ParentDir arm does %s" % (ops + other), loc=normalize.loc())
        elif v == "Normal":
            if "push" in ops:
                extra = [o for o in ops if o in ("pop", "clear", "truncate", "remove", "drain")]
                if extra:
                    R.violated("R20-a", "row:Normal", "the Normal arm of normalize_path also applies %s to the stack: name components are lost" % extra,
                               loc=normalize.loc())
                else:
                    R.holds("R20-a", "row:Normal", "a name component is pushed")
            elif not ops and not other:
                R.violated("R20-a", "row:Normal", "name components are dropped by normalize_path (the Normal arm does not push)", loc=normalize.loc())
            else:
                R.undecided("R20-a", "row:Normal", "Normal arm does %s" % (ops + other), loc=normalize.loc())
        else:  # Prefix / RootDir
            if "push" in ops:
                R.holds("R20-a", "row:" + v, "%s (re)starts the path" % v)
            elif not ops and not other:
                R.violated("R20-a", "row:" + v, "normalize_path drops the %s component: an absolute path becomes relative" % v, loc=normalize.loc())
            else:
                R.undecided("R20-a", "row:" + v, "%s arm does %s" % (v, ops + other), loc=normalize.loc())
    # the component pushed is the matched component itself (not a constant / another variant)
    pv = Prov(normalize)
    pushes = [x for x in subnodes(m) if x.get("k") == "MethodCall" and x["method"] == "push" and "alloc::vec::Vec" in (norm(x.get("recv_ty")) or "")]
    for j, x in enumerate(pushes):
        a = pv.atoms(x["args"][0])
        made = [y for y in a if y[0] in ("def", "ctor") and COMPONENT in str(y[1])]
        R.check("R20-a", "push-is-matched-component#%d" % j, not made, "the stack receives the matched component unchanged",
                "normalize_path pushes a constructed component (%s) instead of the one it matched" % [short(str(y[1])) for y in made], loc=normalize.loc())
    # the input is walked completely and in order
    comps = [x for x in normalize.walk() if x.get("k") == "MethodCall" and x["method"] == "components"]
    R.floor("R20-a", "components() traversals in normalize_path", len(comps), 1)
    idx = {id(n): i for i, (n, _) in enumerate(normalize.nodes())}
    for c in comps:
        # adaptors applied on top of components() before the loop
        par = normalize.parents_of(idx[id(c)])
        lossy = [p["method"] for p in par if p.get("k") == "MethodCall" and p["method"] in (LOSSY_OR_REORDERING - {"pop", "clear", "insert"}) and _is_recv_chain(p, c)]
        R.check("R20-a", "input-walk", not lossy, "every component of the input is visited in order",
                "normalize_path walks the input through %s: components are skipped or reordered" % lossy, loc=normalize.loc())
    # the result is rebuilt from the whole stack, in order
    rebuilt = False
    for n in normalize.walk():
        if n.get("k") == "Call" and (call_name(n) or "").endswith("IntoIterator::into_iter") and n.get("x") == "desugar:ForLoop":
            arg = n["args"][0]
            base, chain = method_chain(arg)
            if "alloc::vec::Vec" in (norm(arg.get("t")) or norm(base.get("t")) or "") or any("alloc::vec::Vec" in (norm(c.get("recv_ty")) or "") for c in chain):
                lossy = [c["method"] for c in chain if c["method"] in LOSSY_OR_REORDERING]
                rebuilt = True
                R.check("R20-a", "rebuild", not lossy, "the result is rebuilt from the whole stack in order",
                        "the result of normalize_path is rebuilt from the stack through %s: components are lost or reordered" % lossy, loc=normalize.loc())
        if n.get("k") == "MethodCall" and n["method"] in ("collect", "from_iter", "extend") and "PathBuf" in (norm(n.get("t")) or norm(n.get("recv_ty")) or ""):
            base, chain = method_chain(n["recv"] if n["method"] == "collect" else n["args"][0])
            lossy = [c["method"] for c in chain if c["method"] in LOSSY_OR_REORDERING]
            rebuilt = True
            R.check("R20-a", "rebuild", not lossy, "the result is rebuilt from the whole stack in order",
                    "the result of normalize_path is rebuilt from the stack through %s" % lossy, loc=normalize.loc())
    if not rebuilt:
        R.undecided("R20-a", "rebuild", "how the result is rebuilt from the stack was not recognised", loc=normalize.loc())


def _is_recv_chain(outer, inner):
    e = outer
    while e.get("k") == "MethodCall":
        e = e["recv"]
        if e is inner:
            return True
    return False


def _params(f):
    pv = Prov(f)
    names = [pv.params.get(p.get("local")) if p.get("k") == "Binding" else None for p in f.params]
    return pv, names


def _side(atoms, p_from, p_to):
    s = set()
    if ("param", p_from) in atoms:
        s.add("from")
    if ("param", p_to) in atoms:
        s.add("to")
    return s


def r20b(P, R):
    normalize, relative, _ = _path_fns(P)
    norms = _normalisers(P) | {normalize.path}
    relative = inlined(P, relative, pred=lambda g: g.path not in norms)
    pv, names = _params(relative)
    if len(names) != 2 or None in names:
        R.undecided("R20-b", "params", "relative_path parameters are destructured; roles not identified", loc=relative.loc())
        return
    p_from, p_to = names
    loc = relative.loc()
    # (1) both inputs are normalised before their components are compared
    comps = [x for x in relative.walk() if x.get("k") == "MethodCall" and x["method"] == "components"]
    if not comps:
        R.undecided("R20-b", "normalised-inputs", "relative_path does not use Path::components; shape not recognised", loc=loc)
    sides = {}
    for c in comps:
        a = pv.atoms(c["recv"])
        s = _side(a, p_from, p_to)
        key = "+".join(sorted(s)) or "?"
        sides[key] = c
        R.check("R20-b", "normalised-inputs:" + key, has_call(a, normalize.path.split("::")[-1]) or has_call(a, "canonicalize") or _normalised(P, a),
                "components of `%s` are taken after normalisation" % key,
                "relative_path compares the raw components of `%s` (no normalize_path on the way): `a/x/../b` and `a/b` share no prefix "
                "beyond `a`, and `..` components reach the reversal step" % key, loc=loc)
    # (2) the file name of `from`, and only of `from`, is dropped
    drops = {"from": [], "to": []}
    for x in relative.walk():
        if x.get("k") == "MethodCall" and x["method"] in DROP_LAST and ("Path" in (norm(x.get("recv_ty")) or "") or "Component" in (norm(x.get("recv_ty")) or "")):
            for s in _side(pv.atoms(x["recv"]), p_from, p_to):
                drops[s].append(x["method"])
    arith = [x for x in relative.walk() if x.get("k") == "Binary" and x.get("op") in ("-", "Sub")]
    if drops["from"] and not drops["to"]:
        R.holds("R20-b", "from-is-a-file", "the last component of `from` (a file name) is dropped; `to` keeps its own")
    elif drops["to"]:
        R.violated("R20-b", "from-is-a-file", "relative_path drops the last component of `to` (%s): the computed specifier names the "
                   "target's directory, not the target file" % drops["to"], loc=loc)
    elif arith:
        R.undecided("R20-b", "from-is-a-file", "no pop/parent on `from`, but index arithmetic is present", loc=loc)
    else:
        R.violated("R20-b", "from-is-a-file", "relative_path never drops the file name of `from` (no pop/parent on a path derived from it): "
                   "the starting file is treated as a directory and every result has one `..` too many", loc=loc)
    # (3) the common part is a *prefix* measured by equality
    counts = [x for x in relative.walk() if x.get("k") == "MethodCall" and x["method"] in ("count", "position", "len")
              and any(c["method"] == "zip" for c in method_chain(x)[1])]
    if not counts:
        _common_prefix_loop(R, relative, pv, p_from, p_to, loc)
    for x in counts:
        base, chain = method_chain(x)
        ms = [c["method"] for c in chain]
        after_zip = ms[ms.index("zip") + 1:]
        if "filter" in after_zip or "filter_map" in after_zip:
            R.violated("R20-b", "common-prefix", "the number of shared components is counted with `filter` over all positions, not as a "
                       "prefix (`take_while`): `/a/x/c/f` vs `/a/y/c/g` counts 2 shared components and yields a path into the wrong directory", loc=loc)
            continue
        tw = [c for c in chain if c["method"] in ("take_while", "map_while", "position", "skip_while")]
        if not tw:
            R.undecided("R20-b", "common-prefix", "prefix measured by %s" % after_zip, loc=loc)
            continue
        zipc = [c for c in chain if c["method"] == "zip"][0]
        za1, za2 = _recv_side(pv, zipc["recv"], p_from, p_to), _recv_side(pv, zipc["args"][0], p_from, p_to)
        za = za1 | za2
        if not za1 or not za2:
            R.undecided("R20-b", "common-prefix:both-sides", "an operand of the zip could not be traced to a parameter", loc=loc)
        else:
            R.check("R20-b", "common-prefix:both-sides", za == {"from", "to"}, "the prefix is measured between `from` and `to`",
                    "the zip that measures the common prefix pairs %s, not `from` with `to`" % sorted(za), loc=loc)
        clo = tw[0]["args"][0] if tw[0]["args"] else None
        verdict = _pred_kind(clo)
        coarse = _coarse_equality(P, clo)
        if coarse:
            R.violated("R20-b", "common-prefix:by-equality", "components of the two paths are compared through %s, an equality coarser than identity "
                       "(case folding / lossy conversion): on a case-sensitive file system `App/` and `app/` are different directories, the "
                       "relative path drops that level and resolves to the wrong file" % coarse, loc=loc)
            continue
        want = "Ne" if tw[0]["method"] in ("position", "skip_while") else "Eq"
        if verdict is None:
            R.undecided("R20-b", "common-prefix:by-equality", "predicate of %s not recognised" % tw[0]["method"], loc=loc)
        else:
            R.check("R20-b", "common-prefix:by-equality", verdict == want, "components are compared for equality",
                    "the predicate of `%s` compares with `%s`: the common prefix is measured the wrong way round" % (tw[0]["method"], verdict), loc=loc)
        skipped = [c["method"] for c in chain if c["method"] in ("skip", "rev", "step_by", "take")]
        R.check("R20-b", "common-prefix:from-the-start", not skipped, "the comparison starts at the first component",
                "the prefix comparison goes through %s" % skipped, loc=loc)
    # (4) the same count is removed from both sides
    skips = [x for x in relative.walk() if x.get("k") == "MethodCall" and x["method"] == "skip" and "Component" in (norm(x.get("recv_ty")) or "")]
    ranges = [x for x in relative.walk() if x.get("k") == "Index" and "Component" in (norm(x.get("t")) or "")]
    if len(skips) == 2:
        a0, a1 = skips[0]["args"][0], skips[1]["args"][0]
        s0, s1 = _recv_side(pv, skips[0]["recv"], p_from, p_to), _recv_side(pv, skips[1]["recv"], p_from, p_to)
        plain = all(_plain_local(a) is not None for a in (a0, a1))
        if plain:
            R.check("R20-b", "same-count-both-sides", _plain_local(a0) == _plain_local(a1), "both sides skip the same number of components",
                    "`from` and `to` skip different counts: the remainder of one side is misaligned", loc=loc)
        else:
            if any(_int(y) is not None for a in (a0, a1) for y in subnodes(a)) or any(y.get("k") in ("Binary", "MethodCall") for a in (a0, a1) for y in subnodes(a)):
                same = _expr_sig(a0) == _expr_sig(a1)
                R.check("R20-b", "same-count-both-sides", same, "both sides skip the same expression",
                        "the number of components skipped differs between `from` (%s) and `to` (%s)" % (_expr_sig(a0), _expr_sig(a1)), loc=loc)
            else:
                R.undecided("R20-b", "same-count-both-sides", "skip arguments not recognised", loc=loc)
        if not s0 or not s1:
            R.undecided("R20-b", "skip-sides", "a remainder could not be traced to a parameter", loc=loc)
        else:
            R.check("R20-b", "skip-sides", {frozenset(s0), frozenset(s1)} == {frozenset(["from"]), frozenset(["to"])},
                    "one remainder is taken from `from`, the other from `to`", "the two remainders are taken from %s and %s" % (sorted(s0), sorted(s1)), loc=loc)
    elif not skips and not ranges:
        R.undecided("R20-b", "same-count-both-sides", "no skip(..)/slice on the component lists", loc=loc)
    else:
        R.undecided("R20-b", "same-count-both-sides", "%d skip(..) and %d slices; shape not recognised" % (len(skips), len(ranges)), loc=loc)
    # (5) every remaining directory of `from` becomes `..`
    ms = [m for m in _component_matches(relative) if m.get("x") != "matches"]
    table = None
    for m in ms:
        if _recv_side(pv, m["scrut"], p_from, p_to) == {"from"} or len(ms) == 1:
            table = m
    if table is None:
        R.undecided("R20-b", "ups-table", "no match over the remaining components of `from`", loc=loc)
    else:
        i = first_match(table, "Normal")
        if i is None:
            R.undecided("R20-b", "ups-table:Normal", "no arm for Normal", loc=loc)
        else:
            made, through_helper = _arm_components(table["arms"][i]["body"])
            if made == ["ParentDir"]:
                R.holds("R20-b", "ups-table:Normal", "a remaining directory of `from` contributes `..`")
            elif not made and through_helper:
                R.undecided("R20-b", "ups-table:Normal", "what a remaining directory of `from` contributes is decided inside a helper", loc=loc)
            elif not made:
                R.violated("R20-b", "ups-table:Normal", "a remaining directory of `from` contributes nothing: the result does not climb "
                           "out of `from`'s directory", loc=loc)
            else:
                R.violated("R20-b", "ups-table:Normal", "a remaining directory of `from` contributes %s instead of `..`" % made, loc=loc)
        for v in ("RootDir", "Prefix"):
            i = first_match(table, v)
            if i is not None:
                made, _ = _arm_components(table["arms"][i]["body"])
                R.check("R20-b", "ups-table:" + v, "ParentDir" not in made, "%s contributes no `..`" % v,
                        "a %s component of `from` is turned into `..`" % v, loc=loc)
    # (6) ups first, then the rest of `to`
    chains = [x for x in relative.walk() if x.get("k") == "MethodCall" and x["method"] == "chain" and "Component" in (norm(x.get("t")) or norm(x.get("recv_ty")) or "")]
    if len(chains) == 1:
        c = chains[0]
        s_recv, s_arg = _recv_side(pv, c["recv"], p_from, p_to), _recv_side(pv, c["args"][0], p_from, p_to)
        if "from" in s_recv and "to" in s_arg and "from" not in s_arg:
            R.holds("R20-b", "ups-then-rest", "the `..` steps precede the remainder of `to`")
        elif "to" in s_recv and "from" in s_arg and "to" not in s_arg:
            R.violated("R20-b", "ups-then-rest", "the remainder of `to` is emitted before the `..` steps: `x/../..` instead of `../../x`", loc=loc)
        else:
            R.undecided("R20-b", "ups-then-rest", "chain operands derive from %s and %s" % (sorted(s_recv), sorted(s_arg)), loc=loc)
    else:
        R.undecided("R20-b", "ups-then-rest", "%d chain(..) calls over components" % len(chains), loc=loc)
    # (7) the result starts with `./` unless it already starts with `.`/`..`
    curdir_pushes = []
    for i, (x, _) in enumerate(relative.nodes()):
        if x.get("k") == "MethodCall" and x["method"] == "push" and "PathBuf" in (norm(x.get("recv_ty")) or ""):
            made = [norm(y.get("def") or "").split("::")[-1] for y in subnodes(x["args"][0]) if y.get("k") == "Path" and COMPONENT in (norm(y.get("def")) or "")]
            lits = [lit_value(y) for y in subnodes(x["args"][0]) if y.get("k") == "Lit"]
            if "CurDir" in made or "." in lits or "./" in lits:
                curdir_pushes.append((i, x))
    inits = [lit_value(y) for x in relative.walk() if x.get("k") == "Call" and (call_name(x) or "").endswith(("PathBuf::from", "Path::new")) for y in subnodes(x) if y.get("k") == "Lit"]
    # any other construction of `.` outside the ups table (e.g. `iter::once(Component::CurDir)` chained in front)
    table_nodes = set(id(y) for y in subnodes(table)) if table is not None else set()
    other_curdir = [y for y in relative.walk() if y.get("k") == "Path" and norm(y.get("def") or "").endswith("Component::CurDir")
                    and y.get("dk", "").startswith("Ctor") and id(y) not in table_nodes]
    other_curdir = [y for y in other_curdir if not any(id(y) in set(id(z) for z in subnodes(x["args"][0])) for _, x in curdir_pushes)]
    if not curdir_pushes and other_curdir:
        R.undecided("R20-b", "leading-dot", "`.` is produced outside a push onto the result; the prefix rule was not recognised", loc=loc)
    elif not curdir_pushes and not any(v in (".", "./") for v in inits):
        R.violated("R20-b", "leading-dot", "relative_path never emits a leading `./`: a target in the same or a deeper directory yields "
                   "`sub/x.js`, which import specifiers and `#import` treat as a package name, not a relative path", loc=loc)
    for i, x in curdir_pushes:
        conds = [c[1]["cond"] for c in enclosing_contexts(relative, i) if c[0] == "if-then"]
        if not conds:
            neg = [c for c in enclosing_contexts(relative, i) if c[0] in ("if-else", "arm")]
            if neg:
                R.undecided("R20-b", "leading-dot:guard", "the `./` prefix is emitted under a guard form not recognised", loc=loc)
            else:
                R.violated("R20-b", "leading-dot:guard", "the `./` prefix is pushed unconditionally inside the loop / for every result: "
                           "`./../x` or `././x`", loc=loc) if any(c[0] == "loop" for c in enclosing_contexts(relative, i)) else \
                    R.undecided("R20-b", "leading-dot:guard", "`./` pushed outside a loop without a guard", loc=loc)
            continue
        cond = conds[0]
        zero = [y for y in subnodes(cond) if y.get("k") == "Binary" and y.get("op") in ("==", "!=", ">", "<", ">=", "<=")
                and any(_int(z) is not None for z in (y["l"], y["r"]))]
        if zero:
            y = zero[0]
            v = [_int(z) for z in (y["l"], y["r"]) if _int(z) is not None][0]
            R.check("R20-b", "leading-dot:first-only", y["op"] == "==" and v == 0, "the `./` prefix is considered for the first component only",
                    "the `./` prefix is decided at index `%s %s`, not at the first component" % (y["op"], v), loc=loc)
        else:
            R.undecided("R20-b", "leading-dot:first-only", "no index comparison in the guard of the `./` prefix", loc=loc)
        # the guard exempts exactly CurDir and ParentDir
        exempt = set()
        negated = False
        for y in subnodes(cond):
            if y.get("k") == "Unary" and y.get("op") == "Not":
                negated = True
            if y.get("k") == "Match":
                for arm in y["arms"]:
                    if lit_value(arm["body"]) is True:
                        exempt |= _component_variants_in(arm["pat"])
        if exempt:
            R.check("R20-b", "leading-dot:exempt", negated and exempt == {"CurDir", "ParentDir"},
                    "`./` is added unless the first component is `.` or `..`",
                    "the `./` prefix is %s for first components %s (expected: not added exactly for CurDir and ParentDir)"
                    % ("skipped" if negated else "added only", sorted(exempt)), loc=loc)
        else:
            R.undecided("R20-b", "leading-dot:exempt", "the exemption test of the `./` prefix was not recognised", loc=loc)
    # (9) path relations are computed component-wise: a *textual* prefix/suffix test on the string form of a path is not a path
    # relation (`/a/gen` is a string prefix of `/a/gen-types/x` but not its ancestor)
    textual = []
    for x in relative.walk():
        if x.get("k") == "MethodCall" and x["method"] in ("strip_prefix", "starts_with", "strip_suffix", "trim_start_matches", "find", "split_at", "get"):
            rt = norm(x.get("recv_ty")) or ""
            if ("str" in rt or "String" in rt or "OsStr" in rt) and "Path" not in rt:
                a = pv.atoms(x["recv"]) | (pv.atoms(x["args"]) if x["args"] else frozenset())
                if _side(a, p_from, p_to) and any(c[0] == "call" and c[1].split("::")[-1] in ("to_str", "to_string_lossy", "as_os_str", "to_string", "display", "into_os_string", "as_encoded_bytes", "to_owned")
                                                   for c in a):
                    textual.append(x["method"])
    R.check("R20-b", "component-wise", not textual, "the relation between the two paths is computed on components",
            "relative_path relates the two paths through `%s` on their *string* form: a textual prefix is not a path prefix (`/p/api` vs "
            "`/p/api-schema/s.graphql` yields `./-schema/s.graphql`), so sibling directories sharing a name prefix resolve to the wrong file"
            % (textual[0] if textual else ""), loc=loc)
    # (8) every component of the computed sequence reaches the result
    res_pushes = [x for x in relative.walk() if x.get("k") == "MethodCall" and x["method"] == "push" and "PathBuf" in (norm(x.get("recv_ty")) or "")]
    R.floor("R20-b", "pushes onto the result path", len(res_pushes), 1)
    R.count("relative_path_sites", len(comps) + len(skips) + len(chains) + len(res_pushes))


def _int(n):
    v = lit_value(n)
    if n.get("k") == "Lit" and n.get("lk") == "int":
        try:
            return int(v)
        except (TypeError, ValueError):
            return None
    if isinstance(v, int) and not isinstance(v, bool):
        return v
    return None


def _recv_side(pv, e, p_from, p_to, depth=0):
    """which parameter the *elements* of an iterator/collection expression come from: follows receivers and the
    initialisers of locals only (arguments such as a skip count are not followed)"""
    while True:
        k = e.get("k")
        if k == "MethodCall":
            e = e["recv"]
        elif k in ("AddrOf", "DropTemps", "Use", "Unary", "Field", "Index", "Cast") and "e" in e:
            e = e["e"]
        elif k == "Call" and e.get("args"):
            e = e["args"][0]
        elif k == "BlockExpr" and "tail" in e.get("b", {}):
            e = e["b"]["tail"]
        else:
            break
    if e.get("k") == "Path" and "local" in e:
        name = pv.params.get(e["local"])
        if name == p_from:
            return {"from"}
        if name == p_to:
            return {"to"}
        if depth > 8:
            return set()
        out = set()
        for src, _ in pv.src.get(e["local"], []):
            if src is not None:
                if src.get("k") == "Tup" and src.get("t") == "()":
                    # closure parameter: elements of the receiver (first entry of the context tuple)
                    if src["es"]:
                        out |= _recv_side(pv, src["es"][0], p_from, p_to, depth + 1)
                else:
                    out |= _recv_side(pv, src, p_from, p_to, depth + 1)
        return out
    return set()


def _component_variants_in(pat):
    """variants of std::path::Component named anywhere inside a pattern (e.g. `Some(CurDir | ParentDir)`)"""
    out = set()
    for y in subnodes(pat):
        d = norm(y.get("ctor_of") or y.get("def") or "")
        if COMPONENT + "::" in d:
            out.add(d.split("::")[-1])
    return out


def _common_prefix_loop(R, relative, pv, p_from, p_to, loc):
    """the explicit-loop spelling: `for (f, t) in from.zip(to) { if f != t { break } n += 1 }` (or the `==`/else form).  The count is
    a *prefix* length only if the first mismatch leaves the loop."""
    from templates import diverges
    loops = []
    for x in relative.walk():
        if x.get("k") == "Match" and x.get("src") == "ForLoopDesugar" and x["scrut"].get("k") == "Call" and x["scrut"].get("args"):
            it = x["scrut"]["args"][0]
            if any(c.get("k") == "MethodCall" and c["method"] == "zip" for c in subnodes(it)) and \
                    _recv_side(pv, it, p_from, p_to) | set().union(*[_recv_side(pv, a, p_from, p_to) for c in subnodes(it) if c.get("k") == "MethodCall" and c["method"] == "zip" for a in c["args"]]) == {"from", "to"}:
                loops.append(x)
    if not loops:
        R.undecided("R20-b", "common-prefix", "no zip(..)…count()/position() chain and no loop over zip(from, to) found; how the common prefix is "
                    "measured was not recognised", loc=loc)
        return
    for lp in loops:
        ifs = [y for y in subnodes(lp) if y.get("k") == "If" and any(z.get("k") == "Binary" and z.get("op") in ("==", "!=") for z in subnodes(y["cond"]))]
        incs = [y for y in subnodes(lp) if y.get("k") == "AssignOp" and y.get("op") in ("+=", "Add", "AddAssign")]
        if len(ifs) != 1 or not incs:
            R.undecided("R20-b", "common-prefix", "loop over zip(from, to) with %d comparisons and %d increments; not recognised" % (len(ifs), len(incs)), loc=loc)
            continue
        cond = ifs[0]["cond"]
        while cond.get("k") in ("DropTemps", "Paren"):
            cond = cond["e"]
        neg = False
        while cond.get("k") == "Unary" and cond.get("op") == "Not":
            neg, cond = not neg, cond["e"]
        if cond.get("k") != "Binary" or cond.get("op") not in ("==", "!="):
            R.undecided("R20-b", "common-prefix", "compound comparison in the prefix loop", loc=loc)
            continue
        equal_branch_is_then = (cond["op"] == "==") != neg
        mismatch = ifs[0].get("else") if equal_branch_is_then else ifs[0].get("then")

        def leaves_loop(b):
            return b is not None and any(z.get("k") in ("Break", "Ret") for z in subnodes(b))
        if leaves_loop(mismatch):
            R.holds("R20-b", "common-prefix", "the counting loop stops at the first mismatch")
        else:
            kinds = sorted({z.get("k") for z in subnodes(mismatch)} & {"Continue"}) if mismatch is not None else []
            R.violated("R20-b", "common-prefix", "the loop that counts shared components does not stop at the first mismatch (%s): later coincidental "
                       "matches are counted as shared prefix — `/a/x/c/f` vs `/a/y/c/g` counts 2 and yields a path into the wrong directory"
                       % ("it `continue`s" if kinds else "the mismatch branch falls through"), loc=loc)


def _plain_local(e):
    while e.get("k") in ("DropTemps", "Use", "Paren", "AddrOf", "Unary") and "e" in e:
        if e.get("k") == "Unary" and e.get("op") != "Deref":
            return None
        e = e["e"]
    if e.get("k") == "Path" and "local" in e:
        return e["local"]
    return None


def _expr_sig(e):
    out = []
    for y in subnodes(e):
        k = y.get("k")
        if k == "Path" and "local" in y:
            out.append("L%s" % y["local"])
        elif k == "Lit":
            out.append("lit:%r" % (y.get("v"),))
        elif k == "Binary":
            out.append("op:" + y.get("op", "?"))
        elif k in ("Call", "MethodCall"):
            out.append("call:" + short(call_name(y) or "?"))
    return " ".join(out)


_COARSE = ("eq_ignore_ascii_case", "to_lowercase", "to_uppercase", "to_ascii_lowercase", "to_ascii_uppercase", "to_string_lossy", "trim", "trim_end_matches",
           "trim_start_matches", "starts_with", "ends_with", "file_stem", "len")


def _coarse_equality(P, clo):
    """name of a case-folding / lossy operation applied on the way to the comparison of the two components (in the predicate or in a
    workspace helper it calls), or None"""
    if clo is None:
        return None
    todo, seen = [clo], set()
    while todo:
        e = todo.pop()
        for y in subnodes(e):
            if y.get("k") in ("Call", "MethodCall"):
                cn = call_name(y) or ""
                last = cn.split("::")[-1]
                if last in _COARSE:
                    return last
                if cn in P.fns and cn not in seen and not P.fns[cn].derived:
                    seen.add(cn)
                    todo.append(P.fns[cn].body)
    return None


def _pred_kind(clo):
    """'Eq' / 'Ne' if the closure body is a single (in)equality comparison of its two tuple parts, else None"""
    if clo is None or clo.get("k") != "Closure":
        return None
    e = clo["body"]
    while e.get("k") in ("BlockExpr", "DropTemps", "Use"):
        if e.get("k") == "BlockExpr":
            if e["b"]["stmts"] or "tail" not in e["b"]:
                return None
            e = e["b"]["tail"]
        else:
            e = e["e"]
    if e.get("k") == "Binary" and e.get("op") in ("==", "!="):
        return "Eq" if e["op"] == "==" else "Ne"
    if e.get("k") == "Unary" and e.get("op") == "Not":
        inner = _pred_kind({"k": "Closure", "body": e["e"]})
        return {"Eq": "Ne", "Ne": "Eq"}.get(inner)
    if e.get("k") == "MethodCall" and e["method"] in ("eq", "ne"):
        return "Eq" if e["method"] == "eq" else "Ne"
    return None


def r20c(P, R):
    normalize, _, resolve = _path_fns(P)
    resolve_mir_path = resolve.path
    norms = _normalisers(P) | {normalize.path}
    resolve = inlined(P, resolve, pred=lambda g: g.path not in norms)
    pv, names = _params(resolve)
    if len(names) != 2 or None in names:
        R.undecided("R20-c", "params", "parameters destructured", loc=resolve.loc())
        return
    p_file, p_rel = names
    loc = resolve.loc()
    nname = normalize.path.split("::")[-1]
    # the returned value is the normalised join
    rets = [n["e"] for n in resolve.walk() if n.get("k") == "Ret" and "e" in n]
    body = resolve.body
    tail = body["b"].get("tail") if body.get("k") == "BlockExpr" else body
    if tail is not None:
        rets.append(tail)
    R.floor("R20-c", "return expressions of resolve_relative_path", len(rets), 1)
    for j, e in enumerate(rets):
        a = pv.deep_atoms(e)
        R.check("R20-c", "normalised-result#%d" % j, has_call(a, nname) or _normalised(P, a),
                "the resolved path is normalised", "resolve_relative_path returns a path that did not pass through %s: `dir/../x` and `x` are "
                "different keys for the import resolver's visited set and for file look-up" % nname, loc=loc)
    # the file name of from_file is dropped before the relative path is appended
    drops = [x for x in resolve.walk() if x.get("k") == "MethodCall" and x["method"] in DROP_LAST and "Path" in (norm(x.get("recv_ty")) or "")]
    d_file = [x for x in drops if ("param", p_file) in pv.atoms(x["recv"])]
    d_rel = [x for x in drops if ("param", p_rel) in pv.atoms(x["recv"]) and ("param", p_file) not in pv.atoms(x["recv"])]
    if d_rel:
        R.violated("R20-c", "relative-to-directory", "resolve_relative_path drops the last component of the *relative* path", loc=loc)
    elif d_file:
        R.holds("R20-c", "relative-to-directory", "the relative path is applied to the directory of the importing file")
    else:
        R.violated("R20-c", "relative-to-directory", "resolve_relative_path appends the relative path to the importing *file* path (no "
                   "pop/parent): `/a/main.graphql` + `./f` resolves below `main.graphql`", loc=loc)
    # `PathBuf::pop` is textual: cancelling a `..` of the relative path against the un-normalised base removes whatever component
    # happens to be last (possibly another `..`).  Only normalize_path's component stack may cancel `..`.
    textual = []
    for m in _component_matches(resolve):
        i = first_match(m, "ParentDir")
        if i is None:
            continue
        for y in subnodes(m["arms"][i]["body"]):
            if y.get("k") == "MethodCall" and y["method"] in ("pop", "parent") and "Path" in (norm(y.get("recv_ty")) or ""):
                if not has_call(pv.atoms(y["recv"]), nname):
                    textual.append(y["method"])
    R.check("R20-c", "no-textual-parent-cancelling", not textual, "`..` is cancelled only by normalize_path's component stack",
            "resolve_relative_path handles a `..` of the relative path with PathBuf::%s on a base that was not normalised: `/p/app/../shared/m.graphql` + "
            "`../../c/f` cancels the base's own `..` and lands in `/p/app/c/f` instead of `/c/f`" % (textual[0] if textual else "pop"), loc=loc)
    joins = [x for x in resolve.walk() if x.get("k") == "MethodCall" and x["method"] in ("push", "join", "extend") and "Path" in (norm(x.get("recv_ty")) or "")]
    if joins:
        ok = any(("param", p_rel) in pv.atoms(x["args"][0]) and ("param", p_file) in pv.atoms(x["recv"]) for x in joins)
        swapped = any(("param", p_file) in pv.atoms(x["args"][0]) and ("param", p_rel) in pv.atoms(x["recv"]) and ("param", p_file) not in pv.atoms(x["recv"]) for x in joins)
        if swapped and not ok:
            R.violated("R20-c", "join-order", "the importing file's directory is appended to the relative path (operands swapped)", loc=loc)
        elif ok:
            R.holds("R20-c", "join-order", "directory first, relative path appended")
        else:
            R.undecided("R20-c", "join-order", "join operands not recognised", loc=loc)
        # ordering: the drop happens before the append (MIR dominance)
        from mirq import MirQ
        mir = P.mir.get(resolve_mir_path)
        if mir is not None and d_file:
            mq = MirQ(mir)
            pops = mq.calls_to(lambda p: p.endswith("PathBuf::pop"))
            pushes = mq.calls_to(lambda p: p.endswith("PathBuf::push"))
            if pops and pushes:
                R.check("R20-c", "drop-before-append", all(any(mq.dominates(a, b) for a in pops) for b in pushes),
                        "the file name is dropped before the relative path is appended",
                        "the relative path is appended before the file name is dropped: the pop removes the last component of the "
                        "*relative* path instead", loc=loc)
    else:
        R.undecided("R20-c", "join-order", "no push/join found", loc=loc)


TS_TABLE = {".d.ts": ".js", ".d.cts": ".cjs", ".d.mts": ".mjs", ".ts": ".js", ".tsx": ".js", ".cts": ".cjs", ".mts": ".mjs"}


def r20d(P, R):
    normalize, relative, resolve = _path_fns(P)
    # ---- every use of relative_path outside nitrogql_utils: (file the path is written into, target)
    sites = []
    for f in P.fns.values():
        if f.path.startswith(UT) or f.derived or "::tests::" in f.path or "::test::" in f.path:
            continue
        for i, (n, _) in enumerate(f.nodes()):
            if n.get("k") == "Call" and call_name(n) == relative.path and len(n["args"]) == 2:
                sites.append((f, i, n))
    R.floor("R20-d", "relative_path call sites", len(sites), 3)
    R.count("relative_path_call_sites", len(sites))
    for f, i, n in sites:
        owner = f
        # closures carry their parent's path; atoms are taken in the enclosing function
        pv = Prov(owner)
        a0, a1 = pv.atoms(n["args"][0]), pv.atoms(n["args"][1])
        key = short(owner.path)
        if owner.path.endswith("print_source_map_json"):
            names = [pv.params.get(p.get("local")) for p in owner.params if p.get("k") == "Binding"]
            p_file, p_srcs = names[0], names[1]
            ok = ("param", p_file) in a0 and ("param", p_srcs) in a1 and ("param", p_srcs) not in a0
            sw = ("param", p_srcs) in a0 and ("param", p_file) in a1 and ("param", p_file) not in a0
            if ok:
                R.holds("R20-d", "roles:" + key, "`sources` are computed relative to the generated file")
            elif sw:
                R.violated("R20-d", "roles:" + key, "print_source_map_json calls relative_path(source, generated file): every `sources` entry "
                           "is the path from the GraphQL file to the output, not from the map to the GraphQL file", loc=owner.loc())
            else:
                R.undecided("R20-d", "roles:" + key, "argument roles not recognised", loc=owner.loc())
            # the list is mapped completely and in order (indices in the mappings refer to positions)
            par = owner.parents_of(i)
            lossy = [p["method"] for p in par if p.get("k") == "MethodCall" and p["method"] in LOSSY_OR_REORDERING]
            R.check("R20-d", "sources-complete", not lossy, "every source file gets an entry, in index order",
                    "the `sources` list is built through %s: source indices in the mappings no longer match" % lossy, loc=owner.loc())
        else:
            # CLI: the specifier of the schema module, written into an operation / resolver declaration file
            t0 = _names_in(a0)
            t1 = _names_in(a1)
            schema0 = any("schema_output" in x for x in t0)
            schema1 = any("schema_output" in x for x in t1)
            if schema1 and not schema0:
                R.holds("R20-d", "roles:%s#%d" % (key, sum(1 for s in sites[:sites.index((f, i, n))] if s[0] is f)),
                        "the schema specifier is computed from the declaration file to the schema output")
            elif schema0 and not schema1:
                R.violated("R20-d", "roles:%s#%d" % (key, sum(1 for s in sites[:sites.index((f, i, n))] if s[0] is f)),
                           "relative_path(schema output, declaration file): the import specifier written into the declaration file is the "
                           "path *from the schema* to the declaration, which resolves to the wrong file whenever the two are not siblings", loc=owner.loc())
            else:
                R.undecided("R20-d", "roles:%s#%d" % (key, sum(1 for s in sites[:sites.index((f, i, n))] if s[0] is f)),
                            "argument roles not recognised (%s | %s)" % (sorted(t0)[:4], sorted(t1)[:4]), loc=owner.loc())
            # the extension rewrite (the function that reads the extension table) is applied to the relative path
            idxk = sum(1 for s_ in sites[:sites.index((f, i, n))] if s_[0] is f)
            rewriters = _ext_rewriters(P)
            if not rewriters:
                R.undecided("R20-d", "ts-extension:%s#%d" % (key, idxk), "the function applying the TS->JS extension table was not identified", loc=owner.loc())
            else:
                applied = False
                for c in owner.walk():
                    if c.get("k") in ("Call", "MethodCall") and call_name(c) in rewriters:
                        args = ([c["recv"]] if c.get("k") == "MethodCall" else []) + c["args"]
                        if any(has_call(pv.atoms(a), relative.path.split("::")[-1]) for a in args):
                            applied = True
                escapes = "PathBuf" in (owner.sig_output or "")
                if applied:
                    R.holds("R20-d", "ts-extension:%s#%d" % (key, idxk), "the TS->JS extension rewrite is applied to the specifier")
                elif escapes:
                    R.undecided("R20-d", "ts-extension:%s#%d" % (key, idxk), "the relative path is returned to the caller; rewrite not traced", loc=owner.loc())
                else:
                    R.violated("R20-d", "ts-extension:%s#%d" % (key, idxk), "the schema specifier is written without the TS->JS extension rewrite "
                               "(`./schema.d.ts` is not importable)", loc=owner.loc())
    # ---- no consumer calls a path function that skips normalisation: every function of nitrogql_utils that compares or reverses
    # raw `components()` of a parameter requires normalised input; outside callers cannot guarantee that (`root.join("../x")`)
    raw_fns = {}
    for f in P.fns.values():
        if not f.path.startswith(UT) or f.kind not in ("Fn", "AssocFn") or f.derived or "::test" in f.path or f.path == normalize.path:
            continue
        if not (f.sig_output or "").endswith("std::path::PathBuf") or not f.pub:
            continue
        fpv = Prov(f)
        pnames = {fpv.params.get(p.get("local")) for p in f.params if p.get("k") == "Binding"}
        raw = [c for c in f.walk() if c.get("k") == "MethodCall" and c["method"] == "components"
               and any(a[0] == "param" and a[1] in pnames for a in fpv.atoms(c["recv"])) and not has_call(fpv.atoms(c["recv"]), normalize.path.split("::")[-1])]
        ups = any(y.get("k") == "Path" and norm(y.get("def") or "").endswith("Component::ParentDir") and y.get("dk", "").startswith("Ctor") for y in f.walk())
        if raw and ups:
            raw_fns[f.path] = f
    for f in P.fns.values():
        if f.path.startswith(UT) or f.derived or "::tests::" in f.path:
            continue
        for n in f.walk():
            if n.get("k") == "Call" and call_name(n) in raw_fns:
                R.violated("R20-d", "normalised-consumer:%s" % short(f.path), "%s calls %s, which takes the components of its arguments as they are "
                           "(no normalize_path): a configured output such as `../server/out.d.ts` joined onto the root keeps its `..`, each of "
                           "which is then counted as a directory to climb out of, and the import specifier points at the wrong file"
                           % (f.path, short(call_name(n))), loc=f.loc())
    if not raw_fns:
        R.holds("R20-d", "normalised-consumer", "every public path function normalises its inputs itself")
    # ---- the specifier is computed for *each* declaration file: inside a loop over files, the computation must not sit under a
    # condition on state carried from earlier iterations (a hand-rolled per-directory cache serves one file another file's path)
    spec_fns = {relative.path}
    for f in P.fns.values():
        if f.path.startswith("nitrogql_cli::") and f.kind in ("Fn", "AssocFn") and not f.derived and relative.path in P.reachable([f]) and f.path != "nitrogql_cli::generate::run_generate":
            if any(call_name(n) == relative.path for n in f.walk() if n.get("k") == "Call") or len(P.callees_of(f)[0]) < 12:
                spec_fns.add(f.path)
    from templates import guards_of
    for f in P.fns.values():
        if not f.path.startswith("nitrogql_cli::") or f.derived or "::tests" in f.path:
            continue
        nodes = f.nodes()
        for i, (n, par) in enumerate(nodes):
            if not (n.get("k") == "Call" and call_name(n) in spec_fns and call_name(n) != f.path):
                continue
            # nearest enclosing loop; a closure handed to a lazy initialiser (`cell.get_or_insert_with(|| ..)`, `get_or_init`,
            # `entry(k).or_insert_with`) runs only when the cell is still empty: the cell is the guard
            loop, p, lazy, child = None, par, [], i
            while p >= 0:
                if nodes[p][0].get("k") == "Loop":
                    loop = nodes[p][0]
                    break
                if nodes[p][0].get("k") == "Closure":
                    q = nodes[p][1]
                    host = nodes[q][0] if q >= 0 else {}
                    if host.get("k") == "MethodCall" and host.get("method") in _LAZY_INIT and any(a is nodes[p][0] for a in host.get("args", [])):
                        lazy.append(host)
                    else:
                        break
                child, p = p, nodes[p][1]
            if loop is None:
                continue
            inside = {id(y) for y in subnodes(loop)}
            carried = {y["local"] for y in f.walk() if y.get("k") == "Binding" and "Mut" in str(y.get("mode", "")) and id(y) not in inside}
            outer = {y["local"] for y in f.walk() if y.get("k") == "Binding" and id(y) not in inside}
            bad = []
            lazy_undecided = False
            for host in lazy:
                root = _root_local(host["recv"])
                if root is None or root not in outer:
                    continue
                if host["method"] in ("or_insert_with", "or_insert_with_key"):
                    lazy_undecided = True       # keyed: whether the key separates the files is not read here
                else:
                    bad.append(sorted(y["name"] for y in f.walk() if y.get("k") == "Binding" and y.get("local") == root)[0])
            for g in guards_of(f, i, stop=loop):
                e = g.get("e")
                if e is None:
                    continue
                used = {y["local"] for y in subnodes(e) if y.get("k") == "Path" and "local" in y}
                if used & carried and g["kind"] in ("cond", "arm", "pat"):
                    bad.append(sorted(y["name"] for y in f.walk() if y.get("k") == "Binding" and y.get("local") in (used & carried))[0])
            key = "per-file:%s" % short(f.path)
            if not bad and lazy_undecided:
                R.undecided("R20-d", key, "the specifier is computed inside a keyed lazy initialiser held outside the loop over files", loc=f.loc())
            elif bad:
                R.violated("R20-d", key, "%s computes the schema import specifier for a file only under a condition on `%s`, state carried over from "
                           "earlier iterations of the loop over files: whenever that condition says 'reuse', the file gets the relative path "
                           "computed for another file (another directory)" % (f.path, bad[0]), loc=f.loc())
            else:
                R.holds("R20-d", key, "inside the loop over files the specifier is computed for every file")
    # ---- the specifier is computed for the file that is written: the `from` handed to a specifier function and the path handed to
    # the writer of that output are the same value (a relocation applied to one of them only sends the import to the wrong place)
    _specifier_for_written_file(P, R, relative, spec_fns)
    # ---- the extension table
    tbl = _ext_table(P)
    if tbl is None:
        R.undecided("R20-d", "ext-table", "the TS->JS extension table was not found as a static", loc=None)
    else:
        rows = []
        for t in subnodes(tbl.body):
            if t.get("k") == "Tup" and len(t.get("es", [])) == 2:
                l, r = lit_value(t["es"][0]), lit_value(t["es"][1])
                if isinstance(l, str) and isinstance(r, str):
                    rows.append((l, r))
        R.floor("R20-d", "rows of the TS->JS extension table", len(rows), 7)
        R.count("ext_table_rows", len(rows))
        for j, (l, r) in enumerate(rows):
            shadow = [rows[i][0] for i in range(j) if l.endswith(rows[i][0]) and rows[i][1] != r or (l.endswith(rows[i][0]) and l != rows[i][0] and len(rows[i][0]) < len(l))]
            R.check("R20-d", "ext-table:first-match:" + l, not shadow, "`%s` is not shadowed by an earlier, shorter suffix" % l,
                    "row `%s` of the extension table is unreachable or pre-empted: an earlier row %s also matches every file name ending "
                    "in `%s` (first match wins), so `schema%s` is rewritten with the wrong rule" % (l, shadow, l, l), loc=tbl.loc())
            if l in TS_TABLE:
                R.check("R20-d", "ext-table:row:" + l, TS_TABLE[l] == r, "`%s` -> `%s`" % (l, r),
                        "extension `%s` is rewritten to `%s`; TypeScript's output extension for it is `%s`" % (l, r, TS_TABLE[l]), loc=tbl.loc())
        missing = sorted(set(TS_TABLE) - {l for l, _ in rows})
        R.check("R20-d", "ext-table:complete", not missing, "all TypeScript source extensions are covered",
                "the extension table lacks %s" % missing, loc=tbl.loc())
    # ---- resolve_relative_path users resolve relative to the *importing* file
    users = []
    for f in P.fns.values():
        if f.path.startswith(UT) or f.derived or "::tests::" in f.path:
            continue
        for n in f.walk():
            if n.get("k") == "Call" and call_name(n) == resolve.path and len(n["args"]) == 2:
                users.append((f, n))
    R.floor("R20-d", "resolve_relative_path call sites", len(users), 2)
    for f, n in users:
        pv = Prov(f)
        a0, a1 = pv.atoms(n["args"][0]), pv.atoms(n["args"][1])
        lit_path = any(x[0] == "field" and x[2] in ("path", "value") for x in a1) or any(x[0] == "param" for x in a1)
        file_like = any(x[0] == "param" for x in a0)
        cross = any(x[0] == "field" and x[1].endswith("Import") and x[2] == "path" for x in a0)
        if cross:
            R.violated("R20-d", "resolve-roles:" + short(f.path), "resolve_relative_path(import path, file): arguments swapped", loc=f.loc())
        elif file_like and lit_path:
            R.holds("R20-d", "resolve-roles:" + short(f.path), "import paths are resolved against the importing file")
        else:
            R.undecided("R20-d", "resolve-roles:" + short(f.path), "argument roles not recognised", loc=f.loc())


def _ext_table(P):
    """the TS->JS extension table: a static/const of nitrogql_cli whose initialiser pairs string literals including ".d.ts"""""
    hits = []
    for p, f in P.fns.items():
        if not p.startswith("nitrogql_cli::") or not (f.kind.startswith("Static") or f.kind.startswith("Const")):
            continue
        pairs = [t for t in subnodes(f.body) if t.get("k") == "Tup" and len(t.get("es", [])) == 2]
        if any(lit_value(t["es"][0]) == ".d.ts" for t in pairs):
            hits.append(f)
    return hits[0] if len(hits) == 1 else None


def _ext_rewriters(P):
    tbl = _ext_table(P)
    if tbl is None:
        return set()
    out = set()
    for p, f in P.fns.items():
        if p.startswith("nitrogql_cli::") and f.kind in ("Fn", "AssocFn") and not f.derived:
            if any(y.get("k") == "Path" and norm(y.get("def") or "") == tbl.path for y in f.walk()):
                out.add(p)
    return out


def _names_in(atoms):
    out = set()
    for a in atoms:
        if a[0] == "param":
            out.add("param:" + str(a[1]))
        elif a[0] == "field":
            out.add("field:" + str(a[2]))
        elif a[0] == "local":
            out.add("local:" + str(a[1]))
    return out


RULES = [("R20-a", r20a), ("R20-b", r20b), ("R20-c", r20c), ("R20-d", r20d)]
EXPLANATION = (
    "Structural necessary conditions of the path laws, decided from the typed HIR: (R20-a) normalize_path's per-Component action "
    "table — `.` contributes nothing, `..` removes the previous component, names are pushed, root/prefix restart the stack — "
    "evaluated with first-match semantics over the five variants, the pushed component is the matched one, the input is walked and "
    "the result rebuilt without a lossy or reordering adaptor; (R20-b) relative_path normalises both inputs, drops the file name "
    "of `from` only, measures a common prefix by equality from the first component, removes the same count from both sides, maps "
    "each remaining `from` directory to `..`, emits ups before the remainder of `to`, and adds `./` at index 0 exactly when the "
    "first component is neither `.` nor `..`; (R20-c) resolve_relative_path returns normalize(dir(file) + relative) with the drop "
    "dominating the append (MIR); (R20-d) every consumer passes (file the path is written into, target) in that order, the TS->JS "
    "extension rewrite wraps the schema specifier, the extension table has no shadowed row under first-match and equals "
    "TypeScript's table. NOT decided: resolve(a, relative(a,b)) = normalize(b) and idempotence as laws over all path strings "
    "(they need evaluation or a solver); std::path's own parsing of rebuilt buffers.")
ASSUMPTIONS = ["std::path::Path::components / PathBuf::push / pop semantics", "host path syntax (unix) as analysed by the driver"]


def main(tier):
    return harness.run_property("C20", RULES, "other", EXPLANATION, ASSUMPTIONS, tier)
