"""C13 — `#import` resolution brings in every requested fragment, transitively, once."""
import harness
from facts import norm, call_name, short, subnodes, matches_on, arm_variants, lit_value
from prov import Prov, has_field, has_call
from mirq import MirQ, func_path
from templates import enclosing_contexts, LOSSY_OR_REORDERING

SEM = "nitrogql_semantics::"
HS = "std::collections::hash::set::HashSet"


def anchors(P):
    """anchored by signature: the traversal takes &mut HashSet<PathBuf> and &mut Vec<ExecutableDefinition>"""
    recs = [f for f in P.fns.values() if f.path.startswith(SEM) and any("HashSet<std::path::PathBuf>" in t for t in f.sig_inputs)
            and any("Vec<nitrogql_ast::operation::ExecutableDefinition>" in t for t in f.sig_inputs)]
    from facts import AnchorMissing
    if len(recs) != 1:
        raise AnchorMissing("import traversal (fn taking &mut HashSet<PathBuf> and &mut Vec<ExecutableDefinition>): %d candidates" % len(recs))
    rec = recs[0]
    entries = [f for f in P.fns.values() if f.path.startswith(SEM) and rec.path in P.callees_of(f)[0] and f.path != rec.path]
    if len(entries) != 1:
        raise AnchorMissing("entry point calling %s: %s" % (rec.path, [e.path for e in entries]))
    return entries[0], rec


def r13a(P, R):
    entry, rec = anchors(P)
    mq = MirQ(P.mir[rec.path])
    rec_calls = mq.calls_to(lambda p: p == rec.path)
    R.floor("R13-a", "recursive calls", len(rec_calls), 1)
    contains = mq.calls_to(lambda p: p == HS + "::contains")
    inserts = mq.calls_to(lambda p: p == HS + "::insert")
    for rc in rec_calls:
        ok_c = any(mq.dominates(c, rc) for c in contains)
        ok_i = any(mq.dominates(i, rc) for i in inserts)
        R.check("R13-a", "guard:contains", ok_c, "the recursive call is dominated by visited.contains(..)",
                "the recursive import traversal is not guarded by a visited-check: an import cycle does not terminate", loc=rec.loc())
        R.check("R13-a", "guard:insert", ok_i, "the recursive call is dominated by visited.insert(..)",
                "the file is not marked visited before the traversal descends into it", loc=rec.loc())
    # the contains-check actually skips: its true edge does not reach the recursive call
    pv = Prov(rec)
    skip_ok = False
    for i, (n, _) in enumerate(rec.nodes()):
        if n.get("k") == "If" and any((call_name(x) or "") == HS + "::contains" for x in subnodes(n["cond"])):
            neg = any(x.get("k") == "Unary" and x.get("op") == "Not" for x in subnodes(n["cond"]))
            branch = n.get("else") if neg else n["then"]
            if branch is not None:
                kinds = [x.get("k") for x in subnodes(branch)]
                if ("Continue" in kinds or "Ret" in kinds) and not any(call_name(x) == rec.path for x in subnodes(branch) if x.get("k") == "Call"):
                    skip_ok = True
    R.check("R13-a", "guard:skips", skip_ok, "a visited file is skipped", "the visited-check does not skip already visited files", loc=rec.loc())
    # visited only grows: the only methods applied to it are contains/insert
    ops = set()
    for n in rec.walk():
        if n.get("k") == "MethodCall" and HS in norm(n.get("recv_ty", "")):
            ops.add(n["method"])
    for n in entry.walk():
        if n.get("k") == "MethodCall" and HS in norm(n.get("recv_ty", "")):
            ops.add(n["method"])
    R.check("R13-a", "visited-monotone", ops <= {"contains", "insert"},
            "the visited set only grows (contains/insert)",
            "the visited set is also modified by %s: a file reached through two paths is expanded twice (duplicate definitions)"
            % sorted(ops - {"contains", "insert"}), loc=rec.loc())


def r13b(P, R):
    entry, rec = anchors(P)
    pv = Prov(rec)
    n = 0
    for c in rec.walk():
        if c.get("k") != "MethodCall":
            continue
        cn = call_name(c) or ""
        if cn in (HS + "::contains", HS + "::insert") or cn.endswith("OperationResolver::resolve"):
            n += 1
            a = pv.atoms(c["args"][0])
            ok = has_call(a, "relative_path::resolve_relative_path")
            R.check("R13-b", "key:%s" % c["method"], ok, "`%s` is keyed by the normalised resolved path" % c["method"],
                    "`%s` in the import traversal is not keyed by resolve_relative_path(..): differently spelled paths to one "
                    "file are treated as different files" % c["method"], loc=rec.loc())
    R.floor("R13-b", "keyed operations", n, 3)
    # the resolved path is computed from the importing document's path and the import's own path string
    calls = [c for c in rec.walk() if c.get("k") == "Call" and (call_name(c) or "").endswith("resolve_relative_path")]
    R.floor("R13-b", "resolve_relative_path calls", len(calls), 1)
    for c in calls:
        a0, a1 = pv.atoms(c["args"][0]), pv.atoms(c["args"][1])
        ok = ("param", "document") in a0 and has_field(a1, SEM + "operation_extension_resolver::operation_extension::Import", "path")
        R.check("R13-b", "relative-to-importer", ok, "import paths are resolved relative to the importing file",
                "resolve_relative_path is not called with (importing file, import.path)", loc=rec.loc())
    # the recursive call passes the imported file's own path and document
    for c in rec.walk():
        if c.get("k") == "Call" and call_name(c) == rec.path:
            a = pv.atoms(c["args"][0])
            ok = has_call(a, "resolve_relative_path") and has_call(a, "OperationResolver::resolve")
            R.check("R13-b", "recursion-root", ok, "recursion continues from the imported file (its path and its document)",
                    "the recursive call is not rooted at the imported file", loc=rec.loc())


def r13c(P, R):
    entry, rec = anchors(P)
    IMPORT = SEM + "operation_extension_resolver::operation_extension::Import"
    pv = Prov(rec)
    # TARGETS ON EVERY PATH: the skip branch of the visited check must not ignore import.targets
    for i, (n, _) in enumerate(rec.nodes()):
        if n.get("k") == "If" and any((call_name(x) or "") == HS + "::contains" for x in subnodes(n["cond"])):
            branch = n["then"]
            reads = has_field(pv.atoms(branch), IMPORT, "targets")
            skips = any(x.get("k") in ("Continue", "Ret") for x in subnodes(branch))
            R.check("R13-c", "visited-skip-reads-targets", reads or not skips,
                    "the requested names are honoured for an already visited file",
                    "when the target file is already visited the loop `continue`s without reading import.targets: a second import "
                    "of the same file with other names contributes nothing (diamond: main imports F from y and A from x; y imports B from x => A is lost)",
                    loc=rec.loc())
    # both target kinds handled
    ms = [m for m in matches_on(rec, "ImportTargets") if not m.get("x")]
    R.floor("R13-c", "matches over ImportTargets", len(ms), 1)
    for m in ms:
        v, catch = arm_variants(m)
        R.check("R13-c", "targets-kinds", v == {"Wildcard", "Specific"} and not catch, "wildcard and specific imports handled",
                "import targets handled: %s" % sorted(v), loc=rec.loc())
        for arm in m["arms"]:
            av, _ = arm_variants({"arms": [arm]})
            body_atoms = pv.atoms(arm["body"])
            # only fragments are imported
            filt = [x for x in subnodes(arm["body"]) if x.get("k") == "MethodCall" and x["method"] == "filter"]
            frag_only = any(any("FragmentDefinition" in norm(p.get("def") or p.get("ctor_of") or "") for p in subnodes(f["args"][0])) for f in filt)
            R.check("R13-c", "fragments-only:%s" % sorted(av)[0], bool(filt) and frag_only, "only fragment definitions are imported",
                    "the %s arm does not restrict imports to fragment definitions" % sorted(av)[0], loc=rec.loc())
            adds = [x for x in subnodes(arm["body"]) if x.get("k") == "MethodCall" and x["method"] in ("extend", "push")
                    and "ExecutableDefinition" in norm(x.get("recv_ty", ""))]
            R.check("R13-c", "appends:%s" % sorted(av)[0], len(adds) >= 1, "imported fragments are appended to the definitions",
                    "the %s arm does not append to the definitions" % sorted(av)[0], loc=rec.loc())
            if "Specific" in av:
                # name filter compares target.name with def.name.name
                ok = has_field(body_atoms, "nitrogql_ast::operation::FragmentDefinition", "name") and has_field(body_atoms, "nitrogql_ast::base::Ident", "name")
                R.check("R13-c", "specific-by-name", ok, "specific imports are selected by fragment name", "specific imports are not selected by name", loc=rec.loc())
                errs = [x for x in subnodes(arm["body"]) if x.get("k") == "Struct" and "rest" not in x and norm(x.get("variant", "")).endswith("FragmentNotFound")]
                R.check("R13-c", "missing-name-error", len(errs) == 1, "a missing fragment name is reported", "no FragmentNotFound diagnostic", loc=rec.loc())
    # FragmentNotFound is decided against the imported file's own definitions, not against what has been collected so far
    nf = [(i, x) for i, (x, _) in enumerate(rec.nodes()) if x.get("k") == "Struct" and "rest" not in x and norm(x.get("variant", "")).endswith("FragmentNotFound")]
    defs_param = pv.params.get([p for p, t in zip(rec.params, rec.sig_inputs) if "Vec<nitrogql_ast::operation::ExecutableDefinition>" in t][0].get("local"))
    for i, x in nf:
        guards = [c for c in enclosing_contexts(rec, i) if c[0] in ("if-then", "arm", "let-else")]
        g = guards[0] if guards else None
        ge = None if g is None else (g[1]["cond"] if g[0] == "if-then" else (g[1]["scrut"] if g[0] == "arm" else g[1].get("init")))
        a = pv.atoms(ge) if ge is not None else frozenset()
        ok = has_call(a, "OperationResolver::resolve") and has_field(a, "nitrogql_ast::operation::OperationDocument", "definitions") and ("param", defs_param) not in a
        R.check("R13-c", "missing-name-source", ok, "a requested name is missing iff the imported file does not define it",
                "FragmentNotFound is decided by looking into %s: a name the target file does not define is accepted whenever a same-named "
                "fragment was already collected from elsewhere (and the verdict depends on the order of the import lines)"
                % ("the accumulated `definitions`" if ("param", defs_param) in a else "something other than the imported document"), loc=rec.loc())
    # each definition is appended at most once: appends happen only on the first visit of a file (the skip test is exactly
    # `visited.contains(path)`), unless they are individually guarded by a membership test
    for i, (n, _) in enumerate(rec.nodes()):
        if n.get("k") == "If" and any((call_name(x) or "") == HS + "::contains" for x in subnodes(n["cond"])):
            cond = n["cond"]
            while cond.get("k") in ("DropTemps", "Paren"):
                cond = cond["e"]
            exact = cond.get("k") == "MethodCall" and (call_name(cond) or "") == HS + "::contains"
            if not exact:
                adds = [(j, x) for j, (x, _) in enumerate(rec.nodes()) if x.get("k") == "MethodCall" and x["method"] in ("extend", "push")
                        and "ExecutableDefinition" in norm(x.get("recv_ty", ""))]
                unguarded = []
                for j, x in adds:
                    conds = [c[1]["cond"] for c in enclosing_contexts(rec, j) if c[0] in ("if-then", "if-else")]
                    conds += [y["args"][0] for y in subnodes(x) if y.get("k") == "MethodCall" and y["method"] == "filter"]
                    if not any(("param", defs_param) in pv.atoms(c) for c in conds):
                        unguarded.append(x["method"])
                R.check("R13-c", "append-once", not unguarded, "appends are individually de-duplicated",
                        "the visited-skip is weakened to `%s`-with-extra-conditions, so the appends (%s) also run for a file that was already "
                        "visited, with no per-definition membership test: its fragments are appended a second time"
                        % ("contains", unguarded), loc=rec.loc())
            else:
                R.holds("R13-c", "append-once", "appends run only on the first visit of a file (skip test is exactly visited.contains)")
    # error for a dangling file
    errs = [(i, x) for i, (x, _) in enumerate(rec.nodes()) if x.get("k") == "Struct" and "rest" not in x and norm(x.get("variant", "")).endswith("FileNotFound")]
    ok = False
    for i, x in errs:
        for ctx in enclosing_contexts(rec, i):
            if ctx[0] == "let-else" and has_call(pv.atoms(ctx[1].get("init")), "OperationResolver::resolve"):
                ok = True
    R.check("R13-c", "dangling-file-error", ok, "FileNotFound exactly when the resolver does not know the file",
            "FileNotFound is not tied to the resolver returning None", loc=rec.loc())
    # positions of both diagnostics come from the import statement
    for x in [x for _, x in errs]:
        pos = [f for f in x["fields"] if f["name"] == "position"]
        ok = bool(pos) and has_field(pv.atoms(pos[0]["e"]), "nitrogql_ast::value::StringValue", "position")
        R.check("R13-c", "file-error-position", ok, "FileNotFound is positioned at the import path", "FileNotFound carries another position", loc=rec.loc())


def r13d(P, R):
    entry, rec = anchors(P)
    pv = Prov(entry)
    inserts = [c for c in entry.walk() if c.get("k") == "MethodCall" and (call_name(c) or "") == HS + "::insert"]
    ok = any(("param", "document") in pv.atoms(c["args"][0]) for c in inserts)
    R.check("R13-d", "root-visited", ok, "the root file is marked visited before the traversal",
            "%s does not insert the root document's own path into `visited`: an import cycle leading back to the root appends the "
            "root's own fragments a second time (duplicate definitions => check rejects a valid project)" % entry.path, loc=entry.loc())
    # result = own definitions ++ imported, position preserved
    docs = [x for x in entry.walk() if x.get("k") == "Struct" and "rest" not in x and norm(x.get("adt", "")).endswith("OperationDocument")]
    R.floor("R13-d", "result document", len(docs), 1)
    for d in docs:
        a = pv.atoms(d)
        ok = has_field(a, "nitrogql_ast::operation::OperationDocument", "definitions") and has_field(a, "nitrogql_ast::operation::OperationDocument", "position")
        R.check("R13-d", "own-definitions-first", ok, "the result starts from the file's own definitions and keeps its position",
                "the result document is not built from the root's definitions/position", loc=entry.loc())
    bad = [c["method"] for f in (entry, rec) for c in f.walk() if c.get("k") == "MethodCall" and c["method"] in
           (LOSSY_OR_REORDERING - {"filter"}) and "ExecutableDefinition" in norm(c.get("recv_ty", ""))]
    R.check("R13-d", "no-dedup-hacks", not bad, "definitions are never removed/reordered after being appended",
            "definitions list is post-processed with %s" % bad, loc=rec.loc())


def r13e(P, R):
    """import lines for one path are merged, whatever lies between them; wildcard/specific exclusivity table"""
    f = P.fn(SEM + "operation_extension_resolver::resolve_operation_extensions")
    pv = Prov(f)
    # the lookup of an existing entry must scan the whole list
    removes = [c for c in f.walk() if c.get("k") == "MethodCall" and c["method"] == "remove" and "Import" in norm(c.get("recv_ty", ""))]
    R.floor("R13-e", "existing-entry removal", len(removes), 1)
    for c in removes:
        a = pv.atoms(c["args"][0])
        scans = any(x[0] == "call" and (x[1].endswith("::position") or x[1].endswith("::find") or x[1].endswith("::rposition")
                                        or x[1].endswith("Iterator::any") or "hash::map::HashMap" in x[1]) for x in a)
        iterates = any(x[0] == "call" and (x[1].endswith("slice::iter") or x[1].endswith("::iter") or x[1].endswith("into_iter")) for x in a)
        trunc = any(x[0] == "call" and x[1].split("::")[-1] in ("last", "first", "checked_sub", "len", "take", "skip", "nth", "rev") for x in a)
        R.check("R13-e", "merge-scans-all", scans and iterates and not trunc,
                "an earlier import of the same path is searched among all collected imports",
                "the index of the import entry to merge with is not found by scanning all collected imports (position/find over "
                "imports.iter()): non-adjacent import lines for one file stay separate and the later one is dropped as `visited`", loc=f.loc())
        ok = has_field(a, "nitrogql_ast::value::StringValue", "value")
        R.check("R13-e", "merge-by-path", ok, "entries are matched by import path", "entries are not matched by path", loc=f.loc())
        # ... compared as written, or through a transformation that cannot identify two different files
        BENIGN = ("deref", "as_str", "as_ref", "borrow", "eq", "ne", "clone", "to_owned", "to_string", "as_bytes", "iter", "position", "find", "any",
                  "rposition", "into_iter", "next", "Some", "len", "new", "with_capacity", "push")
        LOSSY_KEY = ("trim_start_matches", "trim_end_matches", "trim_matches", "trim_left_matches", "trim_right_matches", "to_lowercase",
                     "to_uppercase", "to_ascii_lowercase", "to_ascii_uppercase", "replace", "replacen", "file_name", "file_stem", "split",
                     "rsplit", "split_once", "rsplit_once", "trim", "trim_start", "trim_end", "get", "chars")
        calls = set()
        todo, seen = [c["args"][0]], set()
        while todo:
            e = todo.pop()
            for y in subnodes(e):
                if y.get("k") in ("Call", "MethodCall"):
                    cn = call_name(y) or ""
                    calls.add(cn)
                    if cn in P.fns and cn not in seen and not P.fns[cn].derived:
                        seen.add(cn)
                        todo.append(P.fns[cn].body)
                if y.get("k") == "Path" and "local" in y and y["local"] not in seen:
                    seen.add(y["local"])
                    todo.extend(src for src, _ in pv.src.get(y["local"], []) if src is not None)
        lossy = sorted(short(cn) for cn in calls if cn.split("::")[-1] in LOSSY_KEY and ("str" in cn or "Path" in cn or "String" in cn))
        other = sorted(short(cn) for cn in calls if cn.split("::")[-1] not in BENIGN and cn.split("::")[-1] not in LOSSY_KEY and cn not in P.fns
                       and not cn.endswith(("Vec<T, A>::remove", "PartialEq::eq")))
        if lossy:
            R.violated("R13-e", "merge-key-injective", "import lines are merged under a key computed with %s: two different paths (e.g. `./f` and "
                       "`../f`) can get the same key, and the names of one line are then looked up in the other line's file" % lossy, loc=f.loc())
        elif other:
            R.undecided("R13-e", "merge-key-injective", "import lines are merged under a transformed path (%s); injectivity not decided" % other, loc=f.loc())
        else:
            R.holds("R13-e", "merge-key-injective", "import lines are merged by the literal path string")
    # exclusivity table
    rows = {}
    for m in f.walk():
        if m.get("k") == "Match" and m.get("src") == "Normal" and m["scrut"].get("k") == "Tup":
            for arm in m["arms"]:
                if arm["pat"].get("k") != "Tuple":
                    continue
                ps = arm["pat"]["ps"]
                key = tuple(norm(p.get("def") or p.get("ctor_of") or "?").split("::")[-1] for p in ps)
                oks = [norm(x.get("def", "")).split("::")[-1] for x in subnodes(arm["body"]) if x.get("k") == "Path" and x.get("dk", "").startswith("Ctor")]
                errs = [norm(x.get("variant", "")).split("::")[-1] for x in subnodes(arm["body"]) if x.get("k") == "Struct" and "rest" not in x and "variant" in x]
                rows[key] = (set(oks), set(errs))
    expect = {
        ("Wildcard", "Wildcard"): "WildcardOnlyOnce",
        ("Wildcard", "Name"): "WildcardCannotBeCombinedWithSpecific",
    }
    R.floor("R13-e", "exclusivity table rows", len(rows), 4)
    for key, err in expect.items():
        got = rows.get(key)
        R.check("R13-e", "table:%s+%s" % key, got is not None and err in got[1] and "Ok" not in got[0],
                "%s then %s is rejected (%s)" % (key[0], key[1], err), "row %s of the wildcard/specific table is %s" % (key, got), loc=f.loc())
    got = rows.get(("Specific", "Name"))
    R.check("R13-e", "table:Specific+Name", got is not None and "Ok" in got[0] and not got[1], "names accumulate", "row (Specific, Name) is %s" % (got,), loc=f.loc())
    got = rows.get(("Specific", "Wildcard"))
    R.check("R13-e", "table:Specific+Wildcard", got is not None and "Ok" in got[0] and "WildcardCannotBeCombinedWithSpecific" in got[1],
            "wildcard after names is rejected, wildcard first is accepted", "row (Specific, Wildcard) is %s" % (got,), loc=f.loc())
    # definitions pass through in order, one push per variant
    ms = matches_on(f, "ExecutableDefinitionExt")
    for m in ms:
        v, catch = arm_variants(m)
        R.check("R13-e", "ext-variants", v == {"OperationDefinition", "FragmentDefinition", "Import"} and not catch,
                "all definition kinds handled", "definition kinds handled: %s" % sorted(v), loc=f.loc())


RULES = [("R13-a", r13a), ("R13-b", r13b), ("R13-c", r13c), ("R13-d", r13d), ("R13-e", r13e)]
EXPLANATION = (
    "Structural necessary conditions of import resolution: (R13-a) the recursive call is dominated by visited.contains and "
    "visited.insert (MIR dominators), the contains-branch skips, and the visited set only grows; (R13-b) contains/insert/resolve "
    "are keyed by resolve_relative_path(importer, import.path) and recursion continues from the imported file; (R13-c) targets "
    "are honoured on every path through the loop, wildcard/specific arms import only fragments by name and append them, dangling "
    "file / missing name produce their positioned diagnostics; (R13-d) the root is marked visited, the result starts from the "
    "root's own definitions; (R13-e) import lines for one path are merged by scanning all collected imports, and the "
    "wildcard/specific exclusivity table has the four expected rows. Not decided: result = reference closure for all graphs.")
ASSUMPTIONS = ["std::collections::HashSet semantics", "nitrogql_utils::resolve_relative_path normalises paths (C20, not claimed)"]


def main(tier):
    return harness.run_property("C13", RULES, "other", EXPLANATION, ASSUMPTIONS, tier)
