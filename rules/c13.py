"""C13 — `#import` resolution brings in every requested fragment, transitively, once.

All rules work on the *role* of the code, not on its spelling: the traversal is the function that takes the accumulated
`&mut Vec<ExecutableDefinition>` and a `&mut` collection of `PathBuf` (whatever set type it is), helpers it calls are seen through
`templates.inlined`, and every condition is read off a normal form of the guards around a site (`guards_of`): `if`, `if let`,
`let … else`, `match` arms, an earlier diverging `if … { continue }`, a closure handed to `ok_or_else`.  A shape that is not
recognised is UNDECIDED; VIOLATED is reserved for positive evidence (an atom that is absent from an over-approximated slice, an
operation that shrinks the visited set, a table row with the wrong outcome).
"""
import harness
from facts import norm, call_name, short, subnodes, arm_variants, lit_value, peel_ty, pat_lits, AnchorMissing
from prov import Prov, has_field, has_call
from mirq import MirQ
from templates import LOSSY_OR_REORDERING, inlined, pat_matches

SEM = "nitrogql_semantics::"
EXDEF = "nitrogql_ast::operation::ExecutableDefinition"

TESTS = ("contains", "contains_key")               # membership test on the visited collection
MARKS = ("insert", "push", "push_back")            # marking a file as visited
SHRINKS = {"remove", "clear", "retain", "drain", "take", "pop", "pop_front", "pop_back", "pop_first", "pop_last", "truncate",
           "swap_remove", "split_off", "extract_if", "dedup", "retain_mut"}
READS = {"contains", "contains_key", "get", "keys", "len", "is_empty", "iter", "get", "extend", "reserve", "clone", "is_subset", "is_superset", "first", "last"}
# in-place operations on a Vec that drop or reorder elements (iterator adaptors do not modify the list they read)
IN_PLACE = {"sort", "sort_by", "sort_by_key", "sort_unstable", "sort_unstable_by", "sort_unstable_by_key", "sort_by_cached_key",
            "reverse", "swap", "swap_remove", "retain", "retain_mut", "truncate", "drain", "remove", "pop", "clear", "rotate_left",
            "rotate_right", "insert", "split_off", "dedup", "dedup_by", "dedup_by_key"}
APPENDS = ("extend", "push", "append", "extend_from_slice")


# ------------------------------------------------------------------------------------------------- generic shape helpers
def strip(e):
    """expression without the wrappers that carry no meaning (temporaries scope, parentheses, trivial blocks)"""
    while e is not None:
        k = e.get("k")
        if k in ("DropTemps", "Paren", "Use") and "e" in e:
            e = e["e"]
        elif k == "BlockExpr" and not e["b"].get("stmts") and "tail" in e["b"]:
            e = e["b"]["tail"]
        elif k in ("Call", "MethodCall") and "inl" in e and strip(e["inl"]["body"]) is not e["inl"]["body"]:
            e = e["inl"]["body"]        # an inlined helper whose body is a single expression stands for that expression
        else:
            break
    return e


def diverges(e):
    """does control never fall out of the end of this expression/block (`continue`, `return`, `break`, `panic!` ...)"""
    if e is None:
        return False
    if e.get("t") == "!":
        return True
    k = e.get("k")
    if k in ("Ret", "Continue", "Break"):
        return True
    if k == "BlockExpr":
        return diverges(e["b"])
    if k == "Block":
        for s in e.get("stmts", []):
            x = s.get("e") if s.get("k") == "Stmt" else None
            if x is not None and diverges(x):
                return True
        return diverges(e.get("tail"))
    if k in ("DropTemps", "Paren", "Use"):
        return diverges(e.get("e"))
    return False


def guards_of(fn, idx, stop=None):
    """Guards under which nodes()[idx] is evaluated, innermost first, up to the function root (or the node `stop`), seen through
    inlined helpers.  Each guard is a dict:
      {"kind": "cond", "e": cond, "truth": bool}           an `if`: inside then (True) / else (False), or *after* an `if` whose
                                                           then-branch diverges (False) / whose else-branch diverges (True)
      {"kind": "pat", "e": init, "pat": pat, "truth": b}   `let pat = init else {..}`: after it (True) or inside the else (False)
      {"kind": "arm", "e": scrut, "pat": pat, "arm": arm, "match": m}    inside the body of a source-level match arm, or after
                                                           a `match` statement all of whose other arms diverge
      {"kind": "arg", "e": receiver, "method": name, "call": node}       inside an argument (value or closure) of receiver.method(..)
    `if let` shows up as kind "cond" with e = LetExpr (see `atomic_facts`)."""
    acc = fn.nodes()
    out = []
    child = idx
    p = acc[idx][1]
    while p >= 0:
        n = acc[p][0]
        c = acc[child][0]
        if stop is not None and c is stop:
            break
        k = n.get("k")
        if k == "Arm":
            pp = acc[p][1]
            while pp >= 0 and acc[pp][0].get("k") != "Match":
                pp = acc[pp][1]
            m = acc[pp][0] if pp >= 0 else None
            if m is not None and _within(n.get("body"), c) and m.get("src") == "Normal":
                out.append({"kind": "arm", "e": m["scrut"], "pat": n["pat"], "arm": n, "match": m})
        elif k == "If":
            if _within(n.get("then"), c):
                out.append({"kind": "cond", "e": n["cond"], "truth": True, "node": n})
            elif "else" in n and _within(n.get("else"), c):
                out.append({"kind": "cond", "e": n["cond"], "truth": False, "node": n})
        elif k == "Let" and "els" in n and _within(n["els"], c):
            out.append({"kind": "pat", "e": n.get("init"), "pat": n["pat"], "truth": False, "node": n})
        elif k == "MethodCall" and any(a is c for a in n["args"]):
            # a value (or closure) handed to a method of the receiver: `recv.ok_or_else(|| ..)`, `recv.ok_or(..)`, `recv.filter(|x| ..)`
            out.append({"kind": "arg", "e": n["recv"], "method": n["method"], "call": n, "closure": c.get("k") == "Closure"})
        elif k == "Block":
            for s in n.get("stmts", []):
                if s is c or _within(s, c):
                    break
                if s.get("k") == "Let" and "els" in s:
                    out.append({"kind": "pat", "e": s.get("init"), "pat": s["pat"], "truth": True, "node": s})
                    continue
                e = strip(s.get("e")) if s.get("k") == "Stmt" else None
                if e is not None and e.get("k") == "If":
                    if diverges(e.get("then")) and not diverges(e.get("else")):
                        out.append({"kind": "cond", "e": e["cond"], "truth": False, "node": e})
                    elif "else" in e and diverges(e.get("else")) and not diverges(e.get("then")):
                        out.append({"kind": "cond", "e": e["cond"], "truth": True, "node": e})
                elif e is not None and e.get("k") == "Match" and e.get("src") == "Normal":
                    # `match x { A => {}, B => continue }` as a statement: afterwards the arm that falls through was the one taken
                    through = [a for a in e["arms"] if not diverges(a["body"])]
                    if len(through) == 1 and len(e["arms"]) > 1:
                        out.append({"kind": "arm", "e": e["scrut"], "pat": through[0]["pat"], "arm": through[0], "match": e})
        child = p
        p = acc[p][1]
    return out


def _within(root, node):
    if root is None:
        return False
    st = [root]
    while st:
        x = st.pop()
        if x is node:
            return True
        if isinstance(x, dict):
            st.extend(v for v in x.values() if isinstance(v, (dict, list)))
        elif isinstance(x, list):
            st.extend(v for v in x if isinstance(v, (dict, list)))
    return False


def atomic_facts(e, truth):
    """[(atomic condition, truth)] that follow from `e == truth`: `!a` flips, `a && b` true gives both, `a || b` false gives both;
    anything else (incl. a conjunction known to be false) stays one opaque fact"""
    e = strip(e)
    if e is None:
        return []
    if e.get("k") == "Unary" and e.get("op") == "Not":
        return atomic_facts(e["e"], not truth)
    if e.get("k") == "Binary" and ((e.get("op") == "&&" and truth) or (e.get("op") == "||" and not truth)):
        return atomic_facts(e["l"], truth) + atomic_facts(e["r"], truth)
    return [(e, truth)]


def index_of(fn, node):
    for i, (n, _) in enumerate(fn.nodes()):
        if n is node:
            return i
    return -1


def guard_atoms(pv, guards):
    a = set()
    for g in guards:
        a |= pv.atoms(g["e"])
    return a


def pattern_variants(node, adt_suffix):
    """names of the variants of the enum `adt_suffix` that occur in patterns below `node` — or among the nodes of a list —
    (match arms, `if let`, `let else`, `matches!`: any spelling of a test for the variant)"""
    out = set()
    for x in (node if isinstance(node, list) else subnodes(node)):
        if x.get("k") in ("TupleStruct", "PatExpr") or (x.get("k") == "Struct" and "rest" in x):
            d = norm(x.get("ctor_of") or x.get("def") or "")
            if d and "::" in d:
                owner, v = d.rsplit("::", 1)
                if owner == adt_suffix or owner.endswith("::" + adt_suffix):
                    out.add(v)
    return out


# ----------------------------------------------------------------------------------------------------------- anchors
class Anchors:
    pass


_ANCHORS = {}


STD_COLLECTIONS = ("std::collections::hash::set::HashSet<", "alloc::collections::btree::set::BTreeSet<", "alloc::vec::Vec<",
                   "alloc::collections::vec_deque::VecDeque<", "indexmap::set::IndexSet<", "std::collections::hash::map::HashMap<",
                   "alloc::collections::btree::map::BTreeMap<")


def _elem(t):
    """first generic argument of a collection type string"""
    i = t.find("<")
    if i < 0:
        return ""
    depth, out = 0, []
    for ch in t[i + 1:]:
        if ch == "<":
            depth += 1
        elif ch == ">":
            if depth == 0:
                break
            depth -= 1
        elif ch == "," and depth == 0:
            break
        out.append(ch)
    return "".join(out).strip()


def anchors(P):
    """The traversal, by role: the directly recursive function of the semantics crate that (with its helpers) resolves import
    paths (`resolve_relative_path`) and asks the `OperationResolver` for the file.  State shared between its recursion levels is
    either a `&mut` parameter or a field of `self` (context struct): the *visited collection* is the shared std collection (of
    any element type) that the traversal tests/extends, the *accumulated definitions* the shared `Vec<ExecutableDefinition>`.
    The entry point is the unique caller from outside the traversal."""
    if id(P) in _ANCHORS:
        return _ANCHORS[id(P)]
    cands = []
    for f in P.fns.values():
        if not f.path.startswith(SEM) or "::tests::" in f.path or f.kind not in ("Fn", "AssocFn") or f.derived:
            continue
        callees = {c for c in P.callees_of(f)[0] if c.startswith(SEM)}
        if f.path not in callees and not any(f.path in P.callees_of(P.fns[c])[0] for c in callees if c in P.fns):
            continue        # neither directly recursive nor recursive through one helper
        names = {call_name(n) or "" for n in inlined(P, f).walk() if n.get("k") in ("Call", "MethodCall")}
        if any(c.endswith("OperationResolver::resolve") for c in names) and any(c.endswith("resolve_relative_path") for c in names):
            cands.append(f)
    if len(cands) > 1:
        # a traversal split over mutually recursive functions: the one that is entered from outside
        cyc = {f.path for f in cands}
        outer = [f for f in cands if any(f.path in P.callees_of(g)[0] for g in P.fns.values()
                                          if g.path.startswith(SEM) and g.path not in cyc and "::tests::" not in g.path
                                          and not any(g.path in P.callees_of(c)[0] for c in cands))]
        cands = outer or cands
    if len(cands) != 1:
        raise AnchorMissing("import traversal (directly recursive fn of the semantics crate calling resolve_relative_path and "
                            "OperationResolver::resolve): %d candidates" % len(cands))
    A = Anchors()
    rec = A.rec = cands[0]
    A.T = inlined(P, rec)
    A.pv = Prov(A.T)
    A.import_adt = sem_adt(P, "Import").path
    A.not_rec = lambda g: g.path != rec.path     # kept alive here: templates.inlined memoises on id(pred)
    # shared state: `&mut` parameters and the fields of `self`
    shared = []        # (type, atom that denotes it)
    for i, p in enumerate(A.T.params):
        t = rec.sig_inputs[i] if i < len(rec.sig_inputs) else ""
        if t.startswith("&mut ") and p.get("k") == "Binding" and A.pv.params.get(p.get("local")):
            shared.append((peel_ty(t).strip(), ("param", A.pv.params[p["local"]])))
            st = P.adts.get(peel_ty(t).strip().split("<")[0])
            if st is not None and st.kind == "Struct" and st.path.startswith(SEM):      # a state struct handed down by `&mut`
                for fname, ft in st.field_types().items():
                    shared.append((peel_ty(ft).strip(), ("field", st.path, fname)))
    self_adt = P.adts.get(rec.self_adt) if rec.self_adt else None
    if self_adt is not None and self_adt.kind == "Struct":
        for fname, ft in self_adt.field_types().items():
            shared.append((peel_ty(ft).strip(), ("field", self_adt.path, fname)))
    A.defs_atoms = {a for t, a in shared if t.startswith("alloc::vec::Vec<" + EXDEF)}
    if not A.defs_atoms:
        raise AnchorMissing("accumulated definitions (a `&mut Vec<ExecutableDefinition>` parameter or field of self) of %s" % rec.path)
    colls = {t for t, a in shared if t.startswith(STD_COLLECTIONS) and EXDEF not in t}
    colls |= {"[%s]" % _elem(t) for t in colls if t.startswith(("alloc::vec::Vec<", "alloc::collections::vec_deque::VecDeque<"))}
    A.vts = {peel_ty(n.get("recv_ty")).strip() for n in A.T.walk() if n.get("k") == "MethodCall" and n["method"] in TESTS + MARKS
             and peel_ty(n.get("recv_ty")).strip() in colls}
    scalar = {t for t in A.vts if not _elem(t).startswith("(") and not t.startswith("[(")}
    A.vts = scalar or A.vts     # a set of (file, name) pairs is a per-definition record, not the set of visited files
    if not A.vts:
        raise AnchorMissing("visited collection (a shared std collection that %s tests / extends): none among %s" % (rec.path, sorted(colls)))
    A.key_types = {_elem(t) if "<" in t else t.strip("[]") for t in A.vts}
    entries = [f for f in P.fns.values() if f.path.startswith(SEM) and rec.path in P.callees_of(f)[0] and f.path != rec.path
               and "::tests::" not in f.path]
    # a helper between the entry and the traversal is fine: climb to the callers that are not themselves called by the traversal
    reach = P.reachable([rec])
    entries = [f for f in entries if f.path not in reach]
    if len(entries) != 1:
        raise AnchorMissing("entry point calling %s: %s" % (rec.path, [e.path for e in entries]))
    A.entry = entries[0]
    # parameters that carry the importing file: every binding of a parameter whose type mentions `Path` (not shared state)
    A.importer = set()
    for i, p in enumerate(A.T.params):
        t = rec.sig_inputs[i] if i < len(rec.sig_inputs) else ""
        if t.startswith("&mut ") or "std::path::Path" not in t:
            continue
        for b in subnodes(p):
            if b.get("k") == "Binding" and A.pv.params.get(b["local"]):
                A.importer.add(A.pv.params[b["local"]])
    _ANCHORS[id(P)] = A
    return A


def has_defs(A, atoms):
    """does the value derive from the accumulated definitions (parameter or field of the context struct)"""
    return any(x in atoms for x in A.defs_atoms)


def sem_adt(P, name):
    """the ADT of the semantics crate with this name, wherever its module is"""
    hits = [a for p, a in P.adts.items() if p.startswith(SEM) and p.split("::")[-1] == name]
    if len(hits) != 1:
        raise AnchorMissing("type `%s` of the semantics crate: %d candidates" % (name, len(hits)))
    return hits[0]


def enum_roles(adt):
    """(name of the unit variant, name of the variant with a payload) of a two-variant enum such as ImportTargets {Wildcard,
    Specific(names)} / ImportTarget {Wildcard, Name(ident)} — the variants are told apart by shape, not by name"""
    unit = [v["name"] for v in adt.variants if not v["fields"]]
    data = [v["name"] for v in adt.variants if v["fields"]]
    if len(unit) != 1 or len(data) != 1:
        raise AnchorMissing("enum %s is not {unit variant, variant with payload}: %s" % (adt.path, adt.variant_names()))
    return unit[0], data[0]


def is_vis(A, n, methods=None):
    """is `n` a method call on the visited collection (by receiver type; a Vec is tested through its slice)"""
    if n.get("k") != "MethodCall" or (methods is not None and n["method"] not in methods):
        return False
    return peel_ty(n.get("recv_ty")).strip() in A.vts


def mir_blocks(mq, hir_calls):
    """MIR blocks of the call terminators that implement the given HIR call nodes (same callee, same source position)"""
    out = []
    for h in hir_calls:
        s = (h.get("s") or [])[:2]
        names = {norm(h.get("rd")), norm(h.get("callee"))} - {None}
        for i, p, t in mq.calls():
            if t.get("s") == s and (p in names or norm(t.get("func", {}).get("fn")) in names):
                out.append(i)
    return out


def visited_fact(A, e, truth):
    """what an atomic condition says about the current file: 'visited' / 'fresh' / None (says nothing we understand)"""
    e = strip(e)
    seen = set()
    while e is not None and e.get("k") == "Path" and "local" in e and e["local"] not in seen:
        # `let fresh = visited.insert(p); if !fresh { continue }`: a local with a single initialiser stands for it
        seen.add(e["local"])
        srcs = A.pv.src.get(e["local"], [])
        if len(srcs) != 1 or srcs[0][0] is None or srcs[0][1]:
            return None
        e = strip(srcs[0][0])
    if e is None or e.get("k") != "MethodCall":
        return None
    if is_vis(A, e, TESTS):
        return "visited" if truth else "fresh"
    if is_vis(A, e, ("insert",)):      # HashSet/BTreeSet::insert returns true iff the value was not present
        return "fresh" if truth else "visited"
    return None


def visited_ifs(A):
    """`if` expressions of the (inlined) traversal whose condition consults the visited collection, as dicts:
      i, node;
      all_vis  = the branch every visited file enters ("then"/"else"), None when the condition does not settle it
      only_vis = the branch only visited files enter (for `contains(p) && extra` that is `then`, and all_vis is None)
      after    = the statements that follow the `if` in its block"""
    out = []
    acc = A.T.nodes()
    for i, (n, _) in enumerate(acc):
        if n.get("k") != "If" or not any(is_vis(A, x, TESTS + ("insert",)) for x in subnodes(n["cond"])):
            continue
        when_true = {visited_fact(A, e, t) for e, t in atomic_facts(n["cond"], True)}
        when_false = {visited_fact(A, e, t) for e, t in atomic_facts(n["cond"], False)}
        only_vis = "then" if "visited" in when_true else ("else" if "visited" in when_false else None)
        all_vis = "then" if "fresh" in when_false else ("else" if "fresh" in when_true else None)
        # continuation: what follows the `if` in the enclosing block
        after = []
        child, p = i, acc[i][1]
        while p >= 0 and acc[p][0].get("k") in ("Stmt", "DropTemps", "Paren", "Use"):
            child, p = p, acc[p][1]
        if p >= 0 and acc[p][0].get("k") == "Block":
            b = acc[p][0]
            stmts = b.get("stmts", [])
            pos = [k for k, st in enumerate(stmts) if st is acc[child][0]]
            if pos:
                after = stmts[pos[0] + 1:] + ([b["tail"]] if "tail" in b else [])
        out.append({"i": i, "node": n, "all_vis": all_vis, "only_vis": only_vis, "after": after})
    return out


def known_state(A, fn, idx):
    """what the guards around nodes()[idx] establish about the current file: subset of {"visited", "fresh"}"""
    known = set()
    for g in guards_of(fn, idx):
        facts = []
        if g["kind"] == "cond":
            facts = atomic_facts(g["e"], g["truth"])
        elif g["kind"] == "arm" and pat_lits(g["pat"]) in ([True], [False]):      # `match visited.insert(p) { true => .., false => .. }`
            facts = atomic_facts(g["e"], pat_lits(g["pat"])[0])
        for e, truth in facts:
            known.add(visited_fact(A, e, truth))
    known.discard(None)
    return known


# ------------------------------------------------------------------------------------------------------------- R13-a
def r13a(P, R):
    A = anchors(P)
    rec, T = A.rec, A.T
    mq = MirQ(P.mir[rec.path])
    rec_calls = mq.calls_to(lambda p: p == rec.path)
    R.floor("R13-a", "recursive calls", len(rec_calls), 1)
    # the operations on the visited set, each represented by the node of the traversal's own body that performs it: the method
    # call itself, or the call of a (virtually inlined) helper that performs it unconditionally
    accT = T.nodes()

    def own_site(i):
        site, p = None, accT[i][1]
        while p >= 0:
            if "inl" in accT[p][0]:
                site = p
            p = accT[p][1]
        if site is None:
            return accT[i][0]
        inner = [g for g in guards_of(T, i, stop=accT[site][0]) if g["kind"] in ("cond", "pat", "arm")]
        return None if inner else accT[site][0]
    def value_used(i):
        """is the value of the call at nodes()[i] consumed (condition, `let`, scrutinee, argument ..) rather than dropped by `;` —
        the value of a helper's tail expression being the value of the call of the helper"""
        child, p = i, accT[i][1]
        while p >= 0:
            n, k = accT[p][0], accT[p][0].get("k")
            if k == "Stmt":
                return False
            if k in ("DropTemps", "Paren", "Use") or (k == "Block" and n.get("tail") is accT[child][0]) or k == "BlockExpr" \
                    or (k in ("Call", "MethodCall") and "inl" in n and strip(n["inl"]["body"]) is not None and _within(n["inl"]["body"], accT[child][0])):
                child, p = p, accT[p][1]
                continue
            return k != "Block"
        return False
    tests_T = [i for i, (n, _) in enumerate(accT) if is_vis(A, n, TESTS) or (is_vis(A, n, ("insert",)) and value_used(i))]
    marks_T = [i for i, (n, _) in enumerate(accT) if is_vis(A, n, MARKS)]
    tests_h = [x for x in map(own_site, tests_T) if x is not None]
    marks_h = [x for x in map(own_site, marks_T) if x is not None]
    tests = mir_blocks(mq, tests_h)
    marks = mir_blocks(mq, marks_h)
    for rc in rec_calls:
        ok_c = any(mq.dominates(c, rc) for c in tests)
        ok_i = any(mq.dominates(i, rc) for i in marks)
        for key, ok, here, anywhere, msg_ok, msg_bad in (
                ("guard:contains", ok_c, tests_h, tests_T, "the recursive call is dominated by a membership test on the visited set",
                 "the recursive import traversal is not guarded by a visited-check: an import cycle does not terminate"),
                ("guard:insert", ok_i, marks_h, marks_T, "the recursive call is dominated by visited.insert(..)",
                 "the file is not marked visited before the traversal descends into it")):
            if ok:
                R.holds("R13-a", key, msg_ok, loc=rec.loc())
            elif not here and anywhere:
                R.undecided("R13-a", key, "the visited set is consulted/updated only under a condition inside a helper of %s; dominance across "
                            "the call is not decided" % rec.path, loc=rec.loc())
            else:
                R.violated("R13-a", key, msg_bad, loc=rec.loc())
    # the visited-check actually skips: at the recursive call the file is known to be fresh
    calls = [i for i, (n, _) in enumerate(T.nodes()) if n.get("k") in ("Call", "MethodCall") and call_name(n) == rec.path]
    for j in calls:
        if "fresh" in known_state(A, T, j):
            R.holds("R13-a", "guard:skips", "a visited file is skipped (the recursive call is only reached for a file that was not visited)", loc=rec.loc())
            continue
        dead = [v for v in visited_ifs(A) if v["all_vis"] and v["only_vis"] and not diverges(v["node"].get("then")) and not diverges(v["node"].get("else"))
                and not _within(v["node"].get("then"), T.nodes()[j][0]) and not _within(v["node"].get("else"), T.nodes()[j][0])]
        if dead:
            R.violated("R13-a", "guard:skips", "the visited-check does not skip already visited files: neither branch of the test leaves the "
                       "iteration and the recursive call is outside both", loc=rec.loc())
        else:
            R.undecided("R13-a", "guard:skips", "how the visited-check keeps the recursion away from visited files is not recognised", loc=rec.loc())
    # visited only grows
    ops, unknown = set(), set()
    for f in (T, inlined(P, A.entry, pred=A.not_rec)):      # the traversal and its entry point, each with its helpers inlined
        for n in f.walk():
            if is_vis(A, n):
                if n["method"] in SHRINKS:
                    ops.add(n["method"])
                elif n["method"] not in READS and n["method"] not in MARKS:
                    unknown.add(n["method"])
    if ops:
        R.violated("R13-a", "visited-monotone", "the visited set is also modified by %s: a file reached through two paths is expanded twice (duplicate definitions)"
                   % sorted(ops), loc=rec.loc())
    elif unknown:
        R.undecided("R13-a", "visited-monotone", "operations %s on the visited set are not classified" % sorted(unknown), loc=rec.loc())
    else:
        R.holds("R13-a", "visited-monotone", "the visited set only grows (membership tests and insertions)", loc=rec.loc())


# ------------------------------------------------------------------------------------------------------------- R13-b
def return_leaves(fn):
    """the expressions whose value a function can return: operands of `return` and the tail expression, with `if`/`match`/blocks
    opened up into their branches"""
    roots = [n["e"] for n in fn.walk() if n.get("k") == "Ret" and "e" in n and "desugar" not in (n.get("x") or "")]
    body = fn.body
    roots.append(body)
    out = []
    while roots:
        e = strip(roots.pop())
        if e is None:
            continue
        k = e.get("k")
        if k == "BlockExpr":
            if "tail" in e["b"]:
                roots.append(e["b"]["tail"])
        elif k == "If":
            roots.append(e.get("then"))
            roots.append(e.get("else"))
        elif k == "Match" and e.get("src") == "Normal":
            roots.extend(a["body"] for a in e["arms"])
        elif k in ("Ret", "Continue", "Break") or e.get("t") == "!":
            continue
        else:
            out.append(e)
    return out


def r13b(P, R):
    A = anchors(P)
    rec, T, pv = A.rec, A.T, A.pv
    n = 0
    for c in T.walk():
        if c.get("k") != "MethodCall" or not c["args"]:
            continue
        cn = call_name(c) or ""
        if is_vis(A, c, TESTS + MARKS) or cn.endswith("OperationResolver::resolve"):
            n += 1
            a = pv.deep_atoms(c["args"][0])
            # the resolved path of the import, or the traversal's own file (which recursion-root shows to be a resolved path)
            ok = has_call(a, "relative_path::resolve_relative_path") or any(("param", p) in a for p in A.importer)
            R.check("R13-b", "key:%s" % c["method"], ok, "`%s` is keyed by the normalised resolved path" % c["method"],
                    "`%s` in the import traversal is not keyed by resolve_relative_path(..): differently spelled paths to one "
                    "file are treated as different files" % c["method"], loc=rec.loc())
    R.floor("R13-b", "keyed operations", n, 2)
    # the resolved path is computed from the importing document's path and the import's own path string
    calls = [c for c in T.walk() if c.get("k") == "Call" and (call_name(c) or "").endswith("resolve_relative_path") and len(c["args"]) == 2]
    R.floor("R13-b", "resolve_relative_path calls", len(calls), 1)
    for c in calls:
        a0, a1 = pv.atoms(c["args"][0]), pv.atoms(c["args"][1])
        if not A.importer:
            R.undecided("R13-b", "relative-to-importer", "no parameter of %s carries the importing file's path" % rec.path, loc=rec.loc())
            continue
        ok = any(("param", p) in a0 for p in A.importer) and has_field(a1, A.import_adt, "path")
        R.check("R13-b", "relative-to-importer", ok, "import paths are resolved relative to the importing file",
                "resolve_relative_path is not called with (importing file, import.path)", loc=rec.loc())
    # how keys are compared: `Path`/`PathBuf` keys compare component-wise (redundant separators and `.` do not matter); keys that
    # are the *text* of a path are only equal for one spelling, so every value resolve_relative_path returns must then have passed
    # through the normaliser — its own sibling returns show which function that is
    textual = sorted(k for k in A.key_types if "std::path::Path" not in k)
    if not textual:
        R.holds("R13-b", "key-canonical", "visited keys are path values (compared component-wise)", loc=rec.loc())
    else:
        rrp = P.fn("relative_path::resolve_relative_path", required=False)
        leaves = return_leaves(rrp) if rrp is not None else []
        rp = Prov(rrp) if rrp is not None else None
        through = [sorted(x[1] for x in rp.atoms(e) if x[0] == "call" and x[1] in P.fns and P.fns[x[1]].crate == rrp.crate and x[1] != rrp.path)
                   for e in leaves]
        if not leaves or not any(through):
            R.undecided("R13-b", "key-canonical", "visited keys are texts (%s); how resolve_relative_path normalises its results is not recognised"
                        % textual, loc=rec.loc())
        elif all(through):
            R.holds("R13-b", "key-canonical", "visited keys are texts of paths that all pass through %s" % short(through[0][0]), loc=rec.loc())
        else:
            norm_fn = short(next(t for t in through if t)[0])
            R.violated("R13-b", "key-canonical",
                       "the visited set is keyed by the text of the resolved path (%s), but resolve_relative_path returns a value that did not "
                       "pass through %s on %d of its %d return paths (the other returns do): two spellings of one file (`/p//x`, `/p/./x`, `/p/x`) "
                       "get different keys, so a file reached through both is expanded once per spelling and its fragments are duplicated"
                       % (textual, norm_fn, sum(1 for t in through if not t), len(through)), loc=rrp.loc())
    # the recursive call passes the imported file's own path and document
    for c in T.walk():
        if c.get("k") in ("Call", "MethodCall") and call_name(c) == rec.path:
            a = set()
            for x in c["args"]:
                a |= pv.deep_atoms(x)
            ok = has_call(a, "resolve_relative_path") and has_call(a, "OperationResolver::resolve")
            R.check("R13-b", "recursion-root", ok, "recursion continues from the imported file (its path and its document)",
                    "the recursive call is not rooted at the imported file", loc=rec.loc())


# ------------------------------------------------------------------------------------------------------------- R13-c
def target_branches(P, T):
    """Every place where the traversal branches on the kind of an import: [(node, {"Wildcard"|"Specific": body | None})] — a
    `match`, an `if let .. else ..`; the body of a kind that is only covered by the fall-through after a `let else` is None.
    The two kinds are the unit variant and the variant with a payload of ImportTargets, whatever they are called."""
    adt = sem_adt(P, "ImportTargets")
    unit, data = enum_roles(adt)
    role = {unit: "Wildcard", data: "Specific"}
    allv = set(role)
    out = []

    def is_targets(e):
        return peel_ty((e or {}).get("t")).strip().split("<")[0] == adt.path
    for n in T.walk():
        k = n.get("k")
        tab = None
        if k == "Match" and n.get("src") == "Normal" and not n.get("x") and is_targets(n["scrut"]):
            tab, rest = {}, set(allv)
            for arm in n["arms"]:
                v, catch = arm_variants({"arms": [arm]})
                covered = set(rest) if catch else (v & rest)
                for x in covered:
                    tab.setdefault(x, arm["body"])
                if "guard" not in arm:
                    rest -= covered
        elif k == "If" and strip(n["cond"]).get("k") == "LetExpr" and is_targets(strip(n["cond"])["init"]):
            v, catch = arm_variants({"arms": [{"pat": strip(n["cond"])["pat"]}]})
            tab = {x: n["then"] for x in (allv if catch else v & allv)}
            for x in allv - set(tab):
                tab[x] = n.get("else")
        elif k == "Let" and "els" in n and is_targets(n.get("init")):
            v, catch = arm_variants({"arms": [{"pat": n["pat"]}]})
            tab = {x: None for x in v & allv}
            for x in allv - set(tab):
                tab[x] = n["els"]
        if tab is not None:
            # `let names = match import.targets { Wildcard => { ..; return Ok(()) } Specific(ref names) => names };` — when every other
            # kind leaves, what follows the statement is the code of the remaining kind
            staying = [x for x, b in tab.items() if b is not None and not diverges(b)]
            if len(staying) == 1 and len(tab) > 1 and all(b is not None for b in tab.values()):
                rest, scope = continuation(T, n)
                if rest:
                    tab[staying[0]] = {"k": "Block", "stmts": [tab[staying[0]]] + rest, "synthetic": scope}
            out.append((n, {role[x]: b for x, b in tab.items()}))
    return out, set(role.values())


def continuation(T, node):
    """(the statements and tail that follow the statement `node` belongs to, its enclosing block)"""
    acc = T.nodes()
    i = index_of(T, node)
    if i < 0:
        return [], None
    child, p = i, acc[i][1]
    while p >= 0 and acc[p][0].get("k") in ("Stmt", "DropTemps", "Paren", "Use", "Let"):
        child, p = p, acc[p][1]
    if p < 0 or acc[p][0].get("k") != "Block":
        return [], None
    b = acc[p][0]
    stmts = b.get("stmts", [])
    pos = [k for k, st in enumerate(stmts) if st is acc[child][0]]
    if not pos:
        return [], None
    return stmts[pos[0] + 1:] + ([b["tail"]] if "tail" in b else []), b


def slice_nodes(T, pv, idx, stop=None):
    """HIR nodes the value/effect at nodes()[idx] may depend on: its own subtree, the initialisers of every local it mentions
    (transitively), and the conditions/patterns of the guards around it.  Over-approximation in the sense of Prov."""
    acc = T.nodes()
    roots = [acc[idx][0]]
    for g in guards_of(T, idx, stop):
        roots.append(g["e"])
        if g.get("pat") is not None:
            roots.append(g["pat"])
    out, seen_local, seen = [], set(), set()
    while roots:
        r = roots.pop()
        if r is None or id(r) in seen:
            continue
        seen.add(id(r))
        for x in subnodes(r):
            out.append(x)
            if x.get("k") == "Path" and "local" in x and x["local"] not in seen_local:
                seen_local.add(x["local"])
                roots.extend(src for src, _ in pv.src.get(x["local"], []) if src is not None)
    return out


def null_outcome(e):
    """does an arm body stand for "not selected": `false`, `None`, nothing, or leaving (`continue`/`return`)"""
    e = strip(e)
    while e is not None and e.get("k") == "BlockExpr":
        if diverges(e):
            return True
        if "tail" not in e["b"]:
            return True
        e = strip(e["b"]["tail"])
    if e is None or diverges(e):
        return True
    if lit_value(e) is False:
        return True
    if e.get("k") == "Tup" and not e.get("es"):
        return True
    return e.get("k") == "Path" and norm(e.get("def") or "").endswith("option::Option::None")


def fragment_tests(nodes):
    """How the tests on ExecutableDefinition among `nodes` (the slice of an append) treat the variants:
    ("only",) some test accepts FragmentDefinition and rejects every other variant; ("leaky", variants) tests exist, none rejects
    the others, and one explicitly yields a computed value for a named other variant; ("unknown",) tests exist but are not
    understood; ("none",) no pattern for FragmentDefinition at all"""
    def is_exdef(e):
        return peel_ty((e or {}).get("t")).strip().split("<")[0] == EXDEF
    tests = []      # (pattern of the accepting side or None, [(pattern, body)] of the other sides)
    for n in nodes:
        k = n.get("k")
        if k == "Match" and n.get("src") == "Normal" and is_exdef(n["scrut"]):
            tests.append([(a["pat"], a["body"]) for a in n["arms"]])
        elif k == "If" and strip(n["cond"]).get("k") == "LetExpr" and is_exdef(strip(n["cond"])["init"]):
            tests.append([(strip(n["cond"])["pat"], n["then"]), (None, n.get("else"))])
        elif k == "Let" and "els" in n and is_exdef(n.get("init")):
            tests.append([(n["pat"], {"k": "Lit", "v": True}), (None, n["els"])])
    if "FragmentDefinition" not in pattern_variants(nodes, "ExecutableDefinition"):
        return ("none",)
    leaky = set()
    for arms in tests:
        frag = [b for p, b in arms if p is not None and "FragmentDefinition" in pattern_variants(p, "ExecutableDefinition")]
        others = [(p, b) for p, b in arms if p is None or "FragmentDefinition" not in pattern_variants(p, "ExecutableDefinition")]
        if frag and all(null_outcome(b) for p, b in others):
            return ("only",)
        for p, b in others:
            if p is not None and not null_outcome(b):
                leaky |= pattern_variants(p, "ExecutableDefinition")
    if leaky:
        return ("leaky", sorted(leaky))
    return ("unknown",) if tests else ("only",)


FILLS = ("insert", "push", "push_back", "push_front", "extend", "append", "entry", "extend_from_slice")


def filled_atoms(T, pv, exprs):
    """atoms that reach the given expressions through local collections that are *filled by method calls* (`let mut seen =
    HashSet::new(); for .. { seen.insert(x) }` — Prov follows `let`/assignment, not mutation through `&mut self`): the
    arguments of every filling call on a local the expressions (transitively) mention"""
    locals_, todo, out = set(), list(exprs), set()
    fills = {}
    for n in T.walk():
        if n.get("k") == "MethodCall" and n["method"] in FILLS and n["args"] and EXDEF not in norm(n.get("recv_ty") or ""):
            # (the accumulated definitions are shared state, not a local scratch collection)
            r = strip(n["recv"])
            while r is not None and r.get("k") in ("AddrOf", "Unary"):
                r = strip(r.get("e"))
            if r is not None and r.get("k") == "Path" and "local" in r:
                fills.setdefault(r["local"], []).extend(n["args"])
    seen = set()
    while todo:
        e = todo.pop()
        if e is None or id(e) in seen:
            continue
        seen.add(id(e))
        for x in subnodes(e):
            if x.get("k") == "Path" and "local" in x and x["local"] not in locals_:
                locals_.add(x["local"])
                todo.extend(src for src, _ in pv.src.get(x["local"], []) if src is not None)
                for a in fills.get(x["local"], []):
                    out |= pv.atoms(a)
                    todo.append(a)
    return out


def diag_exists(P, rec, variant):
    """is there (still) an enum of the semantics crate with a variant of this name"""
    return any(variant in a.variant_names() for p, a in P.adts.items() if p.startswith(SEM) and a.kind == "Enum")


def is_append(x):
    return x.get("k") == "MethodCall" and x["method"] in APPENDS and ("Vec<" + EXDEF) in norm(x.get("recv_ty", "") or "")


def r13c(P, R):
    A = anchors(P)
    rec, T, pv = A.rec, A.T, A.pv
    acc = T.nodes()
    loc = rec.loc()
    # TARGETS ON EVERY PATH: the branch taken for an already visited file must not ignore import.targets
    vifs = visited_ifs(A)
    for v in vifs:
        n = v["node"]
        which = v["all_vis"] or v["only_vis"]
        if which is None:
            R.undecided("R13-c", "visited-skip-reads-targets", "which branch of the test on the visited set is taken for a visited file is not recognised", loc=loc)
            continue
        branch = n.get(which)
        reads = branch is not None and has_field(pv.atoms(branch), A.import_adt, "targets")
        if not reads and not diverges(branch):
            reads = any(has_field(pv.atoms(st), A.import_adt, "targets") for st in v["after"])    # falls through to the code after the `if`
        R.check("R13-c", "visited-skip-reads-targets", reads,
                "the requested names are honoured for an already visited file",
                "when the target file is already visited the loop `continue`s without reading import.targets: a second import "
                "of the same file with other names contributes nothing (diamond: main imports F from y and A from x; y imports B from x => A is lost)",
                loc=loc)
    if not vifs:
        R.undecided("R13-c", "visited-skip-reads-targets", "no `if` on the visited set found in %s (or its helpers)" % rec.path, loc=loc)
    # both target kinds handled, each by code that imports fragments only, by name, and appends them
    branches, allv = target_branches(P, T)
    branches = [(n, tab) for n, tab in branches if not all(b is None or lit_value(strip(b)) is not None for b in tab.values())]
    R.floor("R13-c", "branching over ImportTargets", len(branches), 1)
    appends_all = [j for j, (x, _) in enumerate(acc) if is_append(x)]
    nf_all = [j for j, (x, _) in enumerate(acc) if x.get("k") == "Struct" and "rest" not in x and norm(x.get("variant", "")).endswith("FragmentNotFound")]
    for node, tab in branches:
        missing = sorted(v for v in allv if tab.get(v) is None)
        if missing:
            R.undecided("R13-c", "targets-kinds", "the code that handles %s imports is not a branch of the test on import.targets (fall-through); "
                        "not decided" % missing, loc=loc)
        else:
            R.holds("R13-c", "targets-kinds", "wildcard and specific imports handled", loc=loc)
        for v in sorted(allv):
            body = tab.get(v)
            if body is None:
                continue
            inside = [j for j in appends_all if _within(body, acc[j][0])]
            if not inside:
                # the branches yield the definitions and one append consumes the value (`definitions.extend(select(import, doc)?)`)
                inside = [j for j in appends_all if _within(acc[j][0], node)]
            # appended
            if inside:
                R.holds("R13-c", "appends:%s" % v, "imported fragments are appended to the definitions", loc=loc)
            elif appends_all:
                R.undecided("R13-c", "appends:%s" % v, "the %s branch appends nothing itself; whether a later append consumes its result is not decided" % v, loc=loc)
            else:
                R.violated("R13-c", "appends:%s" % v, "the %s arm does not append to the definitions (no push/extend on the definitions "
                           "list anywhere in the traversal)" % v, loc=loc)
            # only fragments are imported: every append sits behind a test for ExecutableDefinition::FragmentDefinition
            if inside:
                verdicts = [fragment_tests(slice_nodes(T, pv, j)) for j in inside]
                bare = [x for x in verdicts if x[0] == "none"]
                leaky = [x for x in verdicts if x[0] == "leaky"]
                if bare:
                    R.violated("R13-c", "fragments-only:%s" % v,
                               "the %s arm does not restrict imports to fragment definitions: nothing the appended values derive from, and no "
                               "condition around the append, tests for ExecutableDefinition::FragmentDefinition" % v, loc=loc)
                elif leaky:
                    R.violated("R13-c", "fragments-only:%s" % v,
                               "the %s arm selects what it imports through a test on ExecutableDefinition that also lets %s through (that arm "
                               "yields a value computed from the definition instead of rejecting it): an operation of the imported file "
                               "can be imported, and a name that only an operation carries is not reported as missing" % (v, leaky[0][1]), loc=loc)
                elif any(x[0] == "unknown" for x in verdicts):
                    R.undecided("R13-c", "fragments-only:%s" % v, "the tests on ExecutableDefinition around the append of the %s arm are not "
                                "recognised as accepting fragments only" % v, loc=loc)
                else:
                    R.holds("R13-c", "fragments-only:%s" % v, "only fragment definitions are imported", loc=loc)
            if v == "Specific":
                body_atoms = pv.atoms(body)
                ok = has_field(body_atoms, "nitrogql_ast::operation::FragmentDefinition", "name") and has_field(body_atoms, "nitrogql_ast::base::Ident", "name")
                if ok or inside:
                    R.check("R13-c", "specific-by-name", ok, "specific imports are selected by fragment name", "specific imports are not selected by name", loc=loc)
                else:
                    R.undecided("R13-c", "specific-by-name", "the branch for specific imports appends nothing itself; how names are selected is not decided", loc=loc)
                errs = [j for j in nf_all if _within(body, acc[j][0])]
                if errs:
                    R.holds("R13-c", "missing-name-error", "a missing fragment name is reported", loc=loc)
                elif nf_all:
                    R.undecided("R13-c", "missing-name-error", "FragmentNotFound is constructed outside the branch for specific imports", loc=loc)
                elif not diag_exists(P, rec, "FragmentNotFound"):
                    R.undecided("R13-c", "missing-name-error", "the diagnostics of the import resolver have no variant `FragmentNotFound` any more (renamed?)", loc=loc)
                else:
                    R.violated("R13-c", "missing-name-error", "no FragmentNotFound diagnostic is constructed anywhere in the traversal", loc=loc)
                # FragmentNotFound is decided against the imported file's own definitions, not against what has been collected so far
                for j in errs:
                    a = guard_atoms(pv, guards_of(T, j, stop=body.get("synthetic") or body))
                    a |= filled_atoms(T, pv, [g["e"] for g in guards_of(T, j, stop=body.get("synthetic") or body)])
                    from_imported = has_call(a, "OperationResolver::resolve") and has_field(a, "nitrogql_ast::operation::OperationDocument", "definitions")
                    # ... *read* from the accumulated list (a write to it in a sibling branch is not a dependency of the verdict)
                    from_acc = has_defs(A, a) and any(
                        x.get("k") == "MethodCall" and x["method"] not in APPENDS and EXDEF in norm(x.get("recv_ty") or "") and has_defs(A, pv.atoms(x["recv"]))
                        for x in slice_nodes(T, pv, j, stop=body.get("synthetic") or body))
                    if from_imported and not from_acc:
                        R.holds("R13-c", "missing-name-source", "a requested name is missing iff the imported file does not define it", loc=loc)
                    elif from_imported:
                        R.undecided("R13-c", "missing-name-source", "the condition for FragmentNotFound mentions both the imported document and the "
                                    "accumulated definitions", loc=loc)
                    else:
                        R.violated("R13-c", "missing-name-source",
                                   "FragmentNotFound is decided by looking into %s: a name the target file does not define is accepted whenever a same-named "
                                   "fragment was already collected from elsewhere (and the verdict depends on the order of the import lines)"
                                   % ("the accumulated `definitions`" if from_acc else "something other than the imported document"), loc=loc)
    # each definition is appended at most once: every append is only reached for a file that is known not to have been visited
    # before, or is individually guarded by a membership test on the accumulated definitions
    weakened = [v for v in vifs if v["only_vis"] and not v["all_vis"]]
    unguarded, unknown = [], []
    for j in appends_all:
        if "fresh" in known_state(A, T, j):
            continue
        conds = [g["e"] for g in guards_of(T, j) if g["kind"] == "cond"]
        conds += [y["args"][0] for y in subnodes(acc[j][0]) if y.get("k") == "MethodCall" and y["method"] == "filter" and y["args"]]
        if any(has_defs(A, pv.atoms(c)) for c in conds):
            continue
        (unguarded if weakened else unknown).append(acc[j][0]["method"])
    if unguarded:
        R.violated("R13-c", "append-once",
                   "the visited-skip is weakened to `%s`-with-extra-conditions, so the appends (%s) also run for a file that was already "
                   "visited, with no per-definition membership test: its fragments are appended a second time" % ("contains", unguarded), loc=loc)
    elif unknown:
        R.undecided("R13-c", "append-once", "the appends (%s) are not seen to run only on the first visit of a file" % unknown, loc=loc)
    elif appends_all:
        R.holds("R13-c", "append-once", "appends run only on the first visit of a file (they are only reached when the visited-check says so)")
    # a file whose fragments are appended has been marked visited on that very path: before every append there is, unconditionally,
    # a marking keyed by the imported file — or a descent into the file, when the traversal marks its own file on entry — unless
    # the append is individually guarded by a membership test.  Otherwise a second route to the file appends its fragments again.
    own_mark = any(is_vis(A, c, MARKS) and c["args"] and any(("param", p) in pv.atoms(c["args"][0]) for p in A.importer)
                   and not has_call(pv.atoms(c["args"][0]), "resolve_relative_path")
                   and not [g for g in guards_of(T, index_of(T, c)) if g["kind"] in ("cond", "pat", "arm")] for c in T.walk())

    def marks_file(x):
        if is_vis(A, x, MARKS) and x["args"] and has_call(pv.deep_atoms(x["args"][0]), "resolve_relative_path"):
            return True
        return own_mark and x.get("k") in ("Call", "MethodCall") and call_name(x) == rec.path

    def marked_before(j):
        child, p = j, acc[j][1]
        while p >= 0:
            n = acc[p][0]
            if n.get("k") == "Block":
                for st in n.get("stmts", []):
                    if st is acc[child][0] or _within(st, acc[child][0]):
                        break
                    for x in subnodes(st):
                        if marks_file(x) and not [g for g in guards_of(T, index_of(T, x), stop=st) if g["kind"] in ("cond", "pat", "arm")]:
                            return True
            child, p = p, acc[p][1]
        return False
    unmarked = []
    for j in appends_all:
        conds = [g["e"] for g in guards_of(T, j) if g["kind"] == "cond"]
        if any(y.get("k") == "MethodCall" and y["method"] in ("insert", "contains", "contains_key") and "std::collections" in norm(y.get("callee") or "")
               and not is_vis(A, y) for c in conds for y in subnodes(c)):
            continue        # per-definition record
        if not marked_before(j):
            unmarked.append(acc[j][0]["method"])
    if appends_all and not unmarked:
        R.holds("R13-c", "append-marked", "the fragments of a file are only appended after the file was marked visited", loc=loc)
    elif unmarked:
        R.violated("R13-c", "append-marked", "the appends (%s) can be reached without the imported file having been marked visited on that path "
                   "(the marking / the descent that marks it is conditional or missing): a file reached again through another import "
                   "(diamond) is not recognised as visited and its fragments are appended a second time" % unmarked, loc=loc)
    # error for a dangling file: FileNotFound is constructed under a condition on the resolver's answer
    errs = [(j, x) for j, (x, _) in enumerate(acc) if x.get("k") == "Struct" and "rest" not in x and norm(x.get("variant", "")).endswith("FileNotFound")]
    if not errs and not diag_exists(P, rec, "FileNotFound"):
        R.undecided("R13-c", "dangling-file-error", "the diagnostics of the import resolver have no variant `FileNotFound` any more (renamed?)", loc=loc)
    elif not errs:
        R.violated("R13-c", "dangling-file-error", "no FileNotFound diagnostic is constructed anywhere in the traversal: a dangling import is not reported", loc=loc)
    for j, x in errs:
        gs = guards_of(T, j)
        ok = has_call(guard_atoms(pv, gs), "OperationResolver::resolve")
        if ok:
            R.holds("R13-c", "dangling-file-error", "FileNotFound is raised under a condition on the resolver's answer", loc=loc)
        elif not gs:
            R.undecided("R13-c", "dangling-file-error", "the condition under which FileNotFound is constructed is not recognised", loc=loc)
        else:
            R.violated("R13-c", "dangling-file-error", "FileNotFound is not tied to the resolver returning None: none of the %d conditions around its "
                       "construction depends on OperationResolver::resolve" % len(gs), loc=loc)
        # positions of the diagnostic come from the import statement
        pos = [f for f in x["fields"] if f["name"] == "position"]
        ok = bool(pos) and has_field(pv.atoms(pos[0]["e"]), "nitrogql_ast::value::StringValue", "position")
        R.check("R13-c", "file-error-position", ok, "FileNotFound is positioned at the import path", "FileNotFound carries another position", loc=loc)


# ------------------------------------------------------------------------------------------------------------- R13-d
def r13d(P, R):
    A = anchors(P)
    entry, rec = A.entry, A.rec
    E = inlined(P, entry, pred=A.not_rec)
    pv = Prov(E)
    roots = set()
    for i, p in enumerate(E.params):
        if "std::path::Path" in entry.sig_inputs[i]:
            roots |= {pv.params[b["local"]] for b in subnodes(p) if b.get("k") == "Binding" and b["local"] in pv.params}
    marks = [c for c in E.walk() if is_vis(A, c, MARKS) and c["args"]]
    # ... or the collection handed to the traversal is created with the root in it (`vec![root]`, `HashSet::from([root])`, ..)
    handed = [a for c in E.walk() if c.get("k") in ("Call", "MethodCall") and call_name(c) == rec.path
              for a in ([c["recv"]] if c.get("k") == "MethodCall" else []) + c["args"] if peel_ty(a.get("t")).strip() in A.vts]
    # ... or the traversal itself marks the file it is called for (its own path, not the resolved path of an import)
    own = [c for c in A.T.walk() if is_vis(A, c, MARKS) and c["args"] and any(("param", p) in A.pv.atoms(c["args"][0]) for p in A.importer)
           and not has_call(A.pv.atoms(c["args"][0]), "resolve_relative_path")]
    # ... wherever that collection is created (a field initialiser of a context struct, a constructor function)
    handed += [x for x in E.walk() if x.get("k") in ("Call", "MethodCall") and peel_ty(x.get("t")).strip() in A.vts]
    if not roots:
        R.undecided("R13-d", "root-visited", "no parameter of %s carries the root file's path" % entry.path, loc=entry.loc())
    else:
        ok = any(("param", r) in pv.atoms(e) for e in [c["args"][0] for c in marks] + handed for r in roots) or bool(own)
        R.check("R13-d", "root-visited", ok, "the root file is marked visited before the traversal",
                "%s does not insert the root document's own path into `visited`: an import cycle leading back to the root appends the "
                "root's own fragments a second time (duplicate definitions => check rejects a valid project)" % entry.path, loc=entry.loc())
    # result = own definitions ++ imported, position preserved
    docs = [x for x in E.walk() if x.get("k") == "Struct" and "rest" not in x and norm(x.get("adt", "")).endswith("OperationDocument")]
    R.floor("R13-d", "result document", len(docs), 1)
    for d in docs:
        a = pv.atoms(d)
        ok = has_field(a, "nitrogql_ast::operation::OperationDocument", "definitions") and has_field(a, "nitrogql_ast::operation::OperationDocument", "position")
        R.check("R13-d", "own-definitions-first", ok, "the result starts from the file's own definitions and keeps its position",
                "the result document is not built from the root's definitions/position", loc=entry.loc())
    # the accumulated list is never shrunk or reordered; the root's own definitions are taken as they are
    bad = [c["method"] for c in E.walk() if c.get("k") == "MethodCall" and c["method"] in LOSSY_OR_REORDERING
           and EXDEF in norm(c.get("recv_ty", "") or "")]
    for c in A.T.walk():
        if c.get("k") == "MethodCall" and c["method"] in IN_PLACE and ("Vec<" + EXDEF) in norm(c.get("recv_ty", "") or "") \
                and has_defs(A, A.pv.atoms(c["recv"])):
            bad.append(c["method"])
    R.check("R13-d", "no-dedup-hacks", not bad, "definitions are never removed/reordered after being appended",
            "definitions list is post-processed with %s" % bad, loc=rec.loc())


# ------------------------------------------------------------------------------------------------------------- R13-e
def extension_resolver(P):
    f = P.fn(SEM + "operation_extension_resolver::resolve_operation_extensions", required=False)
    if f is not None:
        return f
    # by role: OperationDocumentExt -> (OperationDocument, OperationExtension)
    c = [g for g in P.fns.values() if g.path.startswith(SEM) and "::tests::" not in g.path and any("OperationDocumentExt" in t for t in g.sig_inputs)
         and "OperationExtension" in (g.sig_output or "") and "OperationDocument" in (g.sig_output or "")]
    if len(c) != 1:
        raise AnchorMissing("extension resolver (OperationDocumentExt -> (OperationDocument, OperationExtension)): %d candidates" % len(c))
    return c[0]


def may_match(match, value):
    """arms that can be selected for the abstract value, in order: a guarded arm may decline, the first unguarded one ends the search"""
    out = []
    for arm in match["arms"]:
        if pat_matches(arm["pat"], value):
            out.append(arm)
            if "guard" not in arm:
                break
    return out


def r13e(P, R):
    """import lines for one path are merged, whatever lies between them; wildcard/specific exclusivity table"""
    f0 = extension_resolver(P)
    f = inlined(P, f0)
    pv = Prov(f)
    # the lookup of an existing entry must scan the whole list
    removes = [c for c in f.walk() if c.get("k") == "MethodCall" and c["method"] == "remove" and "Import" in norm(c.get("recv_ty", ""))
               and c["args"]]
    R.floor("R13-e", "existing-entry removal", len(removes), 1)
    for c in removes:
        a = pv.deep_atoms(c["args"][0])
        scans = any(x[0] == "call" and x[1].split("::")[-1] in ("position", "find", "rposition", "any", "find_map") for x in a)
        iterates = any(x[0] == "call" and (x[1].endswith("slice::iter") or x[1].endswith("::iter") or x[1].endswith("into_iter")
                                           or x[1].endswith("::iter_mut")) for x in a)
        stored = sorted({short(x[1]) for x in a if x[0] == "call" and ("hash::map::HashMap" in x[1] or "btree::map::BTreeMap" in x[1])})
        trunc = sorted(x[1].split("::")[-1] for x in a if x[0] == "call" and x[1].split("::")[-1] in
                       ("last", "first", "checked_sub", "len", "take", "skip", "nth", "rev", "last_mut", "first_mut", "saturating_sub"))
        if scans and iterates and not trunc and not stored:
            R.holds("R13-e", "merge-scans-all", "an earlier import of the same path is searched among all collected imports", loc=f0.loc())
        elif stored and not scans:
            # an index kept in a map across `remove` on the vector it points into: removing an element shifts every later one
            reindex = sorted({x["method"] for x in f.walk() if x.get("k") == "MethodCall" and ("HashMap<" in norm(x.get("recv_ty") or "") or
                              "BTreeMap<" in norm(x.get("recv_ty") or "")) and x["method"] in
                              ("values_mut", "iter_mut", "clear", "retain", "drain", "extend", "get_mut", "entry", "and_modify")})
            if reindex:
                R.undecided("R13-e", "merge-scans-all", "the entry to merge with is located through an index kept in a map (%s), which is also "
                            "updated with %s; whether it stays valid across `remove` is not decided" % (stored, reindex), loc=f0.loc())
            else:
                R.violated("R13-e", "merge-scans-all",
                           "the index given to `%s` on the list of imports comes from a map (%s) filled when the entry was pushed, but `%s` "
                           "shifts every later entry and the map is never re-indexed: the stored indices go stale, a later merge removes "
                           "another file's entry (its targets are stolen, its import disappears)" % (c["method"], stored, c["method"]), loc=f0.loc())
        elif trunc and not scans:
            R.violated("R13-e", "merge-scans-all",
                       "the index of the import entry to merge with is not found by scanning all collected imports (position/find over "
                       "imports.iter()) but computed with %s: non-adjacent import lines for one file stay separate and the later one is dropped as `visited`"
                       % trunc, loc=f0.loc())
        else:
            R.undecided("R13-e", "merge-scans-all", "how the entry to merge with is located is not recognised (scan=%s iterate=%s positional=%s)"
                        % (scans, iterates, trunc), loc=f0.loc())
        ok = has_field(a, "nitrogql_ast::value::StringValue", "value")
        R.check("R13-e", "merge-by-path", ok, "entries are matched by import path", "entries are not matched by path", loc=f0.loc())
        # ... compared as written, or through a transformation that cannot identify two different files
        BENIGN = ("deref", "as_str", "as_ref", "borrow", "eq", "ne", "clone", "to_owned", "to_string", "as_bytes", "iter", "position", "find", "any",
                  "rposition", "into_iter", "next", "Some", "len", "new", "with_capacity", "push", "iter_mut", "enumerate", "map", "find_map", "copied", "cloned")
        LOSSY_KEY = ("trim_start_matches", "trim_end_matches", "trim_matches", "trim_left_matches", "trim_right_matches", "to_lowercase",
                     "to_uppercase", "to_ascii_lowercase", "to_ascii_uppercase", "replace", "replacen", "file_name", "file_stem", "split",
                     "rsplit", "split_once", "rsplit_once", "trim", "trim_start", "trim_end", "get", "chars", "strip_prefix", "strip_suffix")
        calls = set()
        dropped = set()     # workspace functions on the way to the key that silently discard something
        todo, seen = [(c["args"][0], None)], set()
        while todo:
            e, inside = todo.pop()
            for y in subnodes(e):
                if inside and y.get("k") == "Stmt" and (strip(y.get("e")) or {}).get("k") == "MethodCall" \
                        and strip(y["e"])["method"] in ("pop", "pop_back", "pop_front", "truncate"):
                    # `stack.pop();` with the result ignored: popping an empty stack is a silent no-op — for a path normaliser fed a
                    # *relative* spec a leading `..` vanishes
                    dropped.add("%s (`%s()` with its result ignored)" % (short(inside), strip(y["e"])["method"]))
                if y.get("k") in ("Call", "MethodCall") and not str(y.get("callee_dk", "")).startswith("Ctor") and "desugar" not in (y.get("x") or ""):
                    cn = call_name(y) or ""
                    calls.add(cn)
                    if "inl" not in y and cn in P.fns and cn not in seen and not P.fns[cn].derived:
                        seen.add(cn)
                        todo.append((P.fns[cn].body, cn))
                if y.get("k") == "Path" and "local" in y and y["local"] not in seen:
                    seen.add(y["local"])
                    todo.extend((src, inside) for src, _ in pv.src.get(y["local"], []) if src is not None)
        lossy = sorted(dropped) + sorted(short(cn) for cn in calls if cn.split("::")[-1] in LOSSY_KEY and ("str" in cn or "Path" in cn or "String" in cn))
        other = sorted(short(cn) for cn in calls if cn.split("::")[-1] not in BENIGN and cn.split("::")[-1] not in LOSSY_KEY and cn not in P.fns
                       and not cn.endswith(("Vec<T, A>::remove", "PartialEq::eq")))
        if lossy:
            R.violated("R13-e", "merge-key-injective", "import lines are merged under a key computed with %s: two different paths (e.g. `./f` and "
                       "`../f`) can get the same key, and the names of one line are then looked up in the other line's file" % lossy, loc=f0.loc())
        elif other:
            R.undecided("R13-e", "merge-key-injective", "import lines are merged under a transformed path (%s); injectivity not decided" % other, loc=f0.loc())
        else:
            R.holds("R13-e", "merge-key-injective", "import lines are merged by the literal path string")
    # exclusivity table: the transition (accumulated targets, next target) -> error | new accumulated targets, read off the
    # match over the pair whatever carries the loop (try_fold closure, `for` with early return, helper function).  The variants
    # are identified by shape (unit = wildcard, payload = names), the diagnostics by name while the name exists.
    acc_adt = sem_adt(P, "ImportTargets")
    nxt_adts = [a for p, a in P.adts.items() if p.split("::")[-1] == "ImportTarget" and a.kind == "Enum"]
    if len(nxt_adts) != 1:
        raise AnchorMissing("enum ImportTarget: %d candidates" % len(nxt_adts))
    aW, aS = enum_roles(acc_adt)
    tW, tN = enum_roles(nxt_adts[0])
    diag = {v for p, a in P.adts.items() if p.startswith(SEM + "operation_extension_resolver") and a.kind == "Enum" for v in a.variant_names()}
    def table_value(m, av, tv):
        """abstract value of the scrutinee of `m` when it is the accumulated targets, the next target, or a pair of them"""
        e = strip(m["scrut"])
        def one(x):
            t = peel_ty(x.get("t")).strip().split("<")[0]
            return av if t == acc_adt.path else (tv if t == nxt_adts[0].path else None)
        if e.get("k") == "Tup":
            vs = tuple(one(x) for x in e["es"])
            return vs if any(v is not None for v in vs) else None
        return one(e)

    def is_table(m):
        return m.get("k") == "Match" and m.get("src") == "Normal" and not m.get("x") and table_value(m, "a", "t") is not None

    def kinds(m):
        v = table_value(m, "a", "t")
        return set(v) - {None} if isinstance(v, tuple) else {v}
    roots, covered = [], set()
    for m in f.walk():
        if is_table(m) and id(m) not in covered:
            inner = [x for x in subnodes(m) if x is not m and is_table(x)]
            covered |= {id(x) for x in inner}
            if set().union(kinds(m), *[kinds(x) for x in inner]) == {"a", "t"}:
                roots.append(m)
    R.floor("R13-e", "match over (accumulated targets, next target)", len(roots), 1)

    def outcome(root, av, tv):
        """abstract evaluation of the decision table for one (accumulated kind, next kind): which accumulated kinds can result,
        which diagnostics can be constructed — nested matches are followed for the given kinds, guards fork"""
        succ, errs, dead, tokens = set(), set(), [False], set()

        def walk(x):
            if isinstance(x, list):
                for y in x:
                    walk(y)
                return
            if not isinstance(x, dict):
                return
            if is_table(x):
                arms = may_match(x, table_value(x, av, tv))
                if not arms:
                    dead[0] = True
                for arm in arms:
                    walk(arm["body"])
                return
            if x.get("k") == "Path" and str(x.get("dk", "")).startswith("Ctor"):
                d = norm(x.get("def") or "")
                owner = d.rsplit("::", 1)[0]
                if owner == acc_adt.path:
                    succ.add("Wildcard" if d.split("::")[-1] == aW else "Specific")
                elif owner != nxt_adts[0].path and owner.startswith(SEM) and owner in P.adts and P.adts[owner].kind == "Enum":
                    tokens.add((owner, d.split("::")[-1]))      # an intermediate reason (e.g. a conflict enum), turned into a diagnostic elsewhere
            if x.get("k") == "Struct" and "rest" not in x and "variant" in x:
                errs.add(norm(x["variant"]).split("::")[-1])
            for kk, v in x.items():
                if isinstance(v, (dict, list)) and kk not in ("pat", "params"):
                    walk(v)
        walk(root)
        for owner, variant in tokens:
            # the match that turns the intermediate reason into a diagnostic: follow the arm for this variant
            found = False
            for m2 in f.walk():
                if m2.get("k") == "Match" and m2.get("src") == "Normal" and peel_ty(strip(m2["scrut"]).get("t")).strip().split("<")[0] == owner:
                    for arm in may_match(m2, variant):
                        got = {norm(x["variant"]).split("::")[-1] for x in subnodes(arm["body"]) if x.get("k") == "Struct" and "rest" not in x and "variant" in x}
                        if got:
                            found = True
                            errs |= got
            if not found:
                return "?"
        return None if dead[0] and not succ and not errs else (succ, errs)

    def rejected(s, e, name):
        # no new accumulated value, and the expected diagnostic (any diagnostic, if that name no longer exists)
        return not s and (name in e or (bool(e) and name not in diag))
    for m in roots:
        expect = [
            ("Wildcard", "Wildcard", aW, tW, lambda s, e: rejected(s, e, "WildcardOnlyOnce"), "is rejected (WildcardOnlyOnce)"),
            ("Wildcard", "Name", aW, tN, lambda s, e: rejected(s, e, "WildcardCannotBeCombinedWithSpecific"), "is rejected (WildcardCannotBeCombinedWithSpecific)"),
            ("Specific", "Name", aS, tN, lambda s, e: s == {"Specific"} and not e, "accumulates the name"),
            ("Specific", "Wildcard", aS, tW, lambda s, e: "Wildcard" in s and ("WildcardCannotBeCombinedWithSpecific" in e or
                                                                             (bool(e) and "WildcardCannotBeCombinedWithSpecific" not in diag)),
             "is accepted when no name was given before and rejected otherwise"),
        ]
        for a, b, av, bv, pred, what in expect:
            got = outcome(m, av, bv)
            key = "table:%s+%s" % (a, b)
            if got is None:
                R.undecided("R13-e", key, "no arm of the table matches (%s, %s)" % (a, b), loc=f0.loc())
            elif got == "?":
                R.undecided("R13-e", key, "the row (%s, %s) yields an intermediate error value whose translation into a diagnostic is not found" % (a, b),
                            loc=f0.loc())
            else:
                R.check("R13-e", key, pred(*got), "%s then %s %s" % (a, b, what),
                        "row (%s, %s) of the wildcard/specific table yields targets %s / errors %s; expected: %s"
                        % (a, b, sorted(got[0]), sorted(got[1]), what), loc=f0.loc())
    # definitions pass through in order, one push per variant
    extv = pattern_variants(f.body, "ExecutableDefinitionExt")
    need = set(P.adt("operation_ext::ExecutableDefinitionExt").variant_names())
    R.check("R13-e", "ext-variants", need <= extv, "all definition kinds handled",
            "definition kinds never matched by %s: %s (such definitions are dropped)" % (f0.path, sorted(need - extv)), loc=f0.loc())


NARROWING = ("filter", "filter_map", "retain", "retain_mut", "skip_while", "take_while", "map_while", "extract_if")


NORMALISERS = ("normalize_path", "resolve_relative_path", "canonicalize")
FS_SOURCES = ("std::fs::", "glob", "walkdir", "read_dir", "ignore::")


def index_key_origin(P, impl, budget=400):
    """Where do the keys of the collection that `impl` (an OperationResolver::resolve) looks paths up in come from?
    -> ("violated", "<fn> (<file-system source>)") the backward trace reaches a function that enumerates/reads files and no normaliser
       is applied to the paths between that function's source and the index;
       ("holds", why) a normaliser lies on the way, or the paths are handed in by the host over the C ABI (contract of the host);
       ("undecided", why) the trace does not reach a producer."""
    crate = impl.path.split(" as ")[0].lstrip("<").split("::")[0] if impl.path.startswith("<") else impl.path.split("::")[0]
    fi = inlined(P, impl)
    fp = Prov(fi)
    asked = {fp.params[b["local"]] for p in fi.params[1:] for b in subnodes(p) if b.get("k") == "Binding" and b["local"] in fp.params}
    index_fields = set()
    for x in fi.walk():
        if x.get("k") == "MethodCall" and x["args"] and any(("param", a) in fp.atoms(x["args"][0]) for a in asked):
            index_fields |= {(a[1], a[2]) for a in fp.atoms(x["recv"]) if a[0] == "field" and (a[1] or "").startswith(crate + "::")}
    if not index_fields:
        return "undecided", "the collection the requested path is looked up in is not recognised"
    provs = {}

    def prov(g):
        if g.path not in provs:
            provs[g.path] = Prov(g)
        return provs[g.path]
    crate_fns = [g for g in P.fns.values() if g.crate == impl.crate and g.kind in ("Fn", "AssocFn") and not g.derived
                 and "::tests::" not in g.path and not g.file.endswith("tests.rs")]

    def writers(adt, fname):
        out = []
        for g in crate_fns:
            for x in g.walk():
                if x.get("k") == "Struct" and "rest" not in x and norm(x.get("variant") or x.get("adt") or "") == adt:
                    out += [(g, fl["e"]) for fl in x["fields"] if fl["name"] == fname]
                elif x.get("k") == "MethodCall" and x["method"] in FILLS and x["args"]:
                    r = strip(x["recv"])
                    while r is not None and r.get("k") in ("AddrOf", "Unary"):
                        r = strip(r.get("e"))
                    if r is not None and r.get("k") == "Field" and norm(r.get("adt") or "") == adt and r.get("field") == fname:
                        out += [(g, a) for a in x["args"][:1]]
        return out
    # functions whose return value is produced from the file system (directly, or through another such function)
    leaf_atoms = {}
    for g in crate_fns:
        a = set()
        for leaf in return_leaves(g):
            a |= prov(g).atoms(leaf)
        leaf_atoms[g.path] = a
    producers = {p for p, a in leaf_atoms.items() if any(x[0] == "call" and x[1] not in P.fns and any(s_ in x[1] for s_ in FS_SOURCES) for x in a)}
    grew = True
    while grew:
        grew = False
        for p, a in leaf_atoms.items():
            if p not in producers and any(x[0] == "call" and x[1] in producers for x in a):
                producers.add(p)
                grew = True

    def value_nodes(pv, e):
        """nodes the value of `e` is computed from — not descending into the arguments of a call of a producer (how the root
        directory / the pattern handed to the file-system enumeration was obtained lies *before* the paths exist)"""
        locals_, stack, nodes, atoms = set(), [e], [], set()
        while stack:
            y = stack.pop()
            if isinstance(y, list):
                stack.extend(y)
                continue
            if not isinstance(y, dict):
                continue
            if "k" in y:
                nodes.append(y)
                k = y.get("k")
                if k == "Path" and "local" in y:
                    if y["local"] in pv.params:
                        atoms.add(("param", pv.params[y["local"]]))
                    if y["local"] not in locals_:
                        locals_.add(y["local"])
                        for s_, extra in pv.src.get(y["local"], []):
                            atoms |= set(extra)
                            if s_ is not None:
                                stack.append(s_)
                elif k == "Field" and y.get("adt"):
                    atoms.add(("field", norm(y["adt"]), y["field"]))
                elif k in ("Call", "MethodCall"):
                    c = call_name(y)
                    if c:
                        atoms.add(("call", c))
                    if c in producers:
                        continue
                elif k in ("Binding", "Wild", "TupleStruct", "PatExpr", "Tuple", "Or", "Ref", "Range", "Slice") or (k == "Struct" and "rest" in y):
                    continue
            stack.extend(v for v in y.values() if isinstance(v, (dict, list)))
        return nodes, atoms
    def carries_path(t):
        return "std::path::Path" in (norm(t) or "")

    def field_ty(adt, fname):
        a = P.adts.get(adt)
        vs = a.variants if a is not None else []
        if a is None and "::" in adt and adt.rsplit("::", 1)[0] in P.adts:          # an enum variant with named fields
            vs = [v for v in P.adts[adt.rsplit("::", 1)[0]].variants if v["name"] == adt.rsplit("::", 1)[1]]
        for v in vs:
            for fl in v["fields"]:
                if fl["name"] == fname:
                    return fl["ty"]
        return ""
    todo = [w for adt, fname in index_fields for w in writers(adt, fname)]
    seen, normalised, sources, host = set(), [], [], []
    while todo and budget > 0:
        g, e = todo.pop()
        if e is None or id(e) in seen:
            continue
        seen.add(id(e))
        budget -= 1
        pv = prov(g)
        vnodes, atoms = value_nodes(pv, e)
        src = sorted({a[1] for a in atoms if a[0] == "call" and a[1] not in P.fns and any(s in a[1] for s in FS_SOURCES)})
        # normalisers among the calls this value is computed through; inside the producing function only those applied to what the
        # file-system source returned (normalising the root directory before globbing does not remove a `..` of the pattern)
        for z in vnodes:
            if z.get("k") in ("Call", "MethodCall") and (call_name(z) or "").split("::")[-1] in NORMALISERS:
                za = set()
                for a in ([z["recv"]] if z.get("k") == "MethodCall" else []) + z["args"]:
                    za |= pv.atoms(a)
                if not src or any(a[0] == "call" and a[1] in src for a in za):
                    normalised.append("%s in %s" % ((call_name(z) or "").split("::")[-1], short(g.path)))
        if src:
            sources.append("%s (%s)" % (g.path, ", ".join(short(x) for x in src)))
            continue        # the paths are produced here: what lies before is how the pattern / root was obtained
        if g.abi not in (None, "Rust", "rust") or g.no_mangle:
            host.append(g.path)     # built inside an exported function from what the host passed in
            continue
        for a in atoms:
            if a[0] == "param":
                idx = [i for i, p in enumerate(g.params) for b in subnodes(p) if b.get("k") == "Binding" and pv.params.get(b["local"]) == a[1]]
                if not idx:
                    continue
                # a parameter that is only taken apart (`let Ctx { operations, .. } = ctx`) is followed through the field that
                # is read, not as a whole (its other fields — configuration, root directory — do not flow into the keys)
                if idx[0] < len(g.sig_inputs) and not carries_path(g.sig_inputs[idx[0]]) and "impl " not in g.sig_inputs[idx[0]]:
                    continue        # only values whose type can carry a path are followed
                pty = peel_ty(g.sig_inputs[idx[0]] if idx[0] < len(g.sig_inputs) else "").strip().split("<")[0]
                if any(x[0] == "field" and x[1] and (x[1] == pty or x[1].rsplit("::", 1)[0] == pty) for x in atoms):
                    continue
                if g.abi not in (None, "Rust", "rust") or g.no_mangle:
                    host.append(g.path)
                    continue
                for cp in P.callers_of(g.path):
                    c = P.fns.get(cp)
                    if c is None or "::tests::" in cp or c.derived:
                        continue
                    for x in c.walk():
                        if x.get("k") in ("Call", "MethodCall") and call_name(x) == g.path:
                            args = ([x["recv"]] if x.get("k") == "MethodCall" else []) + x["args"]
                            if idx[0] < len(args):
                                todo.append((c if c.kind in ("Fn", "AssocFn") else c, args[idx[0]]))
            elif a[0] == "field" and (a[1] or "").startswith(crate + "::") and carries_path(field_ty(a[1], a[2])):
                todo.extend(writers(a[1], a[2]))
            elif a[0] == "call" and a[1] in P.fns and P.fns[a[1]].crate == impl.crate and not P.fns[a[1]].derived \
                    and P.fns[a[1]].kind in ("Fn", "AssocFn") and a[1] != g.path and carries_path(P.fns[a[1]].sig_output):
                todo.extend((P.fns[a[1]], leaf) for leaf in return_leaves(P.fns[a[1]]))
    if normalised:
        return "holds", "the indexed paths pass through %s" % sorted(set(normalised))[0]
    if sources:
        return "violated", sorted(set(sources))[0]
    if host:
        return "holds", "the indexed paths are handed in by the host over the C ABI (%s); normalisation is the host's contract" % short(host[0])
    return "undecided", "the producer of the indexed paths was not reached (budget %s)" % ("exhausted" if budget <= 0 else "left")


def r13f(P, R):
    """the resolvers behind `OperationResolver` know every configured document, and the name lists the traversal searches are
    searched in a way that does not presuppose an order"""
    try:
        A = anchors(P)
        entry, pred = A.entry, A.not_rec
    except AnchorMissing:
        # the traversal has another shape (e.g. an explicit work list): the entry point is still the public function by name
        A, pred = None, None
        entry = P.fn(SEM + "operation_import_resolver::resolve_operation_imports")
    # (1) which files a resolver knows must not depend on what a file defines: the index is built where the resolver value is
    # constructed and where the entry point is called from; a narrowing adaptor there whose predicate reads the definitions of the
    # document leaves valid import targets out (=> FileNotFound for a configured file)
    impls = [f for f in P.trait_impls("OperationResolver", "resolve") if "::tests::" not in f.path and "#[cfg(test)]" not in f.file]
    adts = {f.self_adt for f in impls if f.self_adt}
    scope = {}
    for g in P.fns.values():
        if g.derived or "::tests::" in g.path or "/tests" in g.file or g.kind not in ("Fn", "AssocFn"):
            continue
        if entry.path in P.callees_of(g)[0] or any(x.get("k") in ("Struct", "Call", "Path") and "rest" not in x and
                                                      norm(x.get("adt") or x.get("ctor_of") or "").split("<")[0] in adts for x in g.walk()):
            scope[g.path] = g
    R.floor("R13-f", "functions that build a resolver / call the import resolution", len(scope), 1)
    bad = []
    ri = [i for i, t in enumerate(entry.sig_inputs) if "OperationResolver" in t]
    for g in scope.values():
        gi = inlined(P, g, pred=pred)
        gp = Prov(gi)
        # what the resolver is made of: the constructions of a resolver value, and the resolver argument of the entry point
        # (post-processing of the *resolved* document is not import resolution)
        roots = [x for x in gi.walk() if x.get("k") == "Struct" and "rest" not in x and norm(x.get("adt") or "").split("<")[0] in adts]
        roots += [x for x in gi.walk() if x.get("k") == "Call" and norm(x.get("callee") or "").split("<")[0].rsplit("::", 1)[0] in adts]
        for c in gi.walk():
            if c.get("k") == "Call" and call_name(c) == entry.path:
                roots += [c["args"][i] for i in ri if i < len(c["args"])]
        seen_l, todo, nodes = set(), list(roots), []
        while todo:
            e = todo.pop()
            for x in subnodes(e):
                nodes.append(x)
                if x.get("k") == "Path" and "local" in x and x["local"] not in seen_l:
                    seen_l.add(x["local"])
                    todo.extend(src for src, _ in gp.src.get(x["local"], []) if src is not None)
        for x in nodes:
            if x.get("k") == "MethodCall" and x["method"] in NARROWING and x["args"] and \
                    has_field(gp.atoms(x["args"][0]), "nitrogql_ast::operation::OperationDocument", "definitions"):
                bad.append((g, x["method"]))
    if bad:
        g, m = bad[0]
        R.violated("R13-f", "resolver-index", "%s narrows the set of documents with `%s` by looking into their definitions before they reach the "
                   "import resolver: a configured file that happens to define nothing of that kind is unknown to the resolver, and a valid import of "
                   "it is reported as FileNotFound" % (g.path, m), loc=g.loc())
    else:
        R.holds("R13-f", "resolver-index", "no document is left out of a resolver's index because of what it defines (%d functions)" % len(scope))
    # (1a) writer/reader agreement on the spelling of paths: the traversal asks for `resolve_relative_path(..)` results, which are
    # normalised, so the paths under which a resolver indexes its documents must be normalised too.  The index is the collection
    # `resolve` looks the requested path up in; its keys are traced backwards (parameters -> call sites, fields -> where they
    # are set, calls -> what the callee returns) to where the paths are produced.
    for f in impls:
        verdict, detail = index_key_origin(P, f)
        if verdict == "violated":
            R.violated("R13-f", "index-keys-normalised",
                       "%s looks requested files up by the normalised path the traversal computes (resolve_relative_path), but the paths it indexes "
                       "its documents by come from %s un-normalised (no normalize_path/resolve_relative_path between that source and the index): "
                       "with a `..` in the documents pattern every configured document is stored as `/p/a/../b.graphql`, never found as "
                       "`/p/b.graphql`, and each `#import` of it reports FileNotFound" % (short(f.path), detail), loc=f.loc())
        elif verdict == "holds":
            R.holds("R13-f", "index-keys-normalised", "%s: %s" % (short(f.path), detail), loc=f.loc())
        else:
            R.undecided("R13-f", "index-keys-normalised", "%s: %s" % (short(f.path), detail), loc=f.loc())
    # (1b) "file not found exactly when the file is not among the configured documents": a resolver looks the requested path up
    # as it is; a second lookup under a rewritten path (other extension, file name only, parent ...) makes an import of a file that
    # is not configured silently resolve to another file
    REWRITES = ("with_extension", "with_file_name", "set_extension", "set_file_name", "file_name", "file_stem", "parent", "join", "push", "pop",
                "strip_prefix", "ancestors", "to_lowercase", "to_uppercase", "to_ascii_lowercase", "to_ascii_uppercase", "trim_start_matches",
                "trim_end_matches", "replace")
    rewritten = []
    for f in impls:
        fi = inlined(P, f)
        fp = Prov(fi)
        asked = {fp.params[b["local"]] for p in fi.params[1:] for b in subnodes(p) if b.get("k") == "Binding" and b["local"] in fp.params}
        for x in fi.walk():
            if x.get("k") == "MethodCall" and x["method"] in REWRITES and any(("param", a) in fp.atoms(x["recv"]) for a in asked) \
                    and ("path::Path" in norm(x.get("callee") or "") or "str" in norm(x.get("callee") or "") or "OsStr" in norm(x.get("callee") or "")):
                rewritten.append((f, x["method"]))
    if rewritten:
        f, m = rewritten[0]
        R.violated("R13-f", "resolver-key", "%s also looks the requested file up under a rewritten path (`%s`): an import of a file that is not among "
                   "the configured documents resolves to a different file instead of being reported as FileNotFound" % (f.path, m), loc=f.loc())
    elif impls:
        R.holds("R13-f", "resolver-key", "resolvers look up exactly the requested path (%d impls)" % len(impls))
    # (2) a binary search over the names of an import presupposes that every Import is constructed with a sorted list
    if A is None:
        reach = [P.fns[p] for p in P.reachable([entry]) if p.startswith(SEM)]
        if any(x.get("k") == "MethodCall" and x["method"].startswith("binary_search") and "base::Ident" in norm(x.get("recv_ty") or "")
               for g in reach for x in g.walk()):
            R.undecided("R13-f", "name-search", "the import traversal is not located on this shape of the code; its binary search over names is not decided")
        else:
            R.holds("R13-f", "name-search", "requested names are looked up by a scan / hash lookup (no order presupposed)", loc=entry.loc())
        return
    T, pv = A.T, A.pv
    searches = [x for x in T.walk() if x.get("k") == "MethodCall" and x["method"].startswith("binary_search")
                and has_field(pv.atoms(x["recv"]), A.import_adt, "targets")]
    if not searches:
        R.holds("R13-f", "name-search", "requested names are looked up by a scan / hash lookup (no order presupposed)", loc=A.rec.loc())
        return
    f0 = extension_resolver(P)
    f = inlined(P, f0)
    acc = f.nodes()
    ctors = [i for i, (x, _) in enumerate(acc) if x.get("k") == "Struct" and "rest" not in x and norm(x.get("adt") or "") == A.import_adt]
    sorts = [i for i, (x, _) in enumerate(acc) if x.get("k") == "MethodCall" and x["method"].startswith("sort")]
    tadt = sem_adt(P, "ImportTargets").path

    def conds(i):
        # guards that are not the dispatch on the kind of targets (only a list of names can be sorted)
        return {id(g.get("node") or g.get("arm") or g["e"]) for g in guards_of(f, i) if g["kind"] in ("cond", "pat", "arm")
                and not pattern_variants(g.get("pat") if g.get("pat") is not None else g["e"], tadt.split("::")[-1])}
    if not ctors:
        R.undecided("R13-f", "name-search", "the traversal uses %s on import.targets; where Import values are built is not recognised" % searches[0]["method"],
                    loc=A.rec.loc())
    elif not sorts:
        R.violated("R13-f", "name-search", "the traversal looks requested names up with `%s`, but %s never sorts the list it stores in an Import: names "
                   "written out of order are not found and their fragments are silently dropped" % (searches[0]["method"], f0.path), loc=A.rec.loc())
    else:
        extra = [s_ for s_ in sorts if all(conds(s_) - conds(c) for c in ctors)]
        if len(extra) == len(sorts):
            R.violated("R13-f", "name-search", "the traversal looks requested names up with `%s`, but %s sorts the list only under a condition that "
                       "does not hold for every Import it builds (e.g. only when several import lines are merged): a single line whose names are "
                       "written out of order is searched unsorted, and fragments it asks for are silently dropped"
                       % (searches[0]["method"], f0.path), loc=A.rec.loc())
        else:
            R.holds("R13-f", "name-search", "`%s` over a list that is sorted wherever an Import is built" % searches[0]["method"], loc=A.rec.loc())


RULES = [("R13-a", r13a), ("R13-b", r13b), ("R13-c", r13c), ("R13-d", r13d), ("R13-e", r13e), ("R13-f", r13f)]
EXPLANATION = (
    "Structural necessary conditions of import resolution, decided on the traversal located by role (the directly recursive "
    "function that resolves import paths and asks the OperationResolver; its shared state — visited collection, accumulated "
    "definitions — being `&mut` parameters or fields of a context struct) with its helpers inlined: (R13-a) the recursive call is dominated "
    "by a membership test on and an insertion into the visited set (MIR dominators), is only reached for a file known to be fresh, "
    "and the visited set is never shrunk; (R13-b) contains/insert/resolve are keyed by resolve_relative_path(importer, import.path) "
    "and recursion continues from the imported file; when the visited keys are texts rather than path values every return of "
    "resolve_relative_path passes through the normaliser its sibling returns use; (R13-c) targets are honoured on every path through the loop, each kind of "
    "import appends, only fragments, specific ones by name, and dangling file / missing name produce their diagnostics under "
    "conditions on the resolver's answer / the imported document; (R13-d) the root is marked visited, the result starts from the "
    "root's own definitions; (R13-e) import lines for one path are merged by scanning all collected imports (not by a positional guess, not by an index "
    "stored in a map across `remove`), and the "
    "wildcard/specific transition table has the four expected rows. Not decided: result = reference closure for all graphs.")
ASSUMPTIONS = ["std::collections::HashSet / BTreeSet semantics", "nitrogql_utils::resolve_relative_path normalises paths (C20, not claimed)"]


def main(tier):
    return harness.run_property("C13", RULES, "other", EXPLANATION, ASSUMPTIONS, tier)
