"""C10 — Schema and resolver declaration files describe exactly the schema (structural clauses)."""
import harness
from facts import (norm, call_name, short, subnodes, lit_value, matches_on, arm_variants, field_reads, peel_ty, str_lits_in)
from prov import Prov, has_field, has_call
from templates import variant_table, enclosing_contexts, LOSSY_OR_REORDERING
from tsrules import namespace_targets, all_elements

PR = "nitrogql_printer::"
A = "nitrogql_ast::"
TSP = PR + "schema_type_printer::type_printer::TypePrinter"
CTX = PR + "schema_type_printer::context::SchemaTypePrinterContext"


def impl(P, adt, method="print_type"):
    return P.fn("<" + A + "type_system::" + adt + " as " + TSP + ">::" + method)


def r10a(P, R):
    """kind x target table: which definition kinds are printed in which namespaces"""
    want = {"ObjectTypeDefinition": "is_input", "InterfaceTypeDefinition": "is_input", "UnionTypeDefinition": "is_input",
            "InputObjectTypeDefinition": "is_output", "ScalarTypeDefinition": None, "EnumTypeDefinition": None}
    for adt, guard in sorted(want.items()):
        f = impl(P, adt)
        skips = []
        for i in f.walk():
            if i.get("k") == "If":
                ms = [c["method"] for c in subnodes(i["cond"]) if c.get("k") == "MethodCall" and c["method"] in ("is_input", "is_output")]
                ret_ok = any(x.get("k") == "Ret" for x in subnodes(i["then"]))
                neg = any(x.get("k") == "Unary" and x.get("op") == "Not" for x in subnodes(i["cond"]))
                if ms and ret_ok:
                    skips.append((ms[0], neg))
        if guard is None:
            R.check("R10-a", "kind-target:" + adt, not skips, "printed for all four targets", "%s is skipped for some target (%s)" % (adt, skips), loc=f.loc())
        else:
            R.check("R10-a", "kind-target:" + adt, skips == [(guard, False)], "skipped exactly when target.%s()" % guard,
                    "%s is skipped under %s; it must be skipped exactly for %s targets" % (adt, skips, "input" if guard == "is_input" else "output"), loc=f.loc())
    # objects: `__typename` is the literal of the *schema* name (never the clash-avoiding local alias)
    o = impl(P, "ObjectTypeDefinition")
    opv = Prov(o)
    sl = [c for c in o.walk() if c.get("k") == "Call" and norm(c.get("callee", "")).endswith("TSType::StringLiteral")]
    R.floor("R10-a", "__typename literal in object declarations", len(sl), 1)
    for c in sl:
        a = opv.atoms(c["args"][0])
        ok = has_field(a, A + "type_system::ObjectTypeDefinition", "name") and not has_field(a, CTX, "local_type_names")
        R.check("R10-a", "typename-literal", ok, "__typename: \"<schema name of the object>\"",
                "the __typename literal of an object declaration is computed from %s: a renamed object gets `__typename: \"__tmp_X\"`"
                % ("context.local_type_names" if has_field(a, CTX, "local_type_names") else "something other than the object's name"), loc=o.loc())
    tt = P.fn("nitrogql_config_file::type_target::TypeTarget::is_output")
    for m in tt.walk():
        if m.get("k") == "Match":
            v, _ = arm_variants(m)
            R.check("R10-a", "target:is_output", v == {"OperationOutput", "ResolverOutput"}, "output targets", "is_output is true for %s" % sorted(v), loc=tt.loc())
    ti = P.fn("nitrogql_config_file::type_target::TypeTarget::is_input")
    ok = any(x.get("k") == "Unary" and x.get("op") == "Not" for x in ti.walk()) and any((call_name(x) or "").endswith("is_output") for x in ti.walk() if x.get("k") == "MethodCall")
    R.check("R10-a", "target:is_input", ok, "is_input = !is_output", "is_input is not the complement of is_output", loc=ti.loc())
    # one namespace per target; every definition printed in each
    pd = P.fn(PR + "schema_type_printer::printer::SchemaTypePrinter::print_document")
    targets = {norm(x.get("def", "")).split("::")[-1] for x in pd.walk() if x.get("k") == "Path" and "type_target::TypeTarget::" in norm(x.get("def", ""))}
    R.check("R10-a", "four-namespaces", targets == {"OperationInput", "OperationOutput", "ResolverInput", "ResolverOutput"}, "four target namespaces",
            "print_document prints namespaces for %s" % sorted(targets), loc=pd.loc())
    all_elements(P, R, "R10-a", pd, A + "type_system::TypeSystemDocument", "definitions", "schema definitions")
    for enum in ("type_system::TypeSystemDefinition", "type_system::TypeDefinition"):
        adt = P.adt(A + enum)
        for f in P.trait_impls(TSP, "print_type"):
            for m in matches_on(f, enum):
                v, catch = arm_variants(m)
                R.check("R10-a", "dispatch:%s" % enum.split("::")[-1], v == set(adt.variant_names()) and not catch, "every kind dispatched",
                        "%s dispatches %s" % (f.path, sorted(v)), loc=f.loc())


def r10b(P, R):
    """local-name discipline (observation only, see DESIGN.md R10-b) + identifier bag character classes"""
    sites = []
    for adt in ("ObjectTypeDefinition", "InterfaceTypeDefinition", "UnionTypeDefinition", "InputObjectTypeDefinition"):
        f = impl(P, adt)
        pv = Prov(f)
        for c in f.walk():
            if c.get("k") == "Call" and norm(c.get("callee", "")).endswith("TSType::TypeVariable"):
                a = pv.atoms(c["args"][0])
                sites.append((adt, has_field(a, CTX, "local_type_names")))
    via_local = [s for s in sites if s[1]]
    direct = [s for s in sites if not s[1]]
    R.floor("R10-b", "schema type references", len(sites), 4)
    R.holds("R10-b", "local-names:used", "%d of %d schema-type references go through context.local_type_names" % (len(via_local), len(sites)))
    if direct:
        R.note("observation R10-b: %s refer to schema types by their schema name, not through local_type_names (a clash with an identifier "
               "of a scalar's TypeScript type would resolve to the outer name). Not raised as a violation: its defect-ness rests on TypeScript "
               "scoping and no TypeScript compiler is available to substantiate it." % sorted(set(d[0] for d in direct)))
    # get_bag_of_identifiers: identifier start and continuation both admit `_`
    g = P.fn(PR + "schema_type_printer::context::get_bag_of_identifiers")
    us = [x for x in g.walk() if x.get("k") == "Binary" and x.get("op") in ("==", "!=") and lit_value(x["r"]) == "_"]
    starts = [c["method"] for c in g.walk() if c.get("k") == "MethodCall" and c["method"] in ("is_ascii_alphabetic", "is_ascii_alphanumeric", "is_alphabetic", "is_alphanumeric")]
    R.check("R10-b", "identifier-classes", len(us) == 2 and sorted(starts) == ["is_ascii_alphabetic", "is_ascii_alphanumeric"],
            "identifier = [A-Za-z_][A-Za-z0-9_]*", "get_bag_of_identifiers scans identifiers with start/continue classes %s and %d `_` tests: an "
            "identifier containing `_` is split, so a clashing schema type is not renamed" % (starts, len(us)), loc=g.loc())
    ml = P.fn(PR + "schema_type_printer::context::make_local_type_names")
    pv = Prov(ml)
    ok = has_call(pv.atoms(ml.body), "context::get_bag_of_identifiers") and any(c.get("k") == "MethodCall" and c["method"] == "contains" for c in ml.walk())
    R.check("R10-b", "rename-on-clash", ok, "a schema type is renamed iff its name is in the identifier bag", "make_local_type_names does not test membership in the identifier bag", loc=ml.loc())
    # the identifier bag covers the scalar mappings of *all four* targets: the module-level alias `export type X = ...` is shared by
    # every namespace, so a clash in any target's mapping must rename X everywhere
    CFGS = "nitrogql_config_file::scalar_type::"
    gpv = Prov(g)
    ga = gpv.atoms(g.body)
    tt_params = [short(f.path) for f in (g, ml) for t in f.sig_inputs if "TypeTarget" in t]
    ok = has_call(ga, "ScalarTypeConfig::type_names") and not has_call(ga, "ScalarTypeConfig::get_type") and not tt_params
    R.check("R10-b", "bag-all-targets", ok, "the bag is built from ScalarTypeConfig::type_names() (every target's mapping)",
            "the identifier bag is built per target (%s): a schema type whose name occurs only in another target's scalar mapping is not renamed, "
            "and the shared module-level alias of that name shadows the global identifier inside that target's namespace"
            % (tt_params or "get_type(target) instead of type_names()"), loc=g.loc())
    tn = P.fn(CFGS + "ScalarTypeConfig::type_names")
    tpv = Prov(tn)
    for m in matches_on(tn, "ScalarTypeConfig"):
        tab = variant_table(m)
        for k, adt_name in (("SendReceive", "SendReceiveScalarTypeConfig"), ("Separate", "SeparateScalarTypeConfig")):
            arm = tab.get(k)
            adt = P.adt(CFGS + adt_name)
            got = {x[2] for x in tpv.atoms(arm["body"]) if x[0] == "field" and x[1] == adt.path} if arm else set()
            R.check("R10-b", "type-names:" + k, got == set(adt.fields()), "type_names() lists every mapping of a %s config" % k,
                    "ScalarTypeConfig::type_names omits %s of a %s config: identifiers of that mapping never enter the clash bag"
                    % (sorted(set(adt.fields()) - got), k), loc=tn.loc())
    # export_type: the renamed alias is re-exported under the schema name
    for name in ("export_type", "export_representative"):
        f = P.fn(PR + "schema_type_printer::type_printer::" + name)
        conds = [i for i in f.walk() if i.get("k") == "If" and i["cond"].get("k") == "Binary" and i["cond"].get("op") == "=="]
        lits = str_lits_in(f.body)
        ok = len(conds) == 1 and any("export type {" in l or "export type {{" in l for l in lits) and any(" as " in l for l in lits)
        R.check("R10-b", "re-export:" + name, ok, "renamed aliases are re-exported as the schema name", "%s does not re-export a renamed alias under its schema name" % name, loc=f.loc())


def r10c(P, R):
    """emitted text stays well-formed whatever the descriptions contain"""
    f = P.fn(PR + "jsdoc::print_description")
    pv = Prov(f)
    body_writes = []
    for c in f.walk():
        if c.get("k") == "MethodCall" and c["method"] == "write" and lit_value(c["args"][0]) is None:
            body_writes.append(c)
    R.floor("R10-c", "comment body writes", len(body_writes), 1)
    for c in body_writes:
        calls = {x[1].split("::")[-1] for x in pv.atoms(c["args"][0]) if x[0] == "call"}
        lits = {x[1] for x in pv.atoms(c["args"][0]) if x[0] == "lit"}
        sanitised = ("replace" in calls or "replacen" in calls) and "*/" in lits
        other = calls - {"lines", "next", "into_iter", "dedent", "replace", "as_str", "deref", "skip_chars", "push_str", "new", "collect", "to_string", "clone", "from"}
        R.check("R10-c", "comment-terminator", sanitised or bool(other),
                "`*/` is neutralised before the text is written into the /** */ comment",
                "print_description writes description text into a /** ... */ comment through substring-preserving functions only (%s): a "
                "description containing `*/` ends the comment early and leaves invalid TypeScript" % sorted(calls), loc=f.loc())
    ops = str_lits_in(f.body)
    R.check("R10-c", "comment-delimiters", "/**\n" in ops and " */\n" in ops, "comment opened and closed", "JSDoc delimiters changed: %s" % ops, loc=f.loc())
    # all description text goes through print_description (no other `/*` emitter)
    emitters = []
    for g in P.fns.values():
        if g.path.startswith((PR, "<" + A)) and "::tests" not in g.path and not g.derived and g.path != f.path:
            if any(isinstance(l, str) and ("/*" in l) for l in str_lits_in(g.body)):
                emitters.append(g.path)
    R.check("R10-c", "single-comment-emitter", not emitters, "only jsdoc::print_description opens comments", "other comment emitters: %s" % emitters)
    # string literals and object keys are only fed by GraphQL names
    pt = P.fn(PR + "ts_types::TSType::print_type")
    raw = P.fn(PR + "ts_types::is_raw_ident")
    R.check("R10-c", "quoted-keys", any((call_name(c) or "") == raw.path for c in pt.walk() if c.get("k") == "Call"), "non-identifier keys are quoted",
            "object keys are written without the identifier test", loc=pt.loc())


def r10d(P, R):
    """resolver declarations"""
    g = P.fn(PR + "resolver_type_printer::visitor::get_resolver_type")
    want = {"Scalar": None, "Enum": None, "InputObject": None, "Object": "get_object_resolver_type", "Interface": "get_interface_resolver_type", "Union": "get_union_resolver_type"}
    for m in matches_on(g, "type_system::TypeDefinition"):
        tab = variant_table(m)
        for k, w in sorted(want.items()):
            arm = tab.get(k)
            calls = [short(call_name(x)).split("::")[-1] for x in subnodes(arm["body"]) if x.get("k") == "Call" and (call_name(x) or "").startswith(PR)] if arm else ["?"]
            R.check("R10-d", "resolver-kind:" + k, (calls == [w]) if w else (calls == []), "%s -> %s" % (k, w or "no resolver"),
                    "get_resolver_type maps %s to %s (expected %s)" % (k, calls, w), loc=g.loc())
    o = P.fn(PR + "resolver_type_printer::visitor::get_object_resolver_type")
    all_elements(P, R, "R10-d", o, A + "type_system::ObjectTypeDefinition", "fields", "object fields (each needs a resolver)")
    pv = Prov(o)
    ofs = [n for n in o.walk() if n.get("k") == "Struct" and "rest" not in n and norm(n.get("adt", "")).endswith("ts_types::ObjectField")]
    for x in ofs:
        opt = lit_value([y for y in x["fields"] if y["name"] == "optional"][0]["e"])
        R.check("R10-d", "resolver-required", opt is False, "every field resolver is required", "field resolvers are optional", loc=o.loc())
    tf = [c for c in o.walk() if c.get("k") == "Call" and norm(c.get("callee", "")).endswith("TSType::TypeFunc")]
    ok = False
    for c in tf:
        vec_args = [x for x in subnodes(c["args"][1]) if x.get("k") == "Path" and "local" in x]
        names = [x.get("name") for x in vec_args]
        if names[:1] == ["parent_type"] and "arguments_type" in names and "result_type" in names and names.index("arguments_type") < names.index("result_type"):
            ok = True
    R.check("R10-d", "resolver-signature", ok, "__Resolver<Parent, Args, Context, Result> in this order", "resolver type arguments are not (parent, args, context, result)", loc=o.loc())
    a = P.fn(PR + "resolver_type_printer::visitor::arguments_definition_to_ts")
    namespace_targets(P, R, "R10-d", a, "ResolverInput", 1)
    all_elements(P, R, "R10-d", a, A + "type_system::ArgumentsDefinition", "input_values", "arguments")
    ro = P.fn(PR + "resolver_type_printer::visitor::get_ts_type_for_resolver_output")
    namespace_targets(P, R, "R10-d", ro, "ResolverOutput", 1)
    # abstract types: __resolveType over exactly the possible types
    i = P.fn(PR + "resolver_type_printer::visitor::get_interface_resolver_type")
    pvi = Prov(i)
    R.check("R10-d", "interface-possible-types", has_call(pvi.atoms(i.body), "utils::interface_implementers") and "__resolveType" in str_lits_in(i.body),
            "__resolveType over the interface's implementers", "interface type resolver is not built from interface_implementers", loc=i.loc())
    lossy = [c["method"] for c in i.walk() if c.get("k") == "MethodCall" and c["method"] in LOSSY_OR_REORDERING]
    R.check("R10-d", "interface-all-implementers", not lossy, "all implementers", "implementers are filtered with %s" % lossy, loc=i.loc())
    u = P.fn(PR + "resolver_type_printer::visitor::get_union_resolver_type")
    all_elements(P, R, "R10-d", u, A + "type_system::UnionTypeDefinition", "members", "union members")
    # implementer lookup: objects that list the interface
    imp = P.fn(PR + "utils::interface_implementers")
    pvm = Prov(imp)
    am = pvm.atoms(imp.body)
    ok = has_call(am, "Schema::iter_types") and has_field(am, "graphql_type_system::definitions::ObjectDefinition", "interfaces") and ("param", "interface_name") in am
    R.check("R10-d", "implementers-definition", ok, "implementers = objects whose `interfaces` contain the interface name, in schema order",
            "interface_implementers is not `objects whose interfaces contain the name`", loc=imp.loc())
    # schema declarations: interface = union of implementers, union = its members
    si = impl(P, "InterfaceTypeDefinition")
    R.check("R10-d", "interface-alias", has_call(Prov(si).atoms(si.body), "utils::interface_implementers"), "interface alias = union of implementers",
            "interface declarations are not built from interface_implementers", loc=si.loc())
    su = impl(P, "UnionTypeDefinition")
    all_elements(P, R, "R10-d", su, A + "type_system::UnionTypeDefinition", "members", "union members")
    # resolver root: one entry per type definition of the (plugin-transformed) document
    pd = P.fn(PR + "resolver_type_printer::printer::ResolverTypePrinter::print_document")
    pvp = Prov(pd)
    ok = any((call_name(c) or "").endswith("get_resolver_type") for c in pd.walk() if c.get("k") == "Call") and \
        any(c.get("k") == "MethodCall" and c["method"] == "transform_document_for_resolvers" for c in pd.walk())
    # plugins compose: each plugin transforms the result of the previous one
    tcalls = [(i, c) for i, (c, _) in enumerate(pd.nodes()) if c.get("k") == "MethodCall" and c["method"] == "transform_document_for_resolvers"]
    for i, c in tcalls:
        cls = [x for x in enclosing_contexts(pd, i) if x[0] == "closure"]
        folds = [n for n in pd.walk() if n.get("k") == "MethodCall" and n["method"] == "fold" and any(a is cls[0][1] for a in n["args"])] if cls else []
        if not folds:
            R.undecided("R10-d", "plugins-compose", "plugin transformations are not applied by a fold over the plugin list", loc=pd.loc())
            continue
        acc = [b["local"] for b in subnodes(cls[0][1]["params"][0]) if b.get("k") == "Binding"]
        used = {y.get("local") for y in subnodes(c["args"][0]) if y.get("k") == "Path"}
        R.check("R10-d", "plugins-compose", bool(set(acc) & used), "each plugin receives the document produced by the previous plugins",
                "in the fold over plugins, transform_document_for_resolvers is not given the accumulated document: only the last transforming "
                "plugin takes effect and the fields excluded by earlier plugins require resolvers again", loc=pd.loc())
    R.floor("R10-d", "plugin transformation sites", len(tcalls), 1)
    R.check("R10-d", "resolver-root", ok, "Resolvers maps every type definition of the plugin-transformed document", "resolver root no longer covers every definition", loc=pd.loc())


def r10e(P, R):
    """input objects: readonly fields, optional iff nullable (per option); shared nullability table"""
    from c09 import coupling, SOPT
    g = impl(P, "InputObjectTypeDefinition")
    coupling(P, R, "R10-e", g, SOPT, "input_nullable_field_is_optional", "input-object")
    all_elements(P, R, "R10-e", g, A + "type_system::InputObjectTypeDefinition", "fields", "input fields")
    ofs = [n for n in g.walk() if n.get("k") == "Struct" and "rest" not in n and norm(n.get("adt", "")).endswith("ts_types::ObjectField")]
    for x in ofs:
        ro = lit_value([y for y in x["fields"] if y["name"] == "readonly"][0]["e"])
        R.check("R10-e", "input-readonly", ro is True, "input fields are readonly", "input fields are not readonly", loc=g.loc())
    R.check("R10-e", "input-deep-readonly", any(c.get("k") == "MethodCall" and c["method"] == "into_readonly" for c in g.walk()),
            "arrays inside input types are readonly", "into_readonly() is no longer applied to input field types", loc=g.loc())
    e = impl(P, "EnumTypeDefinition")
    all_elements(P, R, "R10-e", e, A + "type_system::EnumTypeDefinition", "values", "enum members")
    o = impl(P, "ObjectTypeDefinition")
    all_elements(P, R, "R10-e", o, A + "type_system::ObjectTypeDefinition", "fields", "object fields")
    # object/input fields refer to other schema types through the local names of the same namespace
    for adt in ("ObjectTypeDefinition", "InputObjectTypeDefinition"):
        f = impl(P, adt)
        pv = Prov(f)
        tv = [c for c in f.walk() if c.get("k") == "Call" and norm(c.get("callee", "")).endswith("TSType::TypeVariable")]
        ok = bool(tv) and all(has_field(pv.atoms(c["args"][0]), CTX, "local_type_names") for c in tv)
        R.check("R10-e", "field-type-refs:" + adt, ok, "field types refer to the (possibly renamed) local aliases",
                "%s refers to field types without going through local_type_names" % f.path, loc=f.loc())


RULES = [("R10-a", r10a), ("R10-b", r10b), ("R10-c", r10c), ("R10-d", r10d), ("R10-e", r10e)]
EXPLANATION = (
    "Schema/resolver declarations, structural clauses: (R10-a) the kind x target table (objects, interfaces and unions skipped exactly "
    "for input targets, input objects exactly for output targets, scalars and enums never), four namespaces, every definition and kind "
    "dispatched; (R10-b) renaming on clashes: identifier classes of the scalar-type scanner, rename iff in the bag, renamed aliases "
    "re-exported under the schema name (direct references to schema names are reported as an observation only); (R10-c) the JSDoc "
    "body neutralises `*/`, there is a single comment emitter, non-identifier keys are quoted; (R10-d) resolver kind table, every "
    "object field gets a required resolver with (parent, args, context, result), args in ResolverInput and results in ResolverOutput, "
    "abstract types resolve over exactly implementers/members, implementer definition. Nullability tables are shared with C09/C02. "
    "Not decided: [[alias]] = Ref(T); TypeScript well-formedness beyond the listed contexts.")
ASSUMPTIONS = ["TypeScript scoping of names inside `declare namespace` (not analysed; R10-b observation)", "GraphQL names need no escaping in TypeScript string literals"]


def main(tier):
    return harness.run_property("C10", RULES, "other", EXPLANATION, ASSUMPTIONS, tier)
