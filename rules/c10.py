"""C10 — Schema and resolver declaration files describe exactly the schema (structural clauses)."""
import harness
from facts import (norm, call_name, short, subnodes, lit_value, matches_on, arm_variants, field_reads, peel_ty, str_lits_in)
from prov import Prov, has_field, has_call
from templates import variant_table, enclosing_contexts, LOSSY_OR_REORDERING, inlined
from tsrules import namespace_targets
from c09 import all_elements, inl, member_type_pure, bag_all_targets, bag_renamer, scalar_map_precedence, rename_for_every_kind
from c14 import stable_pred, sections, require_fields

PR = "nitrogql_printer::"
A = "nitrogql_ast::"
TSP = PR + "schema_type_printer::type_printer::TypePrinter"
CTX = PR + "schema_type_printer::context::SchemaTypePrinterContext"


def impl(P, adt, method="print_type"):
    return P.fn("<" + A + "type_system::" + adt + " as " + TSP + ">::" + method)


def r10a(P, R):
    """kind x target table: which definition kinds are printed in which namespaces"""
    def _part0():
        want = {"ObjectTypeDefinition": "is_input", "InterfaceTypeDefinition": "is_input", "UnionTypeDefinition": "is_input",
                "InputObjectTypeDefinition": "is_output", "ScalarTypeDefinition": None, "EnumTypeDefinition": None}
        for adt, guard in sorted(want.items()):
            f0 = impl(P, adt)
            f = inlined(P, f0)
            skips, tests = [], 0
            for i in f.walk():
                if i.get("k") == "MethodCall" and i["method"] in ("is_input", "is_output") and peel_ty(i.get("recv_ty") or i["recv"].get("t")).endswith("::TypeTarget"):
                    tests += 1
                if i.get("k") == "If":
                    ms = [c["method"] for c in subnodes(i["cond"]) if c.get("k") == "MethodCall" and c["method"] in ("is_input", "is_output")]
                    ret_ok = any(x.get("k") == "Ret" for x in subnodes(i["then"]))
                    neg = sum(1 for x in subnodes(i["cond"]) if x.get("k") == "Unary" and x.get("op") == "Not") % 2 == 1
                    if ms and ret_ok:
                        # canonical form: "skipped for input targets" (is_input / !is_output) or "for output targets"
                        skips.append("input" if (ms[0] == "is_input") != neg else "output")
            key = "kind-target:" + adt
            if guard is None:
                R.check("R10-a", key, not skips, "printed for all four targets", "%s is skipped for %s targets; scalars and enums are declared in every "
                        "namespace" % (adt, skips), loc=f0.loc())
                continue
            side = "input" if guard == "is_input" else "output"
            if skips:
                R.check("R10-a", key, all(x == side for x in skips), "skipped exactly when target.%s()" % guard,
                        "%s is skipped for %s targets; it must be skipped exactly for %s targets" % (adt, sorted(set(skips)), side), loc=f0.loc())
            elif tests:
                R.undecided("R10-a", key, "%s tests the target direction but not as an early `return` under `if target.is_input()/is_output()`; for "
                            "which targets the declaration is skipped is not decided on this shape" % f0.path, loc=f0.loc())
            else:
                R.violated("R10-a", key, "%s never tests the direction of the target (is_input/is_output): the declaration is printed for all four "
                           "targets, it must be skipped for %s targets" % (f0.path, side), loc=f0.loc())

    def _part1():
        # objects: `__typename` is the literal of the *schema* name (never the clash-avoiding local alias)
        require_fields(P, (CTX, "local_type_names"), (A + "type_system::ObjectTypeDefinition", "name"))
        o = inl(P, impl(P, "ObjectTypeDefinition"))
        opv = Prov(o)
        sl = [c for c in o.walk() if c.get("k") == "Call" and norm(c.get("callee", "")).endswith("TSType::StringLiteral") and c["args"]]
        R.floor("R10-a", "__typename literal in object declarations", len(sl), 1)
        for c in sl:
            a = opv.atoms(c["args"][0])
            via_local = has_field(a, CTX, "local_type_names")
            if has_field(a, A + "type_system::ObjectTypeDefinition", "name") and not via_local:
                R.holds("R10-a", "typename-literal", "__typename: \"<schema name of the object>\"", loc=o.loc())
            elif via_local:
                R.violated("R10-a", "typename-literal", "the __typename literal of an object declaration is computed from context.local_type_names: a renamed "
                           "object gets `__typename: \"__tmp_X\"`", loc=o.loc())
            else:
                R.undecided("R10-a", "typename-literal", "a string literal type in %s was not traced back to the object's name" % o.path, loc=o.loc())

    def _part2():
        # which targets count as output / input
        tt = P.fn("nitrogql_config_file::type_target::TypeTarget::is_output")
        for m in tt.walk():
            if m.get("k") == "Match":
                v, _ = arm_variants(m)
                R.check("R10-a", "target:is_output", v == {"OperationOutput", "ResolverOutput"}, "output targets", "is_output is true for %s" % sorted(v), loc=tt.loc())
        ti = P.fn("nitrogql_config_file::type_target::TypeTarget::is_input")
        neg = any(x.get("k") == "Unary" and x.get("op") == "Not" for x in ti.walk())
        calls_out = any((call_name(x) or "").endswith("is_output") for x in ti.walk() if x.get("k") == "MethodCall")
        tim = [m for m in ti.walk() if m.get("k") == "Match"]
        if neg and calls_out:
            R.holds("R10-a", "target:is_input", "is_input = !is_output", loc=ti.loc())
        elif tim:
            v, _ = arm_variants(tim[0])
            R.check("R10-a", "target:is_input", v == {"OperationInput", "ResolverInput"}, "input targets", "is_input is true for %s" % sorted(v), loc=ti.loc())
        elif calls_out:
            R.violated("R10-a", "target:is_input", "is_input calls is_output without negating it: is_input is not the complement of is_output", loc=ti.loc())
        else:
            R.undecided("R10-a", "target:is_input", "is_input is neither `!is_output()` nor a match over the targets", loc=ti.loc())

    def _part3():
        # one namespace per target; every definition printed in each
        pd = inl(P, P.fn(PR + "schema_type_printer::printer::SchemaTypePrinter::print_document"))
        targets = {norm(x.get("def", "")).split("::")[-1] for x in pd.walk() if x.get("k") == "Path" and "type_target::TypeTarget::" in norm(x.get("def", ""))}
        allt = {"OperationInput", "OperationOutput", "ResolverInput", "ResolverOutput"}
        if targets == allt:
            R.holds("R10-a", "four-namespaces", "four target namespaces", loc=pd.loc())
        elif targets:
            R.violated("R10-a", "four-namespaces", "print_document prints namespaces for %s only (missing %s)" % (sorted(targets), sorted(allt - targets)), loc=pd.loc())
        else:
            R.undecided("R10-a", "four-namespaces", "print_document names no TypeTarget constant (the targets may be enumerated elsewhere)", loc=pd.loc())
        all_elements(P, R, "R10-a", pd, A + "type_system::TypeSystemDocument", "definitions", "schema definitions")
        for enum in ("type_system::TypeSystemDefinition", "type_system::TypeDefinition"):
            adt = P.adt(A + enum)
            for f in P.trait_impls(TSP, "print_type"):
                for m in matches_on(f, enum):
                    v, catch = arm_variants(m)
                    R.check("R10-a", "dispatch:%s" % enum.split("::")[-1], v == set(adt.variant_names()) and not catch, "every kind dispatched",
                            "%s dispatches %s" % (f.path, sorted(v)), loc=f.loc())

    sections(R, "R10-a", ("kind-target", _part0), ("typename", _part1), ("target-direction", _part2), ("namespaces", _part3), ("scalar-map", lambda: scalar_map_precedence(P, R, "R10-a")))


LETTER_CLASSES = ("is_ascii_alphabetic", "is_ascii_alphanumeric", "is_alphabetic", "is_alphanumeric")


def underscore_with_letters(P, R, g):
    """An identifier scanner must put `_` in the same character class as the letters, wherever it classifies a character: every
    test of a letter class (`is_ascii_alphabetic`, `is_ascii_alphanumeric`, ..) on a `char` sits in a boolean expression that
    also compares the character with '_' — with the same polarity (`is_x(c) || c == '_'`, `!is_x(c) && c != '_'`).  This holds
    for any spelling of the scanner (state machine, `split` + trimming, helper functions); digit-only tests are not concerned."""
    # the scanner and every same-crate function it calls or passes as a function value (`flat_map(identifiers_in)`)
    from templates import scope_fns
    tests = []
    for gi in scope_fns(P, g):
        nodes = gi.nodes()
        for idx, (n, _) in enumerate(nodes):
            if not (n.get("k") == "MethodCall" and n["method"] in LETTER_CLASSES and peel_ty(n.get("recv_ty") or n["recv"].get("t")) == "char"):
                continue
            # the maximal boolean expression around the test
            top, pol, p = n, 0, nodes[idx][1]
            while p >= 0:
                x = nodes[p][0]
                if x.get("k") == "Unary" and x.get("op") == "Not":
                    pol ^= 1
                elif not ((x.get("k") == "Binary" and x.get("op") in ("&&", "||", "And", "Or")) or x.get("k") in ("DropTemps", "Use", "Paren")):
                    break
                top, p = x, nodes[p][1]
            tests.append((n, top, pol))
    bad, ok = [], 0
    for n, top, pol in tests:
        cmps = []
        st = [(top, 0)]
        while st:
            x, q = st.pop()
            if not isinstance(x, dict):
                continue
            if x.get("k") == "Unary" and x.get("op") == "Not":
                st.append((x["e"], q ^ 1))
            elif x.get("k") == "Binary" and x.get("op") in ("&&", "||", "And", "Or"):
                st.append((x["l"], q))
                st.append((x["r"], q))
            elif x.get("k") in ("DropTemps", "Use", "Paren"):
                st.append((x["e"], q))
            elif x.get("k") == "Binary" and x.get("op") in ("==", "!=", "Eq", "Ne") and "_" in (lit_value(x["l"]), lit_value(x["r"])):
                cmps.append(q ^ (1 if x.get("op") in ("!=", "Ne") else 0))
        if any(c == pol for c in cmps):
            ok += 1
        else:
            bad.append((n["method"], "negated" if pol else "plain", "no comparison with '_'" if not cmps else "'_' compared with the opposite polarity"))
    return tests, ok, bad


def r10b(P, R):
    """local-name discipline (observation only, see DESIGN.md R10-b) + identifier bag character classes"""
    def _part0():
        require_fields(P, (CTX, "local_type_names"))
        sites = []
        for adt in ("ObjectTypeDefinition", "InterfaceTypeDefinition", "UnionTypeDefinition", "InputObjectTypeDefinition"):
            f = inl(P, impl(P, adt))
            pv = Prov(f)
            for c in f.walk():
                if c.get("k") == "Call" and norm(c.get("callee", "")).endswith("TSType::TypeVariable") and c["args"]:
                    a = pv.deep_atoms(c["args"][0])
                    sites.append((adt, has_field(a, CTX, "local_type_names")))
        via_local = [s for s in sites if s[1]]
        direct = [s for s in sites if not s[1]]
        R.floor("R10-b", "schema type references", len(sites), 4)
        R.holds("R10-b", "local-names:used", "%d of %d schema-type references go through context.local_type_names" % (len(via_local), len(sites)))
        if direct:
            R.note("observation R10-b: %s refer to schema types by their schema name, not through local_type_names (a clash with an identifier "
                   "of a scalar's TypeScript type would resolve to the outer name). Not raised as a violation: its defect-ness rests on TypeScript "
                   "scoping and no TypeScript compiler is available to substantiate it." % sorted(set(d[0] for d in direct)))

    def _part1():
        # get_bag_of_identifiers: identifier start and continuation both admit `_`
        g = P.fn(PR + "schema_type_printer::context::get_bag_of_identifiers")
        tests, ok, bad = underscore_with_letters(P, R, g)
        if bad:
            R.violated("R10-b", "identifier-classes", "the identifier scanner of get_bag_of_identifiers tests a letter class without treating `_` alike "
                       "(%s): an identifier containing `_` is split, so a clashing schema type is not renamed"
                       % "; ".join("%s (%s): %s" % b for b in bad), loc=g.loc())
        elif not tests:
            R.undecided("R10-b", "identifier-classes", "no letter-class test on a `char` was found in get_bag_of_identifiers or its helpers; how "
                        "identifiers are delimited is not decided on this shape", loc=g.loc())
        else:
            R.holds("R10-b", "identifier-classes", "identifier = [A-Za-z_][A-Za-z0-9_]*: all %d letter-class tests treat `_` as a letter" % ok, loc=g.loc())
        ml0 = bag_renamer(P, g)
        ml = inlined(P, ml0, pred=stable_pred(lambda x: x.path != g.path))
        pv = Prov(ml)
        uses_bag = calls_anywhere(ml, "context::get_bag_of_identifiers")
        member = any(c.get("k") == "MethodCall" and c["method"] in ("contains", "contains_key", "get", "binary_search") and has_call(pv.deep_atoms(c["recv"]), "context::get_bag_of_identifiers")
                     for c in ml.walk())
        if uses_bag and member:
            R.holds("R10-b", "rename-on-clash", "a schema type is renamed iff its name is in the identifier bag", loc=ml0.loc())
        elif not uses_bag:
            R.violated("R10-b", "rename-on-clash", "make_local_type_names does not use the identifier bag at all: no clashing schema type is renamed", loc=ml0.loc())
        else:
            R.undecided("R10-b", "rename-on-clash", "make_local_type_names builds the identifier bag but no membership test on it was recognised", loc=ml0.loc())
        bag_all_targets(P, R, "R10-b")
        rename_for_every_kind(P, R, "R10-b")

    def _part2():
        # type_names() lists every mapping of a config
        CFGS = "nitrogql_config_file::scalar_type::"
        tn = P.fn(CFGS + "ScalarTypeConfig::type_names")
        tpv = Prov(tn)
        for m in matches_on(tn, "ScalarTypeConfig"):
            tab = variant_table(m)
            for k, adt_name in (("SendReceive", "SendReceiveScalarTypeConfig"), ("Separate", "SeparateScalarTypeConfig")):
                arm = tab.get(k)
                if arm is None:
                    R.undecided("R10-b", "type-names:" + k, "no arm for %s configs in ScalarTypeConfig::type_names" % k, loc=tn.loc())
                    continue
                adt = P.adt(CFGS + adt_name)
                got = {x[2] for x in tpv.atoms(arm["body"]) if x[0] == "field" and x[1] == adt.path}
                R.check("R10-b", "type-names:" + k, got == set(adt.fields()), "type_names() lists every mapping of a %s config" % k,
                        "ScalarTypeConfig::type_names omits %s of a %s config: identifiers of that mapping never enter the clash bag"
                        % (sorted(set(adt.fields()) - got), k), loc=tn.loc())

    def _part3():
        # export_type: the renamed alias is re-exported under the schema name
        for name in ("export_type", "export_representative"):
            f0 = P.fn(PR + "schema_type_printer::type_printer::" + name)
            f = inlined(P, f0)
            conds = [i for i in f.walk() if i.get("k") == "If" and _peel_cond(i["cond"]).get("k") == "Binary" and _peel_cond(i["cond"]).get("op") in ("==", "!=")]
            lits = [l for l in str_lits_in(f.body) if isinstance(l, str)]
            text = any("export type {" in l or "export type {{" in l for l in lits) and any(" as " in l for l in lits)
            if text and len(conds) == 1:
                R.holds("R10-b", "re-export:" + name, "renamed aliases are re-exported as the schema name", loc=f0.loc())
            elif not text:
                R.violated("R10-b", "re-export:" + name, "%s writes no `export type { <local> as <schema name> }`: a renamed alias is not re-exported under "
                           "its schema name" % name, loc=f0.loc())
            else:
                R.undecided("R10-b", "re-export:" + name, "%s: the condition under which the re-export is written is not a single (in)equality test" % name, loc=f0.loc())

    sections(R, "R10-b", ("type-references", _part0), ("identifier-bag", _part1), ("type-names", _part2), ("re-export", _part3))


def calls_anywhere(fn, suffix):
    """does `fn` (given with its helpers inlined) call / reference a function whose path ends with `suffix`, anywhere in its body"""
    from facts import node_callees
    for n in fn.walk():
        for callee, rd in node_callees(n):
            for p in (callee, rd):
                if p and (p == suffix or p.endswith("::" + suffix) or p.endswith(suffix)):
                    return True
    return False


def _peel_cond(e):
    while e.get("k") in ("DropTemps", "Use", "Paren") and "e" in e:
        e = e["e"]
    return e


def r10c(P, R):
    """emitted text stays well-formed whatever the descriptions contain"""
    def _part0():
        f = P.fn(PR + "jsdoc::print_description")
        pv = Prov(f)
        body_writes = []
        for c in f.walk():
            if c.get("k") == "MethodCall" and c["method"] == "write" and lit_value(c["args"][0]) is None:
                body_writes.append(c)
        R.floor("R10-c", "comment body writes", len(body_writes), 1)
        for c in body_writes:
            calls = {x[1].split("::")[-1] for x in pv.atoms(c["args"][0]) if x[0] == "call"}
            lits = {x[1] for x in pv.atoms(c["args"][0]) if x[0] == "lit"}
            sanitised = ("replace" in calls or "replacen" in calls) and "*/" in lits
            other = calls - {"lines", "next", "into_iter", "dedent", "replace", "as_str", "deref", "skip_chars", "push_str", "new", "collect", "to_string", "clone", "from"}
            R.check("R10-c", "comment-terminator", sanitised or bool(other),
                    "`*/` is neutralised before the text is written into the /** */ comment",
                    "print_description writes description text into a /** ... */ comment through substring-preserving functions only (%s): a "
                    "description containing `*/` ends the comment early and leaves invalid TypeScript" % sorted(calls), loc=f.loc())
        fi = inlined(P, f)
        ops = [l for l in str_lits_in(fi.body) if isinstance(l, str)]
        if "/**\n" in ops and " */\n" in ops:
            R.holds("R10-c", "comment-delimiters", "comment opened and closed", loc=f.loc())
        elif any("/**" in l for l in ops) and any("*/" in l for l in ops):
            R.undecided("R10-c", "comment-delimiters", "the JSDoc delimiters are written, but not as the literals `/**\\n` and ` */\\n` (%s)" % ops, loc=f.loc())
        else:
            R.violated("R10-c", "comment-delimiters", "print_description no longer writes both `/**` and `*/`: %s" % ops, loc=f.loc())
        # all description text goes through print_description (no other `/*` emitter besides its own helpers)
        own = P.reachable([f])
        emitters = []
        for g in P.fns.values():
            if g.path.startswith((PR, "<" + A)) and "::tests" not in g.path and not g.derived and g.path != f.path and g.path not in own:
                if any(isinstance(l, str) and ("/*" in l) for l in str_lits_in(g.body)):
                    emitters.append(g.path)
        R.check("R10-c", "single-comment-emitter", not emitters, "only jsdoc::print_description opens comments", "other comment emitters: %s" % emitters)

    def _part1():
        # string literals and object keys are only fed by GraphQL names
        pt = P.fn(PR + "ts_types::TSType::print_type")
        raw = P.fn(PR + "ts_types::is_raw_ident")
        R.check("R10-c", "quoted-keys", raw.path in P.reachable([pt]), "non-identifier keys are quoted",
                "object keys are written without the identifier test (is_raw_ident is not reachable from TSType::print_type)", loc=pt.loc())

    sections(R, "R10-c", ("comments", _part0), ("quoted-keys", _part1))


RTP = PR + "resolver_type_printer::"
TS_T = PR + "ts_types::TSType"


def resolver_fn(P, role):
    """The functions of the resolver type printer by role — the anchored free function if it exists, else the unique function or
    method of the module with that role:
      "dispatch": matches over TypeDefinition and returns Option<TSType> (a kind may have no resolver);
      "output":   matches over TypeDefinition and returns TSType (the resolver-output alias of a type);
      "object" / "interface" / "union" / "arguments": takes the definition struct of that kind and returns (an Option of) TSType."""
    from facts import AnchorMissing
    named = {"dispatch": "get_resolver_type", "output": "get_ts_type_for_resolver_output", "object": "get_object_resolver_type",
             "interface": "get_interface_resolver_type", "union": "get_union_resolver_type", "arguments": "arguments_definition_to_ts"}
    f = P.fn(RTP + "visitor::" + named[role], required=False)
    if f is not None:
        return f
    param = {"object": A + "type_system::ObjectTypeDefinition", "interface": A + "type_system::InterfaceTypeDefinition",
             "union": A + "type_system::UnionTypeDefinition", "arguments": A + "type_system::ArgumentsDefinition"}
    cands = []
    for g in P.fns.values():
        if not g.path.startswith((RTP, "<" + RTP)) or g.derived or "::tests" in g.path or g.kind not in ("Fn", "AssocFn") or "::{closure" in g.path:
            continue
        out = peel_ty(g.sig_output or "")
        returns_ts = out == TS_T or out == "core::option::Option<%s>" % TS_T
        if role in param:
            if returns_ts and any(peel_ty(t).strip().split("<")[0] == param[role] for t in g.sig_inputs):
                cands.append(g)
        elif matches_on(g, "type_system::TypeDefinition") and any(peel_ty(t).strip().split("<")[0] == A + "type_system::TypeDefinition" for t in g.sig_inputs):
            if (role == "dispatch" and out == "core::option::Option<%s>" % TS_T) or (role == "output" and out == TS_T):
                cands.append(g)
    if len(cands) != 1:
        raise AnchorMissing("the resolver printer function with role `%s` (candidates: %s)" % (role, [c.path for c in cands]))
    return cands[0]


def _resolver_signature(P, R, o):
    """`__Resolver<Parent, Args, Context, Result>`: the four type arguments by *role* (what each is computed from), not by the name
    of the local that holds it"""
    OT, FD = A + "type_system::ObjectTypeDefinition", A + "type_system::FieldDefinition"
    require_fields(P, (OT, "name"), (FD, "arguments"), (FD, "type"))
    pv = Prov(o)
    tf = [c for c in o.walk() if c.get("k") == "Call" and norm(c.get("callee", "")).endswith("TSType::TypeFunc") and len(c["args"]) == 2
          and "__Resolver" in {x[1] for x in pv.atoms(c["args"][0]) if x[0] == "lit"}]
    if not tf:
        R.undecided("R10-d", "resolver-signature", "no TSType::TypeFunc applying `__Resolver` was found in %s or its helpers" % o.path, loc=o.loc())
        return
    for c in tf:
        arrays = [x for x in subnodes(c["args"][1]) if x.get("k") == "Array"]
        if not arrays or len(arrays[0].get("es", [])) != 4:
            R.undecided("R10-d", "resolver-signature", "the type arguments of `__Resolver` are not given as a four-element vector literal", loc=o.loc())
            continue
        roles = []
        for e in arrays[0]["es"]:
            a = pv.data_atoms(e)
            r = set()
            if has_field(a, FD, "arguments"):
                r.add("args")
            if has_field(a, FD, "type"):
                r.add("result")
            if "Context" in {x[1] for x in a if x[0] == "lit"}:
                r.add("context")
            if has_field(a, OT, "name") and not r:
                r.add("parent")
            roles.append(sorted(r))
        if any(len(r) != 1 for r in roles):
            R.undecided("R10-d", "resolver-signature", "the roles of the `__Resolver` type arguments were not all identified (%s)" % roles, loc=o.loc())
        else:
            got = [r[0] for r in roles]
            R.check("R10-d", "resolver-signature", got == ["parent", "args", "context", "result"], "__Resolver<Parent, Args, Context, Result> in this order",
                    "resolver type arguments are given as %s, not (parent, args, context, result)" % got, loc=o.loc())


def r10d(P, R):
    """resolver declarations"""
    def _part0():
        g = resolver_fn(P, "dispatch")
        want = {"Scalar": None, "Enum": None, "InputObject": None, "Object": "get_object_resolver_type", "Interface": "get_interface_resolver_type", "Union": "get_union_resolver_type"}
        # the resolver builders by role: the printer function whose parameter is the definition struct of that kind
        kind_adt = {"Object": A + "type_system::ObjectTypeDefinition", "Interface": A + "type_system::InterfaceTypeDefinition", "Union": A + "type_system::UnionTypeDefinition"}
        for m in matches_on(g, "type_system::TypeDefinition"):
            tab = variant_table(m)
            for k, w in sorted(want.items()):
                arm = tab.get(k) or tab.get("_")
                if arm is None:
                    R.undecided("R10-d", "resolver-kind:" + k, "no arm for %s in get_resolver_type" % k, loc=g.loc())
                    continue
                callees = [P.fns.get(call_name(x)) for x in subnodes(arm["body"]) if x.get("k") in ("Call", "MethodCall") and (call_name(x) or "").startswith(PR)]
                callees = [c for c in callees if c is not None]
                if w is None:
                    R.check("R10-d", "resolver-kind:" + k, not callees, "%s -> no resolver" % k,
                            "get_resolver_type gives %s types a resolver entry built by %s (expected none)" % (k, [short(c.path) for c in callees]), loc=g.loc())
                else:
                    fits = [c for c in callees if any(peel_ty(t).split("<")[0] == kind_adt[k] for t in c.sig_inputs)]
                    others = [c for c in callees if c not in fits and any(peel_ty(t).split("<")[0] in kind_adt.values() for t in c.sig_inputs)]
                    if fits and not others:
                        R.holds("R10-d", "resolver-kind:" + k, "%s -> %s" % (k, short(fits[0].path)), loc=g.loc())
                    elif not callees:
                        R.violated("R10-d", "resolver-kind:" + k, "get_resolver_type maps %s to no resolver (expected the %s resolver type)" % (k, k.lower()), loc=g.loc())
                    elif others:
                        R.violated("R10-d", "resolver-kind:" + k, "get_resolver_type maps %s to %s, the builder for another kind" % (k, [short(c.path) for c in others]), loc=g.loc())
                    else:
                        R.undecided("R10-d", "resolver-kind:" + k, "get_resolver_type maps %s to %s, which does not take a %s definition" % (k, [short(c.path) for c in callees], k), loc=g.loc())

    def _part1():
        # object types: one required resolver per field
        o0 = resolver_fn(P, "object")
        o = inl(P, o0)
        all_elements(P, R, "R10-d", o, A + "type_system::ObjectTypeDefinition", "fields", "object fields (each needs a resolver)")
        opv = Prov(o)
        # the members of the resolvers object: the ObjectField literals whose type is the `__Resolver<..>` application
        ofs = [n for n in o.walk() if n.get("k") == "Struct" and "rest" not in n and norm(n.get("adt", "")).endswith("ts_types::ObjectField")
               and any(y["name"] == "type" and "__Resolver" in {x[1] for x in opv.atoms(y["e"]) if x[0] == "lit"} for y in n["fields"])]
        R.floor("R10-d", "field resolver members", len(ofs), 1)
        for x in ofs:
            opts = [y for y in x["fields"] if y["name"] == "optional"]
            opt = lit_value(opts[0]["e"]) if opts else None
            if opt is None:
                R.undecided("R10-d", "resolver-required", "`optional` of a field resolver is not a literal", loc=o.loc())
            else:
                R.check("R10-d", "resolver-required", opt is False, "every field resolver is required", "field resolvers are optional", loc=o.loc())
        _resolver_signature(P, R, o)

    def _part2():
        # arguments in ResolverInput, results in ResolverOutput
        a = inl(P, resolver_fn(P, "arguments"))
        namespace_targets(P, R, "R10-d", a, "ResolverInput", 1)
        all_elements(P, R, "R10-d", a, A + "type_system::ArgumentsDefinition", "input_values", "arguments")
        # Args = the declared argument types: no argument's type depends on its default value or directives
        member_type_pure(P, R, "R10-d", resolver_fn(P, "arguments"), A + "type_system::InputValueDefinition", "arguments")
        ro = inl(P, resolver_fn(P, "output"))
        namespace_targets(P, R, "R10-d", ro, "ResolverOutput", 1)

    def _part3():
        # abstract types: __resolveType over exactly the possible types
        i0 = resolver_fn(P, "interface")
        i = inlined(P, i0, pred=stable_pred(lambda x: not x.path.endswith("utils::interface_implementers")))
        pvi = Prov(i)
        from_impl = calls_anywhere(i, "utils::interface_implementers")
        key_lit = "__resolveType" in str_lits_in(i.body)
        if from_impl and key_lit:
            R.holds("R10-d", "interface-possible-types", "__resolveType over the interface's implementers", loc=i0.loc())
        elif not from_impl:
            R.violated("R10-d", "interface-possible-types", "the interface type resolver is not built from interface_implementers (neither directly nor "
                       "through a same-crate helper)", loc=i0.loc())
        else:
            R.undecided("R10-d", "interface-possible-types", "the `__resolveType` key is not written in %s or its helpers" % i0.path, loc=i0.loc())
        lossy = [c["method"] for c in i.walk() if c.get("k") == "MethodCall" and c["method"] in LOSSY_OR_REORDERING
                 and has_call(pvi.data_atoms(c["recv"]), "utils::interface_implementers")]
        R.check("R10-d", "interface-all-implementers", not lossy, "all implementers", "implementers are filtered with %s" % lossy, loc=i0.loc())

    def _part4():
        # unions: over all members
        u = inl(P, resolver_fn(P, "union"))
        all_elements(P, R, "R10-d", u, A + "type_system::UnionTypeDefinition", "members", "union members")

    def _part5():
        # implementer lookup: objects that list the interface
        require_fields(P, ("graphql_type_system::definitions::ObjectDefinition", "interfaces"))
        imp0 = P.fn(PR + "utils::interface_implementers")
        imp = inlined(P, imp0)
        name_params = {b["local"] for p_, t in zip(imp.params, imp.sig_inputs) if peel_ty(t).strip() == "str" for b in subnodes(p_) if b.get("k") == "Binding"}
        # which of the schema's types are visited, in which order, is not this property's subject (a union of types is the same
        # type in any order; determinism is C17's): any accessor of the Schema that walks its types will do
        from facts import node_callees
        walks_schema = any(p and p.startswith("graphql_type_system::schema::Schema::") for n in imp.walk() for pair in node_callees(n) for p in pair)
        parts = {"the schema's types": walks_schema,
                 "ObjectDefinition.interfaces": ("graphql_type_system::definitions::ObjectDefinition", "interfaces") in field_reads(imp),
                 "the interface name": any(x.get("k") == "Path" and x.get("local") in name_params for x in subnodes(imp.body))}
        R.check("R10-d", "implementers-definition", all(parts.values()), "implementers = objects of the schema whose `interfaces` contain the interface name",
                "interface_implementers is not `objects whose interfaces contain the name`: it does not depend on %s" % [k for k, v in parts.items() if not v], loc=imp0.loc())

    def _part6():
        # schema declarations: interface = union of implementers, union = its members
        si = inl(P, impl(P, "InterfaceTypeDefinition"))
        R.check("R10-d", "interface-alias", calls_anywhere(si, "utils::interface_implementers"), "interface alias = union of implementers",
                "interface declarations are not built from interface_implementers", loc=si.loc())
        su = inl(P, impl(P, "UnionTypeDefinition"))
        all_elements(P, R, "R10-d", su, A + "type_system::UnionTypeDefinition", "members", "union members")

    def _part7():
        # resolver root: one entry per type definition of the (plugin-transformed) document
        pd0 = P.fn(PR + "resolver_type_printer::printer::ResolverTypePrinter::print_document")
        pd = inlined(P, pd0, pred=stable_pred(lambda x: "resolver_type_printer::printer" in x.path))
        try:
            disp = resolver_fn(P, "dispatch").path
        except Exception:
            disp = None
        root_calls = [c for c in pd.walk() if c.get("k") in ("Call", "MethodCall") and disp and call_name(c) == disp]
        # plugins compose: each plugin transforms the result of the previous one
        tcalls = [(i, c) for i, (c, _) in enumerate(pd.nodes()) if c.get("k") == "MethodCall" and c["method"] == "transform_document_for_resolvers"]
        pvc = Prov(pd)

        def copies_of(e):
            """locals the expression is (transitively, through bindings) computed from"""
            seen, st = set(), [e]
            while st:
                x = st.pop()
                if isinstance(x, list):
                    st.extend(x)
                elif isinstance(x, dict):
                    if x.get("k") == "Path" and "local" in x:
                        if x["local"] not in seen:
                            seen.add(x["local"])
                            st.extend(src for src, _ in pvc.src.get(x["local"], []) if src is not None)
                    elif x.get("k") != "Closure":
                        st.extend(v for kk, v in x.items() if kk != "inl" and isinstance(v, (dict, list)))
            return seen
        BAD = ("transform_document_for_resolvers is not given the accumulated document: only the last transforming "
               "plugin takes effect and the fields excluded by earlier plugins require resolvers again")
        for i, c in tcalls:
            ctxs = enclosing_contexts(pd, i)
            cls = [x for x in ctxs if x[0] == "closure"]
            folds = [n for n in pd.walk() if n.get("k") == "MethodCall" and n["method"] in ("fold", "try_fold", "rfold", "try_rfold", "scan") and any(a is cls[0][1] for a in n["args"])] if cls else []
            given = copies_of(c["args"][0]) if c["args"] else set()
            if folds:
                # fold: the accumulator is the closure's first parameter
                acc = {b["local"] for b in subnodes(cls[0][1]["params"][0]) if b.get("k") == "Binding"}
                R.check("R10-d", "plugins-compose", bool(acc & given), "each plugin receives the document produced by the previous plugins",
                        "in the fold over plugins, " + BAD, loc=pd.loc())
                continue
            # no accumulator parameter: the accumulator, if any, is a local that the enclosing loop body / closure assigns a value
            # derived from this call's result (a `for` loop, or `for_each` with a captured `mut` local)
            regions = [x[1] for x in ctxs if x[0] in ("loop", "closure")]
            in_loop = any(x[0] == "loop" for x in ctxs)
            acc = set()
            for region in regions:
                for a in subnodes(region):
                    if a.get("k") == "Assign" and a["l"].get("k") == "Path" and "local" in a["l"] \
                            and any(x[0] == "call" and x[1].endswith("transform_document_for_resolvers") for x in pvc.atoms(a["r"])):
                        acc.add(a["l"]["local"])
            if acc:
                R.check("R10-d", "plugins-compose", bool(acc & given), "each plugin receives the document produced by the previous plugins",
                        "in the loop over plugins, the result of one plugin is stored in the accumulator but " + BAD, loc=pd.loc())
            elif cls and not in_loop:
                # the hook is called in a closure of an iterator adaptor that threads no state (map / filter_map / find_map .. — not
                # fold/scan) and assigns none: whatever is done with the results afterwards, no plugin can receive another's result
                adaptors = [n["method"] for n in pd.walk() if n.get("k") == "MethodCall" and any(a is cls[0][1] for a in n["args"])]
                R.violated("R10-d", "plugins-compose", "the plugins' transform_document_for_resolvers is called inside `%s(..)`, which threads no accumulator, "
                           "and the closure stores the result nowhere: every plugin is handed the same document and the transformations do not "
                           "compose (the fields excluded by one plugin require resolvers again when another plugin also transforms the document)"
                           % (adaptors[0] if adaptors else "a closure"), loc=pd.loc())
            else:
                R.undecided("R10-d", "plugins-compose", "plugin transformations are applied neither by a fold nor by a loop that assigns an accumulator; "
                            "whether they compose is not decided", loc=pd.loc())
        R.floor("R10-d", "plugin transformation sites", len(tcalls), 1)
        if root_calls and tcalls:
            pvp = Prov(pd)
            fed = any(any(x[0] == "call" and x[1].endswith("transform_document_for_resolvers") for x in pvp.atoms(c["args"][0])) for c in root_calls if c["args"])
            if fed:
                R.holds("R10-d", "resolver-root", "Resolvers maps every type definition of the plugin-transformed document", loc=pd0.loc())
            else:
                R.violated("R10-d", "resolver-root", "the root resolvers type is built from definitions that do not derive from the plugin-transformed "
                           "document: fields a plugin removed still require resolvers", loc=pd0.loc())
        elif not root_calls:
            R.undecided("R10-d", "resolver-root", "no call of get_resolver_type in %s or the helpers of its module" % pd0.path, loc=pd0.loc())
        else:
            R.undecided("R10-d", "resolver-root", "no plugin transformation of the document was found; what the root resolvers type covers is not decided", loc=pd0.loc())

    def output_aliases():
        # Every type that resolvers, the ResolverOutput map and the type-name union refer to by its local alias has that alias
        # declared: whether `type X = ..` is written for a definition is decided by the *kind* of the definition alone (input
        # objects are skipped), exactly like the lists that reference the aliases — never by something computed about the
        # definition (the result of building its resolver type, the number of its fields, a lookup).
        pd0 = P.fn(PR + "resolver_type_printer::printer::ResolverTypePrinter::print_document")
        pd = inlined(P, pd0, pred=stable_pred(lambda x: "resolver_type_printer::printer" in x.path))
        pv = Prov(pd)
        nodes = pd.nodes()
        sites = [i for i, (n, _) in enumerate(nodes) if n.get("k") == "MethodCall" and n.get("method") == "write" and n["args"] and lit_value(n["args"][0]) == "type "]
        if not sites:
            R.undecided("R10-d", "alias-per-output-type", "no `type <name> = ..` alias emission was found in %s or the helpers of its module" % pd0.path, loc=pd0.loc())
            return

        def guards_until_loop(i):
            """(loop node, [guard expressions]) of nodes()[i]: conditions / scrutinees between the node and its innermost loop"""
            gs = []
            for c in enclosing_contexts(pd, i):
                if c[0] == "loop":
                    return c[1], gs
                if c[0] in ("if-then", "if-else"):
                    gs.append(c[1]["cond"])
                elif c[0] == "arm" and c[1] is not None and c[1].get("src") == "Normal":
                    gs.append(c[1]["scrut"])
                elif c[0] == "let-else" and c[1].get("init") is not None:
                    gs.append(c[1]["init"])
            return None, gs
        for si in sites:
            loop, guards = guards_until_loop(si)
            if loop is None:
                R.undecided("R10-d", "alias-per-output-type", "the alias emission is not inside a loop over the definitions", loc=pd0.loc())
                continue
            # skips before the emission in the same loop iteration
            for j, (n, _) in enumerate(nodes[:si]):
                if n.get("k") in ("Continue", "Break") and not n.get("x"):
                    l2, g2 = guards_until_loop(j)
                    if l2 is loop:
                        guards += g2
            # what the guards compute *inside the iteration* (about the element): calls of printer functions among the guard expressions
            # and the loop-local bindings they read; where the iterated collection came from is not a property of the element
            inside = {id(x) for x in subnodes(loop)}
            computed, seen, st = set(), set(), list(guards)
            while st:
                x = st.pop()
                if isinstance(x, list):
                    st.extend(x)
                elif isinstance(x, dict):
                    if x.get("k") == "Path" and "local" in x:
                        if x["local"] not in seen:
                            seen.add(x["local"])
                            st.extend(src for src, _ in pv.src.get(x["local"], []) if src is not None and id(src) in inside)
                        continue
                    if x.get("k") in ("Call", "MethodCall"):
                        c = call_name(x) or ""
                        if c.startswith((PR, "<" + PR)) and c in P.fns and not P.fns[c].derived:
                            computed.add(short(c))
                    st.extend(v for kk, v in x.items() if kk != "inl" and isinstance(v, (dict, list)))
            computed = sorted(computed)
            R.check("R10-d", "alias-per-output-type", not computed, "a local alias is declared for every definition but the input kinds (decided by kind only)",
                    "%s declares the local alias `type X = ..` of a definition only depending on %s: a type for which that computation says "
                    "\"skip\" loses its alias although resolvers of other types and the ResolverOutput map still refer to it by that name"
                    % (pd0.path, computed), loc=pd0.loc())

    sections(R, "R10-d", ("kind-table", _part0), ("object-resolvers", _part1), ("args-and-results", _part2), ("interface-resolvers", _part3), ("union-resolvers", _part4), ("implementers", _part5), ("abstract-aliases", _part6), ("resolver-root", _part7), ("output-aliases", output_aliases))


def r10e(P, R):
    """input objects: readonly fields, optional iff nullable (per option); shared nullability table"""
    def _part0():
        from c09 import coupling, SOPT
        g0 = impl(P, "InputObjectTypeDefinition")
        coupling(P, R, "R10-e", g0, SOPT, "input_nullable_field_is_optional", "input-object", (A + "type_system::InputValueDefinition", "name"))
        require_fields(P, (A + "type_system::InputValueDefinition", "name"), (PR + "ts_types::ObjectField", "readonly"))
        g = inl(P, g0)
        all_elements(P, R, "R10-e", g, A + "type_system::InputObjectTypeDefinition", "fields", "input fields")
        gpv = Prov(g)
        ofs = [n for n in g.walk() if n.get("k") == "Struct" and "rest" not in n and norm(n.get("adt", "")).endswith("ts_types::ObjectField")
               and any(y["name"] == "key" and has_field(gpv.deep_atoms(y["e"]), A + "type_system::InputValueDefinition", "name") for y in n["fields"])]
        R.floor("R10-e", "input field members", len(ofs), 1)
        for x in ofs:
            ros = [y for y in x["fields"] if y["name"] == "readonly"]
            ro = lit_value(ros[0]["e"]) if ros else None
            if ro is None:
                opts = sorted({x[2] for x in gpv.deep_atoms(ros[0]["e"]) if x[0] == "field" and x[1] == SOPT}) if ros else []
                if opts:
                    R.holds("R10-e", "input-readonly", "input fields are readonly as the printer option `%s` says (configurable)" % "`, `".join(opts), loc=g.loc())
                else:
                    R.undecided("R10-e", "input-readonly", "`readonly` of an input field is neither a literal nor a printer option", loc=g.loc())
            else:
                R.check("R10-e", "input-readonly", ro is True, "input fields are readonly", "input fields are not readonly", loc=g.loc())
        # arrays inside input types are readonly: some function the input-object printer can reach (call graph, over-approximate) applies
        # TSType::into_readonly — its absence from everything reachable is positive evidence, its place (here or in a shared helper) is not
        ro_fn = P.fn(PR + "ts_types::TSType::into_readonly")
        R.check("R10-e", "input-deep-readonly", ro_fn.path in P.reachable([g0]),
                "arrays inside input types are readonly", "no function reachable from %s applies TSType::into_readonly any more: list-typed input "
                "fields are declared as mutable arrays" % g0.path, loc=g.loc())

    def _part1():
        # every enum member and object field is emitted
        e = inl(P, impl(P, "EnumTypeDefinition"))
        all_elements(P, R, "R10-e", e, A + "type_system::EnumTypeDefinition", "values", "enum members")
        o = inl(P, impl(P, "ObjectTypeDefinition"))
        all_elements(P, R, "R10-e", o, A + "type_system::ObjectTypeDefinition", "fields", "object fields")

    def _part2():
        # object/input fields refer to other schema types through the local names of the same namespace
        require_fields(P, (CTX, "local_type_names"))
        for adt in ("ObjectTypeDefinition", "InputObjectTypeDefinition"):
            f = inl(P, impl(P, adt))
            pv = Prov(f)
            tv = [c for c in f.walk() if c.get("k") == "Call" and norm(c.get("callee", "")).endswith("TSType::TypeVariable") and c["args"]]
            if not tv:
                R.undecided("R10-e", "field-type-refs:" + adt, "no TSType::TypeVariable is built in %s or its helpers" % f.path, loc=f.loc())
                continue
            direct = [c for c in tv if not has_field(pv.deep_atoms(c["args"][0]), CTX, "local_type_names")]
            R.check("R10-e", "field-type-refs:" + adt, not direct, "field types refer to the (possibly renamed) local aliases",
                    "%s refers to field types without going through local_type_names" % f.path, loc=f.loc())

    sections(R, "R10-e", ("input-objects", _part0), ("enums-and-objects", _part1), ("field-type-refs", _part2))


RULES = [("R10-a", r10a), ("R10-b", r10b), ("R10-c", r10c), ("R10-d", r10d), ("R10-e", r10e)]
EXPLANATION = (
    "Schema/resolver declarations, structural clauses: (R10-a) the kind x target table (objects, interfaces and unions skipped exactly "
    "for input targets, input objects exactly for output targets, scalars and enums never), four namespaces, every definition and kind "
    "dispatched; (R10-b) renaming on clashes: identifier classes of the scalar-type scanner, rename iff in the bag, renamed aliases "
    "re-exported under the schema name (direct references to schema names are reported as an observation only); (R10-c) the JSDoc "
    "body neutralises `*/`, there is a single comment emitter, non-identifier keys are quoted; (R10-d) resolver kind table, every "
    "object field gets a required resolver with (parent, args, context, result), args in ResolverInput and results in ResolverOutput, "
    "abstract types resolve over exactly implementers/members, implementer definition. Nullability tables are shared with C09/C02. "
    "Not decided: [[alias]] = Ref(T); TypeScript well-formedness beyond the listed contexts.")
ASSUMPTIONS = ["TypeScript scoping of names inside `declare namespace` (not analysed; R10-b observation)", "GraphQL names need no escaping in TypeScript string literals"]


def main(tier):
    return harness.run_property("C10", RULES, "other", EXPLANATION, ASSUMPTIONS, tier)
