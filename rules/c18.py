"""C18 — CLI status, diagnostics and written files are consistent and well-located."""
import harness
from facts import (norm, call_name, short, subnodes, lit_value, matches_on, arm_variants, peel_ty, str_lits_in, field_reads,
                   AnchorMissing)
from prov import Prov, has_field, has_call
from templates import enclosing_contexts, inlined, scope_fns, _contains

CLI = "nitrogql_cli::"
OUT = CLI + "output::CliOutput"
WRITE_APIS = ("std::fs::write", "std::fs::File::create", "std::fs::create_dir_all", "std::fs::create_dir",
              "std::fs::OpenOptions", "std::fs::remove_file", "std::fs::remove_dir", "std::fs::remove_dir_all",
              "std::fs::rename", "std::fs::copy", "std::fs::File::options", "std::fs::File::create_new",
              "std::fs::set_permissions", "std::fs::hard_link", "std::os::unix::fs::symlink")
# the APIs that create/overwrite one file's content (one `generated_file` report is due per such call)
FILE_CREATE = ("std::fs::write", "std::fs::File::create", "std::fs::File::create_new", "std::fs::OpenOptions::open")


# ------------------------------------------------------------------------------------------------------------- helpers
def is_out(adt):
    return (norm(adt) or "").endswith("::CliOutput")


def _live(f):
    return not f.derived and "::tests" not in f.path


def role_fn(P, name, role, what):
    """the function an anchor names; when it was renamed / turned into a method, the unique non-test function playing the same
    role, else AnchorMissing (-> the rule is UNDECIDED)"""
    f = P.fn(name, required=False)
    if f is not None:
        return f
    cands = [g for g in P.fns.values() if _live(g) and g.kind in ("Fn", "AssocFn") and role(g)]
    if len(cands) == 1:
        return cands[0]
    raise AnchorMissing("function `%s` (%s) not found; %d functions play that role" % (name, what, len(cands)))


def only_via(P, path, gates, _seen=None):
    """every call chain (over non-test workspace callers) that reaches `path` passes through a function of `gates`: walking the
    call graph backwards from `path` without crossing a gate never arrives at a function that nobody calls (an entry point)"""
    if path in gates:
        return True
    seen, todo = set(), [path]
    while todo:
        p = todo.pop()
        if p in seen or p in gates:
            continue
        seen.add(p)
        callers = [c for c in P.callers_of(p) if "::tests" not in c and not P.fns[c].derived and c != p]
        if not callers:
            return False
        todo.extend(callers)
    return True


def tail_kind(e):
    """what a block/expression evaluates to: "err" (`Err(..)`, possibly through `return`), "ok" (`Ok(..)`), or "other" """
    while e is not None:
        k = e.get("k")
        if k == "BlockExpr":
            b = e["b"]
            if b.get("tail") is None:
                last = b["stmts"][-1] if b.get("stmts") else None
                # `return Err(..);` as the last statement
                while last is not None and last.get("k") in ("Semi", "ExprStmt", "Stmt") and "e" in last:
                    last = last["e"]
                e = last
            else:
                e = b["tail"]
        elif k == "Block":
            e = e.get("tail") or (e["stmts"][-1] if e.get("stmts") else None)
        elif k == "Ret":
            e = e.get("e")
        elif k == "Call":
            c = call_name(e) or ""
            if c.endswith("Result::Err"):
                return "err"
            if c.endswith("Result::Ok"):
                return "ok"
            return "other"
        elif k == "MethodCall" and e.get("method") in ("into", "map_err") and e.get("recv") is not None:
            e = e["recv"]
        elif k in ("DropTemps", "Use", "Semi", "ExprStmt", "Stmt") and "e" in e:
            e = e.get("e")
        else:
            return "other"
    return "other"


def is_tail_err(block_or_expr):
    return tail_kind(block_or_expr) == "err"


def pat_variants(pat):
    """def paths of the enum variants / structs a pattern destructures"""
    out = set()
    for x in subnodes(pat):
        if x.get("k") in ("Struct", "TupleStruct", "PatExpr", "Path"):
            d = x.get("ctor_of") or x.get("def")
            if d:
                out.add(norm(d))
    return out


def destructured(f, idx):
    """variant paths that are known to have matched when control reaches nodes()[idx]: patterns of the enclosing match arms,
    of enclosing `if let` (then-branch), and of `let .. else` statements that precede the node in an enclosing block"""
    out = set()
    for ctx in enclosing_contexts(f, idx):
        if ctx[0] == "arm":
            out |= pat_variants(ctx[2]["pat"])
        elif ctx[0] == "if-then":
            for x in subnodes(ctx[1]["cond"]):
                if x.get("k") == "LetExpr":
                    out |= pat_variants(x["pat"])
    acc = f.nodes()
    child = acc[idx][0]
    p = acc[idx][1]
    while p >= 0:
        n = acc[p][0]
        if n.get("k") == "Block" and n.get("stmts"):
            for s in n["stmts"]:
                if _contains(s, child):
                    break
                for x in ([s] if s.get("k") == "Let" else [y for y in (s.get("e"), s.get("l")) if isinstance(y, dict) and y.get("k") == "Let"]):
                    if "els" in x:
                        out |= pat_variants(x["pat"])
        child = n
        p = acc[p][1]
    return out


def short_circuits(f):
    """places where the handling of a list stops at its first failing element: `collect`/`sum`/.. into Result/Option, try_* and
    searching adaptors, and `?`/`return`/`break` directly inside a loop body (not inside a closure within it)"""
    out = []
    for i, (x, _) in enumerate(f.nodes()):
        k = x.get("k")
        if k == "MethodCall":
            m = x["method"]
            if m in ("collect", "try_collect", "sum", "product") and peel_ty(x.get("t", "")).startswith(("core::result::Result<", "core::option::Option<")):
                out.append("%s into %s" % (m, peel_ty(x["t"]).split("<")[0].split("::")[-1]))
            elif m in ("try_for_each", "try_fold", "map_while", "take_while", "find_map", "find", "process_results", "fold_ok"):
                out.append(m)
        elif (k == "Match" and str(x.get("src", "")).startswith("TryDesugar")) or (k in ("Ret", "Break") and "desugar" not in (x.get("x") or "")):
            if k == "Break" and x.get("e") is None:
                pass
            inner = next((c[0] for c in enclosing_contexts(f, i) if c[0] in ("loop", "closure")), None)
            if inner == "loop":
                out.append("`?`" if k == "Match" else ("`return`" if k == "Ret" else "`break`") + " inside a loop")
    return out


def path_sig(atoms):
    """what a path value is made of, up to ownership conversions: its sources (parameters, fields) and path-shaping calls"""
    shaping = {"join", "with_file_name", "with_extension", "set_file_name", "set_extension", "push", "parent", "file_name", "canonicalize"}
    out = set()
    for a in atoms:
        if a[0] in ("param", "field"):
            out.add(a)
        elif a[0] == "call" and a[1].split("::")[-1] in shaping:
            out.add(("call", a[1].split("::")[-1]))
    return out


def _src_exprs(pv, e, depth=3):
    """`e` and the expressions its locals were bound to (a few levels)"""
    out, frontier = [], [e]
    for _ in range(depth + 1):
        nxt = []
        for x in frontier:
            if x is None:
                continue
            out.append(x)
            for y in subnodes(x):
                if y.get("k") == "Path" and "local" in y:
                    nxt.extend(s for s, _ in pv.src.get(y["local"], []) if isinstance(s, dict))
        frontier = nxt
    return out


def renderers(P):
    """the renderers of the CLI output and, among them, those that print a JSON document to stdout.  By name (the three methods of
    CliOutput), plus any further method of CliOutput that takes the FileStore (a renderer added for a new output format); when the
    output was redesigned around renderer objects: the implementations of a trait of the CLI crate that the CliOutput methods
    taking the FileStore hand their data to."""
    rs = {}
    for name in ("human_output", "json_output", "rdjson_output"):
        f = P.fn(OUT + "::" + name, required=False)
        if f is not None:
            rs[name] = f
    meths = [g for g in P.fns.values() if _live(g) and (g.self_adt or "").endswith("::CliOutput") and g.kind == "AssocFn"
             and any("FileStore" in t for t in g.sig_inputs) and g.sig_inputs and peel_ty(g.sig_inputs[0]).split("<")[0].endswith("::CliOutput")]
    # a step shared by the renderers (resolving the collected errors once, a common look-up) is called by them, not by the dispatch
    mp = {g.path for g in meths} | {g.path for g in rs.values()}
    dispatch = {g.path for g in meths if g.name not in rs and _mentions_format(g.body)
                and any(call_name(x) in mp - {g.path} for x in g.walk() if x.get("k") in ("Call", "MethodCall"))}
    meths = [g for g in meths if g.path in dispatch or not (P.callers_of(g.path) and all(
        c in mp - dispatch and c != g.path for c in P.callers_of(g.path) if "::tests" not in c))]
    if rs:
        for g in meths:
            rs.setdefault(g.name, g)
    else:
        reach = P.reachable(meths) if meths else set()
        by_trait = {}
        for g in P.fns.values():
            if _live(g) and g.impl_trait and g.impl_trait.startswith(CLI) and g.path in reach and not (g.self_adt or "").endswith("::CliOutput"):
                by_trait.setdefault((g.impl_trait, g.name), []).append(g)
        cands = [v for v in by_trait.values() if len(v) >= 2 and any(prints_anything(P, g) for g in v)]
        if len(cands) == 1:
            rs = {"%s::%s" % ((g.self_adt or g.self_ty or "?").split("::")[-1], g.name): g for g in cands[0]}
        else:
            for g in meths:
                rs.setdefault(g.name, g)
    # a method that only selects among the renderers (matches on the format and calls them) is the dispatch, not a renderer
    paths = {g.path for g in rs.values()}
    for n_, g in sorted(rs.items()):
        if n_ not in ("human_output", "json_output", "rdjson_output") and any(
                call_name(x) in paths - {g.path} for x in g.walk() if x.get("k") in ("Call", "MethodCall")):
            del rs[n_]
    if len(rs) < 3:
        raise AnchorMissing("the renderers of the CLI output cannot be identified: %s" % sorted(g.path for g in rs.values()))
    jsonish = {n: g for n, g in rs.items() if any("JSONObjectWriter" in (call_name(x) or "") for x in inlined(P, g).walk() if x.get("k") in ("Call", "MethodCall"))}
    return rs, jsonish


def prints_anything(P, g):
    return any(x.get("k") == "Call" and (call_name(x) or "").endswith(("stdio::_print", "stdio::_eprint")) for x in inlined(P, g, depth=1).walk())


def hand_over(P, g):
    """the CliOutput methods (taking the FileStore) through which a renderer object gets its data; empty for a renderer that is
    itself a method of CliOutput"""
    if (g.self_adt or "").endswith("::CliOutput"):
        return []
    return sorted((m for m in P.fns.values() if _live(m) and (m.self_adt or "").endswith("::CliOutput") and m.kind == "AssocFn"
                   and any("FileStore" in t for t in m.sig_inputs) and g.path in P.reachable([m])), key=lambda m: m.path)


def field_origins(P, pv_atoms):
    """one level of inter-procedural provenance: for every field atom of a CLI struct, the atoms of the expressions that struct
    literals of the CLI store into that field"""
    out = set()
    wanted = {(a[1], a[2]) for a in pv_atoms if a[0] == "field" and (a[1] or "").startswith(CLI)}
    if not wanted:
        return out, []
    exprs = []
    for f in P.fns.values():
        if not _live(f) or not f.path.startswith(CLI):
            continue
        pv = None
        for x in f.walk():
            if x.get("k") == "Struct" and "rest" not in x and isinstance(x.get("fields"), list):
                adt = norm(x.get("variant") or x.get("adt") or "")
                for fl in x["fields"]:
                    if isinstance(fl, dict) and "e" in fl and (adt, fl.get("name")) in wanted:
                        pv = pv or Prov(f)
                        out |= pv.atoms(fl["e"])
                        exprs.extend(_src_exprs(pv, fl["e"]))
    return out, exprs


def diag_fields(P):
    """fields of CliOutput in which `Extend::extend` stores the diagnostics it is given (today: check_errors)"""
    out = set()
    for f in P.trait_impls("core::iter::traits::collect::Extend", "extend"):
        if (f.self_adt or "").endswith("output::CliOutput"):
            for c in f.walk():
                if c.get("k") == "MethodCall" and c["method"] in ("extend", "push", "append") and c["recv"].get("k") == "Field" and is_out(c["recv"].get("adt")):
                    out.add(c["recv"]["field"])
    return out or {"check_errors"}


def _result_branches(body_fn, is_res, pat_variants):
    branches = []
    for m in body_fn.walk():
        if m.get("k") == "Match" and m.get("src") == "Normal" and is_res(m["scrut"]):
            for arm in m["arms"]:
                for v in arm_variants({"arms": [arm]})[0] & {"Ok", "Err"}:
                    branches.append((v, arm["body"]))
        elif m.get("k") == "If" and m["cond"].get("k") == "LetExpr" and is_res(m["cond"].get("init")) and m.get("else") is not None:
            vs = {x.split("::")[-1] for x in pat_variants(m["cond"]["pat"])} & {"Ok", "Err"}
            for v in vs:
                branches.append((v, m["then"]))
                branches.append(("Ok" if v == "Err" else "Err", m["else"]))
        elif m.get("k") == "Let" and "els" in m and is_res(m.get("init")):
            vs = {x.split("::")[-1] for x in pat_variants(m["pat"])} & {"Ok", "Err"}
            for v in vs:
                branches.append(("Ok" if v == "Err" else "Err", m["els"]))
                # the code after the statement runs for `v`: the enclosing block (function body of the helper) gives the value
                for blk in body_fn.walk():
                    if blk.get("k") == "Block" and any(st is m for st in blk.get("stmts", [])):
                        branches.append((v, blk))
    return branches


# --------------------------------------------------------------------------------------------------------------- R18-a
def r18a(P, R):
    run_cli = P.fn(CLI + "run_cli")
    exits = P.ext_callers(lambda p: p == "std::process::exit")
    exits = [(f, n) for f, c, n in exits if "::tests" not in f.path and f.crate == run_cli.crate]
    if len(exits) == 1:
        R.holds("R18-a", "single-exit", "process::exit is called at one site (%s)" % short(exits[0][0].path))
    elif not exits:
        R.undecided("R18-a", "single-exit", "no call of process::exit in the CLI crate: the exit status is produced in a way this rule does not read")
    else:
        R.violated("R18-a", "single-exit", "process::exit call sites: %s" % [f.path for f, _ in exits])
    # `code` is 0 exactly in the Ok arm
    body0 = exits[0][0] if exits else run_cli

    def is_res(e):
        return e is not None and peel_ty(e.get("t", "")).startswith("core::result::Result<(), ")

    def value_of(region):
        """the literal a branch evaluates to / returns"""
        e = region
        while e is not None and e.get("k") in ("BlockExpr", "Block"):
            b_ = e["b"] if e.get("k") == "BlockExpr" else e
            if b_.get("tail") is not None:
                e = b_["tail"]
            else:
                last = b_["stmts"][-1] if b_.get("stmts") else None
                while last is not None and last.get("k") not in ("Ret", "InlRet") and isinstance(last.get("e"), dict):
                    last = last["e"]
                e = last
        if e is not None and e.get("k") in ("Ret", "InlRet"):
            e = e.get("e")
        if e is None:
            return None
        v = lit_value(e)
        if v is None:
            # a named constant (`EXIT_SUCCESS`): its literal value
            x = e
            while x.get("k") in ("DropTemps", "Use", "Cast") and "e" in x:
                x = x["e"]
            if x.get("k") == "Path" and x.get("def") and "local" not in x:
                for cp, c in P.fns.items():
                    if (cp == norm(x["def"]) or cp.startswith(norm(x["def"]) + "::{")) and c.kind.startswith("Const"):
                        v = lit_value(c.body)
                        break
        return v
    # branches on the command result: [(variant, region)] from `match`, `if let` and `let .. else`; looked for where the process
    # exits and, when the exit itself sits in a small helper, in the functions that call it
    cands, frontier = [body0], [body0]
    for _ in range(2):
        frontier = [P.fns[c] for f_ in frontier for c in P.callers_of(f_.path) if c.startswith(CLI) and "::tests" not in c]
        cands += [g for g in frontier if g not in cands]
    branches = []
    for cand in cands:
        body_fn = inlined(P, cand, depth=1)
        branches = _result_branches(body_fn, is_res, pat_variants)
        if branches:
            body0 = cand
            break
    R.floor("R18-a", "branches on the command result in run_cli", len(branches), 2)
    for v, region in branches:
        val = value_of(region)
        if v == "Ok":
            if val is None:
                R.undecided("R18-a", "exit:ok-arm", "the Ok branch does not end in a literal exit code", loc=body0.loc())
            else:
                R.check("R18-a", "exit:ok-arm", val == "0", "Ok(()) => exit code 0", "the Ok arm yields exit code %r" % val, loc=body0.loc())
        else:
            if val is None:
                R.undecided("R18-a", "exit:err-arm", "the Err branch does not end in a literal exit code", loc=body0.loc())
            else:
                R.check("R18-a", "exit:err-arm", val != "0", "Err => non-zero exit code", "the Err arm yields exit code %r" % val, loc=body0.loc())
            ce = [n for n in subnodes(region) if n.get("k") == "MethodCall" and (call_name(n) or "").endswith("CliOutput::command_error")]
            R.check("R18-a", "exit:err-reported", len(ce) >= 1, "every failing run records a command error message",
                    "the Err arm does not record the error through CliOutput::command_error", loc=body0.loc())
    # diagnostics are only recorded on a path that returns Err
    ext = [f for f in P.trait_impls("core::iter::traits::collect::Extend", "extend") if (f.self_adt or "").endswith("CliOutput")]
    R.floor("R18-a", "CliOutput::extend impl", len(ext), 1)
    n = 0
    for f in sorted(P.fns.values(), key=lambda g: g.path):
        if not f.path.startswith(CLI) or "::tests" in f.path:
            continue
        for i, (c, _) in enumerate(f.nodes()):
            if c.get("k") == "MethodCall" and ext and call_name(c) == ext[0].path:
                n += 1
                # the branch the recording lies in (innermost first), then the function body
                regions = []
                for x in enclosing_contexts(f, i):
                    if x[0] == "arm":
                        regions.append(x[2]["body"])
                    elif x[0] == "if-then":
                        regions.append(x[1]["then"])
                    elif x[0] == "if-else":
                        regions.append(x[1]["else"])
                    elif x[0] in ("closure", "loop"):
                        break
                regions.append(f.body)
                kinds = [tail_kind(r) for r in regions]
                key = "diag->err:%s" % short(f.path)
                if "err" in kinds and "ok" not in kinds[:kinds.index("err")]:
                    R.holds("R18-a", key, "diagnostics recorded => the command returns Err", loc=f.loc())
                elif kinds[0] == "ok" or (kinds[-1] == "ok" and set(kinds[:-1]) <= {"other"} and len(regions) == 1):
                    R.violated("R18-a", key, "%s records check diagnostics on a path that ends in Ok(..) (exit status could be 0 with diagnostics)" % f.path, loc=f.loc())
                else:
                    R.undecided("R18-a", key, "%s records check diagnostics; whether that path returns Err is not decided" % f.path, loc=f.loc())
    R.floor("R18-a", "diagnostic recording sites", n, 1)
    # check_impl: Ok only when there are no errors
    ci0 = P.fn(CLI + "check::check_impl")
    for ci in (ci0, inlined(P, ci0, depth=1)):   # the function itself first (exact provenance), then with helper bodies attached
        oks = [(i, c) for i, (c, _) in enumerate(ci.nodes()) if c.get("k") == "Struct" and "rest" not in c
               and norm(c.get("variant", "")).endswith("CheckImplOutput::Ok")]
        if not oks and (ci0.sig_output or "").startswith("core::result::Result<"):
            # the verdict as a Result: the success value is an explicit `Ok(..)` of check_impl itself
            oks = [(i, c) for i, (c, _) in enumerate(ci.nodes()) if c.get("k") == "Call" and (call_name(c) or "") == "core::result::Result::Ok"
                   and not c.get("x") and "inl" not in c and not any(a_.get("k") == "Call" and "inl" in a_ for a_ in [c])]
        if oks:
            break
    R.floor("R18-a", "CheckImplOutput::Ok constructions", len(oks), 1)
    pvc = Prov(ci)
    # locals that accumulate diagnostics through a method (`errors.push(err)`, `errors.extend(check_operation_document(..))`):
    # provenance follows assignments, not mutation through `&mut self`
    fed = set()
    for x in ci.walk():
        if x.get("k") == "MethodCall" and x["method"] in ("push", "extend", "append", "insert", "extend_from_slice", "push_back") and x["recv"].get("k") == "Path" \
                and "local" in x["recv"] and any(has_call(pvc.atoms(a_), "check_operation_document") for a_ in x["args"]):
            fed.add(x["recv"]["local"])

    def from_diagnostics(e):
        return has_call(pvc.atoms(e), "check_operation_document") or any(y.get("k") == "Path" and y.get("local") in fed for y in subnodes(e))

    def emptiness_test(cond):
        """(is a test of the operation diagnostics, True if the condition means `empty`)"""
        names = [x.get("method") for x in subnodes(cond) if x.get("k") == "MethodCall"]
        if "is_empty" not in names or not from_diagnostics(cond):
            return False, None
        neg = sum(1 for x in subnodes(cond) if x.get("k") == "Unary" and x.get("op") == "Not") % 2 == 1
        return True, not neg
    for i, c in oks:
        ok = None
        for ctx in enclosing_contexts(ci, i):
            if ctx[0] in ("if-then", "if-else"):
                t, empty = emptiness_test(ctx[1]["cond"])
                if t:
                    ok = (empty and ctx[0] == "if-then") or (not empty and ctx[0] == "if-else")
                    break
        if ok is None:
            # early return: `if !errors.is_empty() { return ..Err }` before the construction
            for j, (x, _) in enumerate(ci.nodes()):
                if j >= i:
                    break
                if x.get("k") == "If":
                    t, empty = emptiness_test(x["cond"])
                    if t and not empty and any(y.get("k") == "Ret" for y in subnodes(x["then"])) and not _contains(x, c):
                        ok = True
        tested = any(emptiness_test(x["cond"])[0] for x in ci.walk() if x.get("k") == "If")
        if ok:
            R.holds("R18-a", "check-ok-iff-no-errors", "check succeeds only when the operation diagnostics are empty", loc=ci0.loc())
        elif ok is False or not tested and not any(from_diagnostics(y["cond"] if y.get("k") == "If" else y["scrut"])
                                                    for y in ci.walk() if y.get("k") == "If" or (y.get("k") == "Match" and y.get("src") == "Normal")):
            R.violated("R18-a", "check-ok-iff-no-errors", "CheckImplOutput::Ok is constructed on a path not guarded by `errors.is_empty()` over "
                       "check_operation_document's result", loc=ci0.loc())
        else:
            R.undecided("R18-a", "check-ok-iff-no-errors", "the diagnostics of check_operation_document are tested, but not in a shape this rule relates to "
                        "the construction of CheckImplOutput::Ok", loc=ci0.loc())


# --------------------------------------------------------------------------------------------------------------- R18-b
def _mentions_format(node):
    return any("OutputFormat::" in (norm(x.get("def") or x.get("ctor_of") or "") or "") for x in subnodes(node) if x.get("k") in ("Path", "PatExpr", "TupleStruct", "Struct"))


def r18b(P, R):
    """stdout belongs to the renderer of the selected output format: nothing outside the renderers prints, a JSON renderer prints its
    one document, and a renderer that prints its own format (a new `--output-format`) is selected only by the format dispatch"""
    run_cli = P.fn(CLI + "run_cli")
    reach = P.reachable([run_cli])

    def prints(f):
        return [n for n in f.walk() if n.get("k") == "Call" and (call_name(n) or "") == "std::io::stdio::_print"]
    try:
        rs, jsonish = renderers(P)
    except AnchorMissing as e:
        # whatever the renderers look like, the check and generate stages never write to stdout
        stages = [g for g in (P.fn(CLI + "check::run_check", required=False), P.fn(CLI + "generate::run_generate", required=False)) if g is not None]
        for p in sorted(P.reachable(stages)):
            if prints(P.fns[p]):
                R.violated("R18-b", "stdout:" + p, "%s (check/generate stage) writes to stdout: in json/rdjson mode stdout is no longer one JSON document" % p, loc=P.fns[p].loc())
        raise
    rpaths = {g.path for g in rs.values()}
    expect = {g.path for g in jsonish.values()}
    owners = {g.self_adt for g in rs.values() if g.self_adt and not g.self_adt.endswith("::CliOutput")}
    printers = {p: prints(P.fns[p]) for p in sorted(reach) if prints(P.fns[p])}
    R.count("functions_reachable_from_run_cli", len(reach))
    R.floor("R18-b", "JSON renderers of CliOutput", len(expect), 2)
    # (1) stdout writers that can be reached without passing through a renderer: check/generate code, helpers of the pipeline
    outside = P.reachable([run_cli], stop=rpaths)
    for p, ns in sorted(printers.items()):
        if p in rpaths:
            continue
        if p in outside:
            R.violated("R18-b", "stdout:" + P.fns[p].path, "%s (reachable from run_cli outside the renderers) writes to stdout: in json/rdjson mode stdout is "
                       "no longer one JSON document" % p, loc=P.fns[p].loc())
        else:
            R.holds("R18-b", "stdout-helper:" + short(p), "prints only on behalf of a renderer", loc=P.fns[p].loc())
    # (2) the JSON renderers print their one buffer
    for name, g in sorted(jsonish.items()):
        gi = inlined(P, g)
        ns = prints(gi)
        if not ns:
            R.violated("R18-b", "stdout:" + short(g.path), "%s no longer prints its buffer" % g.path, loc=g.loc())
            continue
        R.check("R18-b", "stdout:" + short(g.path), len(ns) == 1, "prints the JSON buffer exactly once",
                "%s writes to stdout %d times" % (g.path, len(ns)), loc=g.loc())
        pv = Prov(gi)
        a = set()
        for x in ns:
            a |= pv.atoms(x)
        R.check("R18-b", "stdout-buffer:" + short(g.path), ("call", "alloc::string::String::new") in a or any(x[0] == "call" and "JSONObjectWriter" in x[1] for x in a),
                "what is printed is the JSON writer's buffer", "%s prints something other than the JSON buffer" % g.path, loc=g.loc())
    # (3) a renderer of another format that writes to stdout: correct iff it runs only when its own format was selected
    for name, g in sorted(rs.items()):
        if g.path in expect or not (prints(inlined(P, g)) or any(q in P.reachable([g]) for q in printers if q not in rpaths)):
            continue
        key = "stdout-own-format:" + short(g.path)
        verdicts = []
        for cp in [c for c in P.callers_of(g.path) if "::tests" not in c]:
            f = P.fns[cp]
            for i, (c, _) in enumerate(f.nodes()):
                if c.get("k") in ("MethodCall", "Call") and call_name(c) == g.path:
                    ctxs = enclosing_contexts(f, i)
                    sel = [x for x in ctxs if (x[0] == "arm" and _mentions_format(x[2]["pat"])) or (x[0] in ("if-then", "if-else") and _mentions_format(x[1]["cond"]))]
                    sib = []
                    for x in sel:
                        region = x[2]["body"] if x[0] == "arm" else (x[1]["then"] if x[0] == "if-then" else x[1]["else"])
                        sib += [call_name(y) for y in subnodes(region) if y.get("k") in ("MethodCall", "Call") and call_name(y) in expect]
                    if sib:
                        verdicts.append(("violated", "%s runs it in the same branch as the JSON renderer %s" % (cp, sorted(set(map(short, sib))))))
                    elif sel:
                        verdicts.append(("holds", ""))
                    elif not [x for x in ctxs if x[0] in ("arm", "if-then", "if-else")]:
                        verdicts.append(("violated", "%s calls it whatever the output format is" % cp))
                    else:
                        verdicts.append(("undecided", "%s calls it under a condition this rule does not relate to OutputFormat" % cp))
        bad = [m for v, m in verdicts if v == "violated"]
        und = [m for v, m in verdicts if v == "undecided"]
        if bad:
            R.violated("R18-b", key, "%s writes to stdout and is not confined to its own output format: %s; in json/rdjson mode stdout is no longer one JSON document"
                       % (g.path, "; ".join(bad)), loc=g.loc())
        elif und or not verdicts:
            R.undecided("R18-b", key, "; ".join(und) or "%s writes to stdout but no call of it was found" % g.path, loc=g.loc())
        else:
            R.holds("R18-b", key, "prints its own format and is selected only by the output-format dispatch", loc=g.loc())
    # the logger: simple_logger prints enabled records on stdout.  The level given at its initialisation is the gate: no `log` macro
    # reachable from run_cli may be at a level that it enables by default
    LEVELS = ["Off", "Error", "Warn", "Info", "Debug", "Trace"]
    inits = [(f, n) for f, c, n in P.ext_callers(lambda q: q.startswith("simple_logger::") and q.endswith("::with_level")) if f.path in reach]
    for f, n in inits:
        lv = next((norm(x["def"]).split("::")[-1] for a_ in n.get("args", []) for x in subnodes(a_) if x.get("k") == "Path" and "LevelFilter::" in norm(x.get("def") or "")), None)
        if lv not in LEVELS:
            R.undecided("R18-b", "stdout:logger-level", "the default log level given to the stdout logger is not a literal LevelFilter", loc=f.loc())
            continue
        enabled = []
        for p in sorted(reach):
            g = P.fns[p]
            calls = [x for x in g.walk() if x.get("k") == "Call" and (call_name(x) or "") == "log::__private_api::log"]
            if not calls:
                continue
            pv = Prov(g)
            for x in calls:
                lvls = {a[1].split("::")[-1] for a_ in x["args"] for a in pv.atoms(a_) if a[0] == "def" and a[1].startswith("log::Level::")}
                if any(l in LEVELS and LEVELS.index(l) <= LEVELS.index(lv) for l in lvls):
                    enabled.append("%s (%s)" % (short(p), "/".join(sorted(lvls))))
        R.check("R18-b", "stdout:logger-level", not enabled, "the stdout logger is initialised at level %s, below every log call reachable from run_cli" % lv,
                "the logger that writes to stdout is initialised at level %s, which enables the log call(s) in %s by default: their lines precede the report, "
                "so in json/rdjson mode stdout is no longer one JSON document" % (lv, ", ".join(sorted(set(enabled))[:6])), loc=f.loc())
    # direct stdout handles
    others = [f.path for f, c, n in P.ext_callers(lambda q: q in ("std::io::stdio::stdout", "std::io::stdio::Stdout::lock")) if f.path in reach]
    R.check("R18-b", "stdout:handles", not others, "no other stdout handle is taken on the CLI path", "stdout handle taken in %s" % others)
    # every output format is dispatched to a renderer by an exhaustive match over OutputFormat
    fmt = [a for p_, a in P.adts.items() if p_.startswith(CLI) and p_.split("::")[-1] == "OutputFormat"]
    all_variants = set(fmt[0].variant_names()) if len(fmt) == 1 else {"Human", "Json", "Rdjson"}
    ms = [m for f in P.fns.values() if f.path in reach and f.path.startswith(CLI) for m in matches_on(f, "OutputFormat")]
    ok = False
    for m in ms:
        v, catch = arm_variants(m)
        if v == all_variants and not catch and all(
                any(call_name(y) in rpaths for y in subnodes(arm["body"]) if y.get("k") in ("MethodCall", "Call"))
                or any(norm(y.get("def") or y.get("adt") or "") in owners for y in subnodes(arm["body"]) if y.get("k") in ("Path", "Struct"))
                for arm in m["arms"]):
            ok = True
    unreached = sorted(g.path for g in rs.values() if g.path not in reach)
    if unreached:
        R.violated("R18-b", "renderer-dispatch", "renderer(s) %s are not reachable from run_cli: that output format is never produced" % unreached)
    elif ok:
        R.holds("R18-b", "renderer-dispatch", "each output format (%s) has its renderer" % ", ".join(sorted(all_variants)))
    else:
        R.undecided("R18-b", "renderer-dispatch", "all renderers are reachable from run_cli, but not through an exhaustive match over OutputFormat")


# --------------------------------------------------------------------------------------------------------------- R18-c
def write_helpers(P):
    """the functions of the CLI that write an output file and report it (by name, else by role: they call both a file-creating
    API and CliOutput::generated_file)"""
    out = []
    for name in ("write_file_and_sourcemap", "write_file_without_sourcemap"):
        f = P.fn(CLI + "generate::" + name, required=False)
        if f is not None:
            out.append(f)
    if len(out) == 2:
        return out
    cands = []
    creators = {f.path for f, c, n in P.ext_callers(lambda p: p.startswith(FILE_CREATE)) if "::tests" not in f.path}
    for g in P.fns.values():
        if _live(g) and g.path.startswith(CLI) and g.kind in ("Fn", "AssocFn"):
            cs = {call_name(x) or "" for x in g.walk() if x.get("k") in ("Call", "MethodCall")}
            if any(c.endswith("CliOutput::generated_file") for c in cs) and (creators & P.reachable([g])):
                cands.append(g)
    if not cands:
        raise AnchorMissing("no function of the CLI both creates a file and reports it through CliOutput::generated_file")
    return cands


def gated(f, idx, want, enum):
    """is nodes()[idx] executed only after `enum::want` was destructured? -> True | False (another variant of `enum` was) | None"""
    vs = {v for v in destructured(f, idx) if ("::" + enum + "::") in ("::" + v)}
    if any(v.endswith("::" + want) for v in vs):
        return True
    if vs:
        return False
    return None


def r18c(P, R):
    run_cli = P.fn(CLI + "run_cli")
    helpers = write_helpers(P)
    hp = {w.path for w in helpers}
    rg = P.fn(CLI + "generate::run_generate")
    rc = P.fn(CLI + "check::run_check")
    writers = {}
    for f, c, n in P.ext_callers(lambda p: p.startswith(WRITE_APIS)):
        if "::tests" in f.path:
            continue
        writers.setdefault(f.path, []).append(c)
    R.count("fs_write_call_sites", sum(len(v) for v in writers.values()))
    for p, cs in sorted(writers.items()):
        R.check("R18-c", "who-may-write:" + short(p), only_via(P, p, hp),
                "file-system writes only in (or on behalf of) the write helpers", "%s writes to the file system (%s) and can be reached "
                "without going through %s" % (p, sorted(set(cs)), sorted(short(h) for h in hp)), loc=P.fns[p].loc())
    R.floor("R18-c", "file-system write call sites", sum(len(v) for v in writers.values()), 3)
    for w in helpers:
        callers = [c for c in P.callers_of(w.path) if "::tests" not in c and c not in hp]
        stray = [c for c in callers if not only_via(P, c, {rg.path})]
        R.check("R18-c", "write-callers:" + w.name, not stray, "only run_generate (and its own helpers) writes files",
                "%s is called from %s, which is reachable without going through run_generate" % (w.path, stray), loc=w.loc())
    # `check` writes no file
    rc_reach = P.reachable([rc])
    R.check("R18-c", "check-writes-nothing", not (set(writers) & rc_reach) and not (hp & rc_reach),
            "no file-system write is reachable from run_check", "run_check reaches a file-system write: %s" % sorted((set(writers) | hp) & rc_reach))
    # every write helper call in run_generate lies in the SchemaResolved arm
    rgi = inlined(P, rg, pred=lambda g: g.path not in hp and g.path != rc.path)
    n = 0
    for i, (c, _) in enumerate(rgi.nodes()):
        if c.get("k") == "Call" and call_name(c) in hp:
            n += 1
            g = gated(rgi, i, "SchemaResolved", "CliContext")
            key = "write-gate:%d" % n
            if g:
                R.holds("R18-c", key, "write happens only with a resolved (checked) context", loc=rg.loc())
            elif g is False:
                R.violated("R18-c", key, "run_generate writes a file on a path where the context is not CliContext::SchemaResolved", loc=rg.loc())
            else:
                R.undecided("R18-c", key, "a write helper is called outside any destructuring of CliContext this rule recognises", loc=rg.loc())
    R.floor("R18-c", "write calls in run_generate", n, 4)


def gate(P, R, rule="R18-c"):
    """SchemaResolved is only constructed after a successful check (shared with C03's R03-g)"""
    n = 0
    for f in sorted(P.fns.values(), key=lambda g: g.path):
        if not f.path.startswith(CLI) or "::tests" in f.path:
            continue
        for i, (c, _) in enumerate(f.nodes()):
            if c.get("k") == "Struct" and "rest" not in c and norm(c.get("variant", "")).endswith("CliContext::SchemaResolved"):
                n += 1
                vs = destructured(f, i)
                from_check = any(v.endswith("CheckImplOutput::Ok") for v in vs)
                rewrap = any(v.endswith("CliContext::SchemaResolved") for v in vs)
                other = sorted(v for v in vs if ("::CheckImplOutput::" in v and not v.endswith("::Ok")))
                # where the data of the new context comes from: fields bound from CheckImplOutput::Ok / an existing SchemaResolved
                pvf = Prov(f)
                src = set()
                for fl in c.get("fields", []):
                    if isinstance(fl, dict) and "e" in fl:
                        src |= {a[1] for a in pvf.atoms(fl["e"]) if a[0] == "field" and a[1]}
                checked = any(a.endswith(("CheckImplOutput::Ok", "CliContext::SchemaResolved")) for a in src)
                # the check verdict as a Result: the data comes from what check_impl returned, on the Ok side (an `Ok(..)` arm of a
                # match on that result, or past a `?`); the Err arm of such a match is the failed-check path
                impl = P.fn(CLI + "check::check_impl", required=False)
                if impl is not None and (impl.sig_output or "").startswith("core::result::Result<"):
                    from_impl = any(a[0] == "call" and a[1] == impl.path for fl in c.get("fields", []) if isinstance(fl, dict) and "e" in fl for a in pvf.atoms(fl["e"]))
                    for ctx in enclosing_contexts(f, i):
                        if ctx[0] == "arm" and ctx[1] is not None and any(a[0] == "call" and a[1] == impl.path for a in pvf.atoms(ctx[1]["scrut"])):
                            pvs = pat_variants(ctx[2]["pat"])
                            if any(v.endswith("Result::Err") for v in pvs):
                                other.append("Err(..) of check_impl")
                            elif any(v.endswith("Result::Ok") for v in pvs) and from_impl:
                                from_check = True
                    if from_impl and not other and not any(c_[0] == "arm" and c_[1] is not None and any(
                            a[0] == "call" and a[1] == impl.path for a in pvf.atoms(c_[1]["scrut"])) for c_ in enclosing_contexts(f, i) if str(c_[1].get("src")) == "Normal"):
                        from_check = True   # bound past `check_impl(..)?` / let-else: only the Ok payload gets here
                key = "resolved-ctor:%s" % short(f.path)
                if other:
                    R.violated(rule, key, "%s constructs CliContext::SchemaResolved on a path that is not the successful-check path (matched: %s): "
                               "generate could run on an unchecked project" % (f.path, sorted(short(v) for v in other)), loc=f.loc())
                elif from_check or rewrap or checked:
                    R.holds(rule, key, "SchemaResolved built only from a successful check result or by re-wrapping a SchemaResolved", loc=f.loc())
                elif src and not checked and any(a.endswith("CliContext::SchemaUnresolved") for a in src):
                    R.violated(rule, key, "%s constructs CliContext::SchemaResolved from the unresolved context alone (nothing in it comes from CheckImplOutput::Ok): "
                               "generate could run on an unchecked project" % f.path, loc=f.loc())
                else:
                    R.undecided(rule, key, "%s constructs CliContext::SchemaResolved under conditions this rule does not relate to the check verdict" % f.path, loc=f.loc())
    R.floor(rule, "SchemaResolved constructions", n, 2)
    rg = P.fn(CLI + "generate::run_generate")
    rc = P.fn(CLI + "check::run_check")
    # run_generate runs check first when the context is unresolved, and propagates its error
    R.check(rule, "generate-runs-check", rc.path in P.reachable([rg]), "run_generate calls run_check on an unresolved context",
            "run_generate no longer runs check before generating", loc=rg.loc())
    # printer calls only in SchemaResolved arm
    rgi = inlined(P, rg, pred=lambda g: g.path != rc.path)
    n = 0
    for i, (c, _) in enumerate(rgi.nodes()):
        nm = call_name(c) or "" if c.get("k") in ("Call", "MethodCall") else ""
        if nm.startswith("nitrogql_printer::") and ("print_document" in nm or "print_types_for_operation_document" in nm or nm.endswith("print_graphql")):
            n += 1
            g = gated(rgi, i, "SchemaResolved", "CliContext")
            key = "printer-gate:%d" % n
            if g:
                R.holds(rule, key, "printers run only on a checked context", loc=rg.loc())
            elif g is False:
                R.violated(rule, key, "a printer is called on a path where the context is not CliContext::SchemaResolved", loc=rg.loc())
            else:
                R.undecided(rule, key, "a printer is called outside any destructuring of CliContext this rule recognises", loc=rg.loc())
    R.floor(rule, "printer calls in run_generate", n, 3)


# --------------------------------------------------------------------------------------------------------------- R18-d
def r18d(P, R):
    """each write is paired with a `generated_file` report of the same path"""
    pinned = {"write_file_and_sourcemap": 2, "write_file_without_sourcemap": 1}
    helpers = write_helpers(P)
    for f0 in helpers:
        name = f0.name
        f = inlined(P, f0)
        pv = Prov(f)
        writes = [c for c in f.walk() if c.get("k") in ("Call", "MethodCall") and (call_name(c) or "").startswith(FILE_CREATE)]
        reports = [c for c in f.walk() if c.get("k") == "MethodCall" and (call_name(c) or "").endswith("CliOutput::generated_file")]
        key = "pairing-count:" + name
        if len(writes) == len(reports):
            if name not in pinned or len(writes) == pinned[name]:
                R.holds("R18-d", key, "%d write(s), %d report(s)" % (len(writes), len(reports)), loc=f0.loc())
            else:
                R.undecided("R18-d", key, "%d write(s) and %d report(s); %d of each were confirmed on the pinned tree" % (len(writes), len(reports), pinned[name]), loc=f0.loc())
        else:
            # a report may have been moved next to the call of the helper: it must then name the path that is passed to the helper
            missing = len(writes) - len(reports)
            comp, bad = 0, []
            if missing > 0:
                for cp in P.callers_of(f0.path):
                    g = P.fns[cp]
                    if "::tests" in cp:
                        continue
                    gpv = Prov(g)
                    greports = [c for c in g.walk() if c.get("k") == "MethodCall" and (call_name(c) or "").endswith("CliOutput::generated_file")]
                    for call in [c for c in g.walk() if c.get("k") == "Call" and call_name(c) == f0.path]:
                        sigs = [path_sig(gpv.atoms(a)) for a in call["args"] if "Path" in str(a.get("t", ""))]
                        hit = [r for r in greports if any(path_sig(gpv.atoms(r["args"][-1])) == s for s in sigs)]
                        if hit:
                            comp += 1
                        elif greports:
                            for r in greports:
                                rs_ = path_sig(gpv.atoms(r["args"][-1]))
                                for s_ in sigs:
                                    bad.append("%s writes a path made of %s but reports one made of %s" % (
                                        short(cp), sorted("%s.%s" % (a[1].split("::")[-1], a[2]) if a[0] == "field" else a[1] for a in s_ - rs_) or "the same parts",
                                        sorted("%s.%s" % (a[1].split("::")[-1], a[2]) if a[0] == "field" else a[1] for a in rs_ - s_) or "fewer parts"))
            ncalls = sum(1 for cp in P.callers_of(f0.path) if "::tests" not in cp for c in P.fns[cp].walk() if c.get("k") == "Call" and call_name(c) == f0.path)
            if missing > 0 and comp == ncalls and ncalls > 0 and missing == 1:
                R.holds("R18-d", key, "%d write(s); the report of the written path is made by the caller(s)" % len(writes), loc=f0.loc())
            else:
                R.violated("R18-d", key, "%s performs %d write(s) but reports %d generated file(s)%s" % (f0.path, len(writes), len(reports), ("; " + "; ".join(bad)) if bad else ""), loc=f0.loc())
        wa = sorted(str(sorted(x for x in pv.atoms(w["args"][0] if w.get("k") == "Call" else (w["args"] or [w["recv"]])[0]) if x[0] == "param")) for w in writes)
        ra = sorted(str(sorted(x for x in pv.atoms(r["args"][1]) if x[0] == "param")) for r in reports)
        if len(writes) == len(reports):
            R.check("R18-d", "pairing-path:" + name, wa == ra, "written and reported paths derive from the same values",
                    "%s writes %s but reports %s" % (f0.path, wa, ra), loc=f0.loc())
        else:
            R.check("R18-d", "pairing-path:" + name, set(ra) <= set(wa) or not ra, "reported paths are written paths",
                    "%s writes %s but reports %s" % (f0.path, wa, ra), loc=f0.loc())
    # the map file name is the output path + ".map"
    lits = [x.get("v") for f0 in helpers for x in inlined(P, f0).walk() if x.get("k") == "Lit" and x.get("lk") == "str"]
    if ".map" in lits:
        R.holds("R18-d", "map-suffix", "source map is written next to the output as <file>.map")
    elif any(v and v.endswith(".map") for v in lits):
        R.undecided("R18-d", "map-suffix", "a literal ending in `.map` is used, not the plain suffix")
    else:
        R.violated("R18-d", "map-suffix", "no `.map` suffix literal in the write helpers: the source map is not written next to the output as <file>.map")


# --------------------------------------------------------------------------------------------------------------- R18-e
def r18e(P, R):
    """check-stage diagnostics of all files are aggregated (no early exit inside the per-file closures)"""
    ci0 = P.fn(CLI + "check::check_impl")
    ci = inlined(P, ci0)
    sites = [i for i, (c, _) in enumerate(ci.nodes()) if c.get("k") == "Call" and (call_name(c) or "").endswith("check_operation_document")]
    sc_ci = short_circuits(ci0)
    if not sites:
        R.undecided("R18-e", "operations-all-files", "no call of check_operation_document in check_impl", loc=ci0.loc())
    else:
        per_file = [any(c[0] in ("loop", "closure") for c in enclosing_contexts(ci, i)) for i in sites]
        if all(per_file) and not sc_ci:
            R.holds("R18-e", "operations-all-files", "every operation document is checked and all diagnostics collected", loc=ci0.loc())
        elif sc_ci:
            R.violated("R18-e", "operations-all-files", "check_impl stops at the first failing element (%s): diagnostics of later operation files are lost" % sc_ci, loc=ci0.loc())
        else:
            R.undecided("R18-e", "operations-all-files", "check_operation_document is not called per operation document in a loop/iterator this rule sees", loc=ci0.loc())
    ro0 = P.fn(CLI + "check::resolve_operations")
    ro = inlined(P, ro0)
    parts = [c for c in ro.walk() if c.get("k") == "MethodCall" and c["method"] in ("partition_result", "partition", "partition_map")]
    sc = short_circuits(ro)
    if sc:
        R.violated("R18-e", "resolve-all-files", "resolve_operations stops at the first failing file (%s) instead of collecting the errors of all files: "
                   "an offending file may be named by no diagnostic" % sc, loc=ro0.loc())
    elif len(parts) >= 2:
        R.holds("R18-e", "resolve-all-files", "extension and import resolution errors are partitioned over all files", loc=ro0.loc())
    else:
        R.undecided("R18-e", "resolve-all-files", "resolve_operations has no early exit, but aggregates per-file errors in a shape this rule does not read "
                    "(%d partition steps; 2 on the pinned tree)" % len(parts), loc=ro0.loc())
    from templates import LOSSY_OR_REORDERING
    for f in (ci0, ro0):
        bad = [c["method"] for c in inlined(P, f).walk() if c.get("k") == "MethodCall" and c["method"] in
               ("take", "find", "find_map", "next", "nth", "first", "last", "take_while", "skip", "step_by", "truncate", "pop")
               and any(w in norm(c.get("recv_ty", "") or "") for w in ("Error", "OperationDocument", "CheckImplInput"))]
        R.check("R18-e", "no-truncation:" + f.name, not bad, "no diagnostic list is truncated", "%s applies %s to a diagnostics/operations list" % (f.path, bad), loc=f.loc())
        # diagnostics, once produced, reach the output unfiltered: no de-duplication by an equality of the stage's own making
        # (sorting alone is harmless), whether by dedup/retain/unique on the list or by collecting it into a set or map
        fi = inlined(P, f)
        dd = [c["method"] for c in fi.walk() if c.get("k") == "MethodCall" and c["method"] in
              ("dedup", "dedup_by", "dedup_by_key", "retain", "retain_mut", "unique", "unique_by", "extract_if")
              and "Error" in norm(c.get("recv_ty", "") or "")]
        dd += ["collect into %s" % peel_ty(c.get("t", "")).split("<")[0].split("::")[-1] for c in fi.walk()
               if (c.get("k") == "MethodCall" and c.get("method") == "collect" or c.get("k") == "Call" and (call_name(c) or "").endswith("FromIterator::from_iter"))
               and peel_ty(c.get("t", "") or "").startswith(("std::collections::hash::", "alloc::collections::btree::", "hashbrown::", "indexmap::"))
               and "Error" in norm(c.get("t", "") or "")]
        pos_cmp = [g for g in P.trait_impls("core::cmp::Ord", "cmp") + P.trait_impls("core::cmp::PartialEq", "eq") if (g.self_adt or "").endswith("::Pos") and not g.derived]
        blind = (pos_cmp and not any(fld == "file" for g in pos_cmp for a_, fld in field_reads(g))) or \
                (eq_impls and not any(fld == "file" for g in eq_impls for a_, fld in field_reads(g)))
        # ... or by a predicate over the diagnostics (`filter(|e| seen.insert(key(e)))`, `take_while`, ..): every diagnostic produced
        # by the checker is reported
        dd += ["`%s` over diagnostics" % c["method"] for c in fi.walk() if c.get("k") == "MethodCall" and c["method"] in ("filter", "skip_while", "take_while", "map_while")
               and "Error" in norm(c.get("recv_ty", "") or "") and c["args"] and c["args"][0].get("k") == "Closure"]
        # ... or by comparing a diagnostic with the ones already collected (`seen == err`, `list.contains(&err)`)
        for c in fi.walk():
            if c.get("k") == "Binary" and c.get("op") in ("==", "!=") and any("Error" in norm((c[s_].get("t") or "")) for s_ in ("l", "r")):
                dd.append("`%s` between diagnostics" % c["op"])
            elif c.get("k") == "MethodCall" and c["method"] in ("contains", "eq", "ne") and "Error" in norm(c.get("recv_ty", "") or "") \
                    and not peel_ty(c.get("recv_ty", "") or "").startswith(("alloc::string::String", "str")):
                dd.append("`%s` on diagnostics" % c["method"])
        eq_impls = [g for g in P.trait_impls("core::cmp::PartialEq", "eq") if not g.derived and (g.self_adt or "").split("::")[-1] in ("CheckError", "PositionedError")]
        R.check("R18-e", "no-deduplication:" + f.name, not dd, "diagnostics are passed on as produced",
                "%s de-duplicates diagnostics (%s): diagnostics that compare equal under the list's own equality%s "
                "collapse into one, so an offending file may be named by no diagnostic" % (
                    f.path, ", ".join(dd), " (the comparison of positions never reads the file index)" if blind else ""), loc=f.loc())
    # a diagnostic that is recorded is also handed on: a local list of errors that receives diagnostics (push/extend) must be read
    # after that - returned, tested, converted.  A list that is filled last and then dropped loses those diagnostics (and the run
    # succeeds although a check failed).
    stage = sorted({g.path: g for g in [ci0, ro0, P.fn(CLI + "check::resolve_schema")] + scope_fns(P, ci0, depth=2) if g.path.startswith(CLI)}.values(), key=lambda g: g.path)
    for f in stage:
        acc = f.nodes()
        lists = {x["local"]: x.get("name") for x, _ in acc if x.get("k") == "Binding" and "Error" in norm(x.get("t") or "") and "Vec<" in norm(x.get("t") or "")}
        for lid, nm in sorted(lists.items()):
            fills = [i for i, (x, _) in enumerate(acc) if x.get("k") == "MethodCall" and x["method"] in ("push", "extend", "append", "extend_from_slice", "insert")
                     and x["recv"].get("k") == "Path" and x["recv"].get("local") == lid]
            if not fills:
                continue
            last = fills[-1]
            inside = {id(y) for y in subnodes(acc[last][0])}
            later = [j for j, (x, _) in enumerate(acc) if j > last and id(x) not in inside and x.get("k") == "Path" and x.get("local") == lid]
            # a fill inside a loop is also followed by whatever reads the list earlier in the same loop body
            loops = [c[1] for c in enclosing_contexts(f, last) if c[0] == "loop"]
            in_loop = [y for lp in loops for y in subnodes(lp) if y.get("k") == "Path" and y.get("local") == lid and id(y) not in inside
                       and not any(y is acc[k][0]["recv"] for k in fills)]
            key = "recorded-then-read:%s:%s" % (f.name, nm)
            if later or in_loop:
                R.holds("R18-e", key, "`%s` is read after the last diagnostics were added to it" % nm, loc=f.loc())
            else:
                R.violated("R18-e", key, "%s adds diagnostics to `%s` and never reads it afterwards: they are neither returned nor reported, so the run succeeds "
                           "although a check (e.g. a plugin's schema check) failed" % (f.path, nm), loc=f.loc())
    # CliOutput::extend appends every diagnostic it is given
    ext = [f for f in P.trait_impls("core::iter::traits::collect::Extend", "extend") if (f.self_adt or "").endswith("CliOutput")]
    for f0 in ext:
        f = inlined(P, f0)
        pve = Prov(f)
        lossy = [c["method"] for c in f.walk() if c.get("k") == "MethodCall" and c["method"] in LOSSY_OR_REORDERING
                 and not (c["method"] in ("insert", "push") and c["recv"].get("k") == "Field" and is_out(c["recv"].get("adt")))]
        inner = [c for c in f.walk() if c.get("k") == "MethodCall" and c["method"] in ("extend", "push", "append") and c["recv"].get("k") == "Field"
                 and is_out(c["recv"].get("adt")) and c["args"]]
        params = {a for c in inner for a in pve.atoms(c["args"][0]) if a[0] == "param" and a[1] != "self"}
        sets = any("BTreeSet" in norm(x.get("t", "")) or "HashSet" in norm(x.get("t", "")) for x in f.walk() if x.get("k") in ("Call", "MethodCall", "Path"))
        if lossy or sets:
            R.violated("R18-e", "output-keeps-all", "CliOutput::extend filters or de-duplicates diagnostics (%s): some offending file may be named by no diagnostic"
                       % (lossy or "set-based de-duplication"), loc=f0.loc())
        elif inner and params:
            R.holds("R18-e", "output-keeps-all", "every recorded diagnostic is kept", loc=f0.loc())
        elif not inner or not params:
            R.violated("R18-e", "output-keeps-all", "CliOutput::extend stores nothing derived from the diagnostics it is given", loc=f0.loc())
    # the schema arm reports every type-system diagnostic
    rs0 = P.fn(CLI + "check::resolve_schema")
    rs = inlined(P, rs0)
    pvs = Prov(rs)
    errs = [c for c in rs.walk() if c.get("k") == "Call" and (call_name(c) or "").endswith("Result::Err")]
    if any(has_call(pvs.atoms(c), "check_type_system_document") for c in errs):
        R.holds("R18-e", "schema-all-diagnostics", "all diagnostics of check_type_system_document are returned", loc=rs0.loc())
    elif not any((call_name(c) or "").endswith("check_type_system_document") for c in rs.walk() if c.get("k") == "Call"):
        R.undecided("R18-e", "schema-all-diagnostics", "resolve_schema does not call check_type_system_document itself", loc=rs0.loc())
    else:
        R.undecided("R18-e", "schema-all-diagnostics", "the diagnostics of check_type_system_document do not reach an `Err(..)` of resolve_schema in a shape this rule reads", loc=rs0.loc())


# --------------------------------------------------------------------------------------------------------------- R18-f
POS = "nitrogql_ast::base::Pos"


def r18f(P, R):
    """renderers agree: all read check_errors, test `builtin` before resolving the file"""
    try:
        rs, jsonish = renderers(P)
    except AnchorMissing as e:
        R.undecided("R18-f", "renderers", "kind=anchor-missing: %s" % e)
        rs, jsonish = {}, {}
    dfields = diag_fields(P)
    for name, f0 in sorted(rs.items()):
        scope = [inlined(P, f0)] + [inlined(P, m) for m in hand_over(P, f0)]
        reads = any(is_out(a) and fld in dfields for f in scope for a, fld in field_reads(f))
        R.check("R18-f", "reads-errors:" + name, reads, "renders the recorded diagnostics", "%s does not read %s" % (f0.path, "/".join(sorted(dfields))), loc=f0.loc())
    for name, f0 in sorted(jsonish.items()):
        scope = [inlined(P, f0)] + [inlined(P, m) for m in hand_over(P, f0)]
        n_gets = 0
        for f in scope:
            pv = Prov(f)
            acc = f.nodes()
            gets = [i for i, (c, _) in enumerate(acc) if c.get("k") == "MethodCall" and (call_name(c) or "").endswith("FileStore::get_file")]
            n_gets += len(gets)
            reads_builtin = any(x.get("k") == "Field" and x.get("field") == "builtin" and (norm(x.get("adt")) or "").endswith("::Pos") for x in f.walk()) or \
                (POS, "builtin") in field_reads(f)
            for i in gets:
                c = acc[i][0]
                # guarded by !position.builtin: `.then(|| ..)` on the test, an enclosing `if`/`match` on it, or an early exit before
                ok = False
                p = acc[i][1]
                while p >= 0 and not ok:
                    n = acc[p][0]
                    if n.get("k") == "MethodCall" and n.get("recv") is not None and not _contains(n["recv"], c) and has_field(pv.atoms(n["recv"]), POS, "builtin"):
                        ok = True   # `(!builtin).then(|| ..)`, `position.filter(|p| !p.builtin).and_then(|p| ..)`: runs only past the test
                    elif n.get("k") == "If" and has_field(pv.atoms(n["cond"]), POS, "builtin"):
                        ok = True
                    elif n.get("k") == "Match" and n.get("src") == "Normal" and has_field(pv.atoms(n["scrut"]), POS, "builtin"):
                        ok = True
                    p = acc[p][1]
                if not ok:
                    for j in range(i):
                        x = acc[j][0]
                        if x.get("k") == "If" and has_field(pv.atoms(x["cond"]), POS, "builtin") and \
                                any(y.get("k") in ("Ret", "InlRet", "Continue", "Break") for y in subnodes(x["then"])) and not _contains(x, c):
                            ok = True
                key = "builtin-guard:" + name
                if ok:
                    R.holds("R18-f", key, "the file is resolved only for non-builtin positions", loc=f0.loc())
                elif not reads_builtin:
                    R.violated("R18-f", key, "%s resolves the file of a position without ever testing `builtin`" % f.path, loc=f0.loc())
                else:
                    R.undecided("R18-f", key, "%s reads `builtin`, but not as a guard of the file lookup in a shape this rule reads" % f.path, loc=f0.loc())
                a = pv.atoms(c["args"][0])
                R.check("R18-f", "file-index:" + name, has_field(a, POS, "file"),
                        "file looked up by the diagnostic's own file index", "%s looks the file up by something other than position.file" % f.path, loc=f0.loc())
        R.floor("R18-f", "file lookups in " + name, n_gets, 1)
        # line/column come from the same position; rdjson is 1-based
        f = scope[0]
        pv = Prov(f)
        one_based = "rdjson" in name.lower() or any(v and "diagnostics" == v for v in str_lits_in(f0.body))
        for key, fld in (("line", "line"), ("column", "column")):
            calls = [c for c in f.walk() if c.get("k") == "MethodCall" and c["method"] == "value" and len(c["args"]) >= 2 and lit_value(c["args"][0]) == key]
            R.floor("R18-f", "%s writes in %s" % (key, name), len(calls), 1)
            for c in calls:
                a = set(pv.atoms(c["args"][1]))
                other = "line" if fld == "column" else "column"
                exprs = list(_src_exprs(pv, c["args"][1]))
                indirect = False
                # `location.line as u32 + 1`: the value is one field of a struct of the CLI -> judge that field, not the whole struct
                base = c["args"][1]
                while base.get("k") in ("Cast", "DropTemps", "Use", "AddrOf", "Binary", "MethodCall"):
                    base = base.get("e") or base.get("l") or base.get("recv") or {}
                if base.get("k") == "Field" and (norm(base.get("adt")) or "").startswith(CLI):
                    more, more_exprs = field_origins(P, {("field", norm(base["adt"]), base["field"])})
                    if more:
                        a, indirect = set(more), True
                        exprs = [c["args"][1]] + more_exprs
                if not has_field(a, POS, fld) and not has_field(a, POS, other):
                    # the value was copied into a struct of the CLI first (a located diagnostic): follow the field to where it is filled
                    a = {x for x in a if not (x[0] == "field" and (x[1] or "").startswith(CLI) and x[2] != key and x[2] != fld)}
                    more, more_exprs = field_origins(P, a)
                    indirect = bool(more)
                    a |= more
                    exprs += more_exprs
                own, cross = has_field(a, POS, fld), has_field(a, POS, other)
                plus1 = False
                for e in exprs:
                    for x in subnodes(e):
                        if x.get("k") == "Binary" and x.get("op") == "+" and "1" in (lit_value(x["r"]), lit_value(x["l"])):
                            plus1 = True
                        if x.get("k") == "MethodCall" and x.get("method") in ("saturating_add", "wrapping_add", "checked_add") and x["args"] and lit_value(x["args"][0]) == "1":
                            plus1 = True
                k2 = "%s:%s" % (key, name)
                if own and not cross and plus1 == one_based:
                    R.holds("R18-f", k2, "`%s` is the diagnostic's %s (%s-based)" % (key, fld, 1 if one_based else 0), loc=f0.loc())
                elif not own and not cross:
                    R.undecided("R18-f", k2, "`%s` is not traced back to a component of the diagnostic's position" % key, loc=f0.loc())
                elif (not own and cross) or (own and not cross and plus1 != one_based and not indirect):
                    R.violated("R18-f", k2, "%s writes `%s` from the wrong component or base (reads Pos.%s: %s, adds 1: %s, expected %d-based)"
                               % (f0.path, key, fld, own, plus1, 1 if one_based else 0), loc=f0.loc())
                else:
                    R.undecided("R18-f", k2, "`%s`: component or base not decided (Pos.%s: %s, Pos.%s: %s, adds 1: %s)" % (key, fld, own, other, cross, plus1), loc=f0.loc())
    # the human renderer (print_positioned_error and what it delegates to) also tests builtin before indexing the file store
    ppe = P.fn("nitrogql_error::print_positioned_error")
    scope = scope_fns(P, ppe)
    tests = any((POS, "builtin") in field_reads(g) for g in scope)
    R.check("R18-f", "human-builtin-guard", tests,
            "human renderer handles builtin positions", "neither print_positioned_error nor any function it calls in its crate tests `builtin`", loc=ppe.loc())


# --------------------------------------------------------------------------------------------------------------- R18-g
def _operation_checker_scope(P):
    try:
        import c03
        paths = c03.checker_scope(P)
    except Exception:
        entry = P.fn("nitrogql_checker::operation_checker::check_operation_document")
        paths = [p for p in P.reachable([entry]) if p.startswith("nitrogql_checker::") and not P.fns[p].derived]
    return [P.fns[p] for p in paths if p.startswith(("nitrogql_checker::operation_checker", "nitrogql_checker::common"))]


def r18g(P, R):
    """(1) the stage that produces check diagnostics records itself, so the JSON renderer (which prints `check.errors` only if "check"
    was recorded) cannot drop them when check runs implicitly; (2) operation diagnostics are located in the operation document"""
    for fn_name, lit in (("check::run_check", "check"), ("generate::run_generate", "generate")):
        f0 = P.fn(CLI + fn_name)
        other = P.fn(CLI + ("generate::run_generate" if lit == "check" else "check::run_check"))
        f = inlined(P, f0, pred=lambda g: g.path != other.path)
        recs = [c for c in f.walk() if c.get("k") == "MethodCall" and (call_name(c) or "").endswith("CliOutput::command_run") and lit in str_lits_in(c["args"][0])]
        anyrec = [c for c in f.walk() if c.get("k") == "MethodCall" and (call_name(c) or "").endswith("CliOutput::command_run")]
        key = "stage-records-itself:" + lit
        if recs:
            R.holds("R18-g", key, "%s records \"%s\" itself" % (fn_name, lit), loc=f0.loc())
        elif anyrec and not all(str_lits_in(c["args"][0]) for c in anyrec):
            R.undecided("R18-g", key, "%s records a stage name that is not a literal" % fn_name, loc=f0.loc())
        else:
            R.violated("R18-g", key, "%s no longer records that the `%s` stage ran: `generate` runs the check stage implicitly, and json_output prints `check.errors` "
                       "only when \"check\" was recorded, so a failing run exits 1 with no located diagnostic" % (f0.path, lit), loc=f0.loc())
    try:
        rs, jsonish = renderers(P)
    except AnchorMissing:
        rs, jsonish = {}, {}
    jo = rs.get("json_output") or next((g for n, g in sorted(jsonish.items()) if "rdjson" not in n.lower()), None)
    if jo is None:
        R.undecided("R18-g", "json-gates", "the JSON renderer cannot be identified")
    else:
        joi = inlined(P, jo)
        gate_lits = {v for c in joi.walk() if c.get("k") == "Binary" and c.get("op") == "==" for v in str_lits_in(c)} | \
                    {c.get("v") for c in joi.walk() if c.get("k") == "PatExpr" and c.get("lk") == "str"} | \
                    {v for c in joi.walk() if c.get("k") == "MethodCall" and (c.get("method") in ("contains", "eq") or ((call_name(c) or "") in P.fns and (call_name(c) or "").startswith(CLI)))
                     for a in c["args"] for v in str_lits_in(a)}
        if {"check", "generate"} <= gate_lits:
            R.holds("R18-g", "json-gates", "json_output gates its sections on the recorded stage names", loc=jo.loc())
        else:
            R.undecided("R18-g", "json-gates", "json_output compares the recorded stages with %s" % sorted(gate_lits), loc=jo.loc())
    # primary positions of operation diagnostics
    scope = _operation_checker_scope(P)
    n = 0
    for f in scope:
        pv = None
        for c in f.walk():
            if c.get("k") == "MethodCall" and c.get("method") == "with_pos":
                pv = pv or Prov(f)
                n += 1
                variants = {norm(y.get("variant") or y.get("ctor_of") or "").split("::")[-1] for y in subnodes(c["recv"]) if "CheckErrorMessage::" in norm(y.get("variant") or y.get("ctor_of") or "")}
                a = pv.data_atoms(c["args"][0])
                schema_pos = any(x[0] == "call" and x[1].endswith("original_node_ref") for x in a)
                if variants <= {"TypeSystemError"} and variants:
                    continue
                R.check("R18-g", "primary-position:%s:%s" % (short(f.path), "/".join(sorted(variants)) or "?"), not schema_pos,
                        "located in the operation document",
                        "%s reports %s at a position taken from the schema (original_node_ref): the diagnostic is emitted with fileType "
                        "\"operation\" but its path/line/column point into a schema file, and the offending operation file is not named"
                        % (f.path, "/".join(sorted(variants))), loc=f.loc())
    R.floor("R18-g", "with_pos sites in the operation checker", n, 30)


SELECTING = {"count", "filter", "filter_map", "position", "rposition", "take_while", "skip_while", "take", "skip", "partition", "retain", "dedup"}


def r18h(P, R):
    """the file index written into every position and the lookup that resolves it agree: FileStore issues an index for a file
    (add) and finds the file of an index (get) with the same notion of "how many files come before" — both plain lengths of the
    same vectors, or both the same selective count"""
    fs = [a for p_, a in P.adts.items() if p_.startswith(CLI) and p_.split("::")[-1] == "FileStore"]
    if len(fs) != 1:
        raise AnchorMissing("type FileStore of the CLI not found")
    FS = fs[0].path
    meths = [g for g in P.fns.values() if _live(g) and g.self_adt == FS and g.kind == "AssocFn" and g.sig_inputs]
    writers = [g for g in meths if g.sig_inputs[0].startswith("&mut") and "usize" in (g.sig_output or "")
               and any(c.get("k") == "MethodCall" and c["method"] in ("push", "insert", "extend") for c in g.walk())]
    readers = [g for g in meths if not g.sig_inputs[0].startswith("&mut") and "usize" in g.sig_inputs[1:] and (g.sig_output or "").startswith("core::option::Option<")]
    R.floor("R18-h", "index-issuing methods of FileStore", len(writers), 1)
    R.floor("R18-h", "index-resolving methods of FileStore", len(readers), 1)
    if not writers or not readers:
        return

    def notion(g):
        pv = Prov(g)
        exprs = [n["e"] for n in g.walk() if n.get("k") == "Ret" and "e" in n]
        if g.body.get("k") == "BlockExpr" and g.body["b"].get("tail") is not None:
            exprs.append(g.body["b"]["tail"])
        exprs += [n["cond"] for n in g.walk() if n.get("k") == "If"]
        a = set()
        for e in exprs:
            a |= pv.deep_atoms(e)
        sel = {x[1].split("::")[-1] for x in a if x[0] == "call" and x[1] not in P.fns and x[1].split("::")[-1] in SELECTING}
        via = sorted(short(x[1]) for x in a if x[0] == "call" and x[1] in P.fns and P.fns[x[1]].self_adt == FS and x[1] != g.path)
        return sel, via
    for w in writers:
        ws, wvia = notion(w)
        for r in readers:
            rs_, rvia = notion(r)
            key = "index-agreement:%s/%s" % (w.name, r.name)
            if ws == rs_:
                R.holds("R18-h", key, "indices are issued and resolved with the same size notion (%s)" % (sorted(ws) or "plain lengths"), loc=w.loc())
            else:
                R.violated("R18-h", key, "%s computes the index it issues with %s%s, while %s resolves an index with %s%s: whenever the selective count differs "
                           "from the plain length, the index written into positions points at another file than the one it was issued for (diagnostics name the "
                           "wrong file)" % (w.path, sorted(ws) or "plain lengths", (" (through %s)" % ", ".join(wvia)) if wvia else "", r.path,
                                            sorted(rs_) or "plain lengths", (" (through %s)" % ", ".join(rvia)) if rvia else ""), loc=w.loc())


def r18i(P, R):
    """FileStore's precondition (documented, enforced by a panic): no schema-side file is added once an operation file was.  In every
    function that does both - directly or through what it calls (plugin host included) - the calls that can register a schema
    file precede, in program order, the first call that can register an operation file."""
    fs = [a for p_, a in P.adts.items() if p_.startswith(CLI) and p_.split("::")[-1] == "FileStore"]
    if len(fs) != 1:
        raise AnchorMissing("type FileStore of the CLI not found")
    FS = fs[0].path

    def adds(f):
        """[(node index, kind literal or None)] of FileStore::add-style calls in f"""
        out = []
        for i, (x, _) in enumerate(f.nodes()):
            if x.get("k") == "MethodCall" and (call_name(x) or "") in P.fns and P.fns[call_name(x)].self_adt == FS and P.fns[call_name(x)].sig_inputs \
                    and P.fns[call_name(x)].sig_inputs[0].startswith("&mut") and any("FileKind" in t for t in P.fns[call_name(x)].sig_inputs):
                kinds = {norm(y.get("def")).split("::")[-1] for a_ in x["args"] for y in subnodes(a_) if y.get("k") == "Path" and "FileKind::" in norm(y.get("def") or "")}
                out.append((i, next(iter(kinds)) if len(kinds) == 1 else None))
        return out
    live = [f for f in P.fns.values() if _live(f) and f.crate == "nitrogql_cli" and f.kind in ("Fn", "AssocFn")]
    direct = {f.path: adds(f) for f in live}
    op_fns = {p_ for p_, a in direct.items() if any(k == "Operation" for _, k in a)}
    sc_fns = {p_ for p_, a in direct.items() if any(k not in (None, "Operation") for _, k in a)}
    if not op_fns or not sc_fns:
        R.undecided("R18-h", "schema-before-operations", "the registrations of schema and operation files in the FileStore are not calls with a literal FileKind")
        return
    reach_op = {f.path for f in live if P.reachable([f]) & op_fns}
    reach_sc = {f.path for f in live if P.reachable([f]) & sc_fns}
    n = 0
    for f in sorted(live, key=lambda g: g.path):
        ops, scs = [], []
        for i, k in direct[f.path]:
            (ops if k == "Operation" else scs if k is not None else []).append((i, "add_file(%s)" % k))
        for i, (x, _) in enumerate(f.nodes()):
            c = call_name(x) if x.get("k") in ("Call", "MethodCall") else None
            if not c or c not in P.fns or c == f.path or P.fns[c].self_adt == FS:
                continue
            targets = {c} | ({g.path for g in P.impls.get((P.fns[c].raw.get("trait_default_of") or "", P.fns[c].name), [])})
            o, s_ = bool(targets & reach_op), bool(targets & reach_sc)
            if o and not s_:
                ops.append((i, short(c)))
            elif s_ and not o:
                scs.append((i, short(c)))
        if not ops or not scs:
            continue
        n += 1
        first_op = min(i for i, _ in ops)
        late = sorted(w for i, w in scs if i > first_op)
        key = "schema-before-operations:" + short(f.path)
        if late:
            R.violated("R18-h", key, "%s can register a schema-side file (%s) after it has started registering operation files (%s): FileStore::add_file panics "
                       "then (`Cannot add schema file after operation file`), and the CLI ends with neither diagnostics nor output" % (
                           f.path, ", ".join(sorted(set(late))), sorted(w for i, w in ops if i == first_op)[0]), loc=f.loc())
        else:
            R.holds("R18-h", key, "every call that can add a schema file precedes the first one that can add an operation file", loc=f.loc())
    if not n:
        R.undecided("R18-h", "schema-before-operations", "no function registers both schema and operation files")


def r18j(P, R):
    """the file index carried by every position of a parsed document is the index of *that* document's file: where the CLI parses a
    document, the current file of Pos is set in the same per-file region (the loop body or closure that handles that file, or the
    function when there is none) before the parse - directly or inside a call made there (a FileStore method that sets it).  A
    parse in a region that sets nothing inherits whatever file was registered last."""
    setter = "nitrogql_ast::current_file::set_current_file_of_pos"
    n = 0
    for f0 in sorted(P.fns.values(), key=lambda g: g.path):
        if not _live(f0) or f0.crate != "nitrogql_cli" or f0.kind not in ("Fn", "AssocFn"):
            continue
        if not any(x.get("k") == "Call" and (call_name(x) or "").startswith("nitrogql_parser::") and "parse_" in (call_name(x) or "") for x in f0.walk()):
            continue
        f = inlined(P, f0, depth=2, pred=lambda g: g.crate == "nitrogql_cli")
        acc = f.nodes()
        sets = [i for i, (x, _) in enumerate(acc) if x.get("k") == "Call" and call_name(x) == setter]
        for i, (x, _) in enumerate(acc):
            if not (x.get("k") == "Call" and (call_name(x) or "").startswith("nitrogql_parser::") and "parse_" in (call_name(x) or "")):
                continue
            n += 1
            region = next((c[1] for c in enclosing_contexts(f, i) if c[0] in ("loop", "closure")), None)
            inside = {id(y) for y in subnodes(region)} if region is not None else None
            governed = [j for j in sets if j < i and (inside is None or id(acc[j][0]) in inside)]
            key = "file-index-at-parse:%s#%d" % (short(f0.path), n)
            if governed:
                R.holds("R18-h", key, "the current file of Pos is set in the region that parses the document", loc=f0.loc())
            elif not sets and not any(call_name(y) == setter for g in P.fns.values() if g.crate == "nitrogql_cli" for y in g.walk() if y.get("k") == "Call"):
                R.undecided("R18-h", key, "the CLI does not call set_current_file_of_pos: the file index of positions is set in a way this rule does not read", loc=f0.loc())
            else:
                R.violated("R18-h", key, "%s parses a document in a per-file region that does not set the current file of Pos before the parse: every position of "
                           "that document carries the index of whichever file was registered last, so diagnostics name the wrong file" % f0.path, loc=f0.loc())
    if not n:
        R.undecided("R18-h", "file-index-at-parse", "no parse call found in the CLI")
    # ... and the same for a failed parse: the error a parse entry point returns already carries its position (with the file index
    # captured while that file was current).  An error that only keeps line/column has its file filled in whenever it is converted,
    # which may be after other files were registered.
    for name in ("parse_operation_document", "parse_type_system_document"):
        pf = P.fn("nitrogql_parser::parser::" + name, required=False) or P.fn("nitrogql_parser::" + name, required=False)
        if pf is None:
            R.undecided("R18-h", "parse-error-carries-file:" + name, "parser entry point not found")
            continue
        out = pf.sig_output or ""
        errs = [a for ap, a in P.adts.items() if ap.startswith("nitrogql_parser::") and ap in out.split(",", 1)[-1]]
        if not out.startswith("core::result::Result<") or len(errs) != 1 or errs[0].kind != "Struct":
            R.undecided("R18-h", "parse-error-carries-file:" + name, "the error type of %s is not a struct of the parser crate" % pf.path, loc=pf.loc())
            continue
        ft = errs[0].field_types()
        carries = any(t.endswith("::Pos") or "::Pos>" in t or "::Pos," in t for t in ft.values()) or any(n_ in ("file", "file_index", "file_idx") for n_ in ft)
        R.check("R18-h", "parse-error-carries-file:" + name, carries, "the parse error carries its Pos (file index captured at parse time)",
                "%s returns `%s`, which keeps no position with a file index (fields: %s): the file of a syntax error is only filled in when the error is converted, "
                "from the thread-local current file of that later moment - a diagnostic can name another file than the one that failed to parse"
                % (pf.path, errs[0].path.split("::")[-1], ", ".join("%s: %s" % (k, v.split("::")[-1]) for k, v in sorted(ft.items()))), loc=pf.loc())


def r18pc(P, R):
    from facts import Program
    SC = Program(harness.selfcheck_facts())
    pr = [f.name for f in SC.fns.values() for n in f.walk() if n.get("k") == "Call" and (call_name(n) or "") == "std::io::stdio::_print"]
    R.check("R18-pc", "control:stdout", pr == ["prints"], "stdout-writer control detected", "self-check: println! in the control crate is seen as %s" % pr)
    wr = [f.name for f, c, n in SC.ext_callers(lambda p: p.startswith(WRITE_APIS))]
    R.check("R18-pc", "control:fs-write", set(wr) == {"writes", "opens_without_truncate"}, "file-system-write control detected", "self-check: fs::write in the control crate is seen as %s" % wr)


RULES = [("R18-pc", r18pc), ("R18-a", r18a), ("R18-b", r18b), ("R18-c", r18c), ("R18-c", gate), ("R18-d", r18d), ("R18-e", r18e), ("R18-f", r18f), ("R18-g", r18g), ("R18-h", r18h), ("R18-h", r18i), ("R18-h", r18j)]
EXPLANATION = (
    "Call-graph and control-context facts that hold on all executions: (R18-a) one process::exit site whose code is 0 exactly in "
    "the Ok arm, every diagnostic-recording site lies on a path that returns Err, check succeeds only under errors.is_empty(); "
    "(R18-b) within everything reachable from run_cli, stdout is written only by json_output/rdjson_output, once each, with the "
    "JSON writer's buffer, and all three formats are dispatched; (R18-c) file-system writes occur only in the two write helpers, "
    "whose only caller is run_generate's SchemaResolved arm, SchemaResolved is constructed only from a successful check, and no "
    "write is reachable from run_check; (R18-d) each write is paired with a generated_file report of the same path; (R18-e) "
    "per-file check diagnostics are aggregated without truncation; (R18-f) the renderers read the same diagnostics, test "
    "`builtin` before resolving the file, look the file up by the diagnostic's own index and write line/column from the right "
    "component and base. Not decided: JSON well-formedness (json_writer), token starts, logger output under RUST_LOG.")
ASSUMPTIONS = ["json_writer produces well-formed JSON (third-party)",
               "simple_logger writes to stdout only when RUST_LOG enables a level above `error` and a log call exists at that level (environment, outside the claim)",
               "clap argument parsing errors exit before run_cli_impl (third-party behaviour)"]


def main(tier):
    return harness.run_property("C18", RULES, "other", EXPLANATION, ASSUMPTIONS, tier)
