"""C18 — CLI status, diagnostics and written files are consistent and well-located."""
import harness
from facts import norm, call_name, short, subnodes, lit_value, matches_on, arm_variants, peel_ty, str_lits_in
from prov import Prov, has_field, has_call
from templates import enclosing_contexts

CLI = "nitrogql_cli::"
WRITE_APIS = ("std::fs::write", "std::fs::File::create", "std::fs::create_dir_all", "std::fs::create_dir",
              "std::fs::OpenOptions", "std::fs::remove_file", "std::fs::remove_dir", "std::fs::remove_dir_all",
              "std::fs::rename", "std::fs::copy", "std::fs::File::options", "std::fs::File::create_new",
              "std::fs::set_permissions", "std::fs::hard_link", "std::os::unix::fs::symlink")


def is_tail_err(block_or_expr):
    """does the expression evaluate to `Err(..)` (tail of a block, possibly `.into()`-wrapped)"""
    e = block_or_expr
    while e is not None:
        k = e.get("k")
        if k == "BlockExpr":
            e = e["b"].get("tail")
        elif k == "Block":
            e = e.get("tail")
        elif k == "Call":
            return (call_name(e) or "").endswith("Result::Err")
        elif k in ("DropTemps", "Use"):
            e = e.get("e")
        else:
            return False
    return False


def r18a(P, R):
    run_cli = P.fn(CLI + "run_cli")
    exits = P.ext_callers(lambda p: p == "std::process::exit")
    exits = [(f, n) for f, c, n in exits if "::tests" not in f.path]
    R.check("R18-a", "single-exit", len(exits) == 1 and exits[0][0].path.startswith(run_cli.path),
            "process::exit is called at one site, in run_cli", "process::exit call sites: %s" % [f.path for f, _ in exits])
    # `code` is 0 exactly in the Ok arm
    body_fn = exits[0][0] if exits else run_cli
    pv = Prov(body_fn)
    if exits:
        a = pv.atoms(exits[0][1]["args"][0]) if exits[0][1].get("k") == "Call" else set()
    ms = [m for m in body_fn.walk() if m.get("k") == "Match" and m.get("src") == "Normal"
          and peel_ty(m["scrut"].get("t", "")).startswith("core::result::Result<(), ")]
    R.floor("R18-a", "result matches in run_cli", len(ms), 1)
    for m in ms:
        for arm in m["arms"]:
            v, _ = arm_variants({"arms": [arm]})
            tail = arm["body"]
            while tail.get("k") == "BlockExpr":
                tail = tail["b"].get("tail") or {}
            val = lit_value(tail) if tail else None
            if "Ok" in v:
                R.check("R18-a", "exit:ok-arm", val == "0", "Ok(()) => exit code 0", "the Ok arm yields exit code %r" % val, loc=body_fn.loc())
            if "Err" in v:
                R.check("R18-a", "exit:err-arm", val is not None and val != "0", "Err => non-zero exit code",
                        "the Err arm yields exit code %r" % val, loc=body_fn.loc())
                ce = [n for n in subnodes(arm["body"]) if n.get("k") == "MethodCall" and (call_name(n) or "").endswith("CliOutput::command_error")]
                R.check("R18-a", "exit:err-reported", len(ce) == 1, "every failing run records a command error message",
                        "the Err arm does not record the error through CliOutput::command_error", loc=body_fn.loc())
    # diagnostics are only recorded on a path that returns Err
    ext = [f for f in P.trait_impls("core::iter::traits::collect::Extend", "extend") if (f.self_adt or "").endswith("CliOutput")]
    R.floor("R18-a", "CliOutput::extend impl", len(ext), 1)
    n = 0
    for f in P.fns.values():
        if not f.path.startswith(CLI) or "::tests" in f.path:
            continue
        for i, (c, _) in enumerate(f.nodes()):
            if c.get("k") == "MethodCall" and ext and call_name(c) == ext[0].path:
                n += 1
                ctx = enclosing_contexts(f, i)
                arm = next((x for x in ctx if x[0] == "arm"), None)
                ok = arm is not None and is_tail_err(arm[2]["body"])
                R.check("R18-a", "diag->err:%s" % short(f.path), ok, "diagnostics recorded => the command returns Err",
                        "%s records check diagnostics on a path that does not return Err (exit status could be 0 with diagnostics)" % f.path,
                        loc=f.loc())
    R.floor("R18-a", "diagnostic recording sites", n, 1)
    # check_impl: Ok only when there are no errors
    ci = P.fn(CLI + "check::check_impl")
    oks = [(i, c) for i, (c, _) in enumerate(ci.nodes()) if c.get("k") == "Struct" and "rest" not in c
           and norm(c.get("variant", "")).endswith("CheckImplOutput::Ok")]
    R.floor("R18-a", "CheckImplOutput::Ok constructions", len(oks), 1)
    pvc = Prov(ci)
    for i, c in oks:
        ctx = enclosing_contexts(ci, i)
        guard = [x for x in ctx if x[0] in ("if-else", "if-then")]
        ok = False
        for kind, ifn in guard:
            cond = ifn["cond"]
            names = [x.get("method") for x in subnodes(cond) if x.get("k") == "MethodCall"]
            neg = any(x.get("k") == "Unary" and x.get("op") == "Not" for x in subnodes(cond))
            if "is_empty" in names and ((kind == "if-else" and neg) or (kind == "if-then" and not neg)):
                ca = pvc.atoms(cond)
                if has_call(ca, "check_operation_document"):
                    ok = True
        R.check("R18-a", "check-ok-iff-no-errors", ok, "check succeeds only when the operation diagnostics are empty",
                "CheckImplOutput::Ok is constructed on a path not guarded by `errors.is_empty()` over check_operation_document's result",
                loc=ci.loc())


def r18b(P, R):
    run_cli = P.fn(CLI + "run_cli")
    reach = P.reachable([run_cli])
    printers = {}
    for p in reach:
        f = P.fns[p]
        for n in f.walk():
            if n.get("k") == "Call" and (call_name(n) or "") == "std::io::stdio::_print":
                printers.setdefault(p, []).append(n)
    R.count("functions_reachable_from_run_cli", len(reach))
    expect = {P.fn(CLI + "output::CliOutput::json_output").path: 1, P.fn(CLI + "output::CliOutput::rdjson_output").path: 1}
    for p, ns in sorted(printers.items()):
        if p in expect:
            R.check("R18-b", "stdout:" + short(p), len(ns) == expect[p], "prints the JSON buffer exactly once",
                    "%s writes to stdout %d times" % (p, len(ns)), loc=P.fns[p].loc())
            pv = Prov(P.fns[p])
            a = pv.atoms(ns[0])
            R.check("R18-b", "stdout-buffer:" + short(p), ("call", "alloc::string::String::new") in a or any(x[0] == "call" and "JSONObjectWriter" in x[1] for x in a),
                    "what is printed is the JSON writer's buffer", "%s prints something other than the JSON buffer" % p, loc=P.fns[p].loc())
        else:
            R.violated("R18-b", "stdout:" + P.fns[p].path, "%s (reachable from run_cli) writes to stdout: in json/rdjson mode stdout is "
                       "no longer one JSON document" % p, loc=P.fns[p].loc())
    for p in expect:
        if p not in printers:
            R.violated("R18-b", "stdout:" + short(p), "%s no longer prints its buffer" % p)
    # direct stdout handles
    others = [f.path for f, c, n in P.ext_callers(lambda q: q in ("std::io::stdio::stdout", "std::io::stdio::Stdout::lock")) if f.path in reach]
    R.check("R18-b", "stdout:handles", not others, "no other stdout handle is taken on the CLI path", "stdout handle taken in %s" % others)
    # the three renderers are selected by an exhaustive match over OutputFormat
    ms = matches_on(run_cli, "OutputFormat") + [m for f in P.fns.values() if f.path.startswith(run_cli.path) for m in matches_on(f, "OutputFormat")]
    ok = False
    for m in ms:
        v, catch = arm_variants(m)
        if v == {"Human", "Json", "Rdjson"} and not catch:
            ok = True
    R.check("R18-b", "renderer-dispatch", ok, "each output format has its renderer", "run_cli does not dispatch all three output formats explicitly")


def r18c(P, R):
    run_cli = P.fn(CLI + "run_cli")
    reach = P.reachable([run_cli])
    w1 = P.fn(CLI + "generate::write_file_and_sourcemap")
    w2 = P.fn(CLI + "generate::write_file_without_sourcemap")
    rg = P.fn(CLI + "generate::run_generate")
    rc = P.fn(CLI + "check::run_check")
    writers = {}
    for f, c, n in P.ext_callers(lambda p: p.startswith(WRITE_APIS)):
        if "::tests" in f.path:
            continue
        writers.setdefault(f.path, []).append(c)
    R.count("fs_write_call_sites", sum(len(v) for v in writers.values()))
    for p, cs in sorted(writers.items()):
        R.check("R18-c", "who-may-write:" + short(p), p in (w1.path, w2.path),
                "file-system writes only in the two write helpers", "%s writes to the file system (%s)" % (p, cs), loc=P.fns[p].loc())
    R.floor("R18-c", "write helper call sites", sum(len(v) for v in writers.values()), 5)
    for w in (w1, w2):
        callers = [c for c in P.callers_of(w.path) if "::tests" not in c]
        R.check("R18-c", "write-callers:" + w.name, callers == [rg.path], "only run_generate writes files",
                "%s is called from %s" % (w.path, callers), loc=w.loc())
    # `check` writes no file
    rc_reach = P.reachable([rc])
    R.check("R18-c", "check-writes-nothing", not (set(writers) & rc_reach) and w1.path not in rc_reach and w2.path not in rc_reach,
            "no file-system write is reachable from run_check", "run_check reaches a file-system write: %s" % sorted(set(writers) & rc_reach))
    # every write helper call in run_generate lies in the SchemaResolved arm
    n = 0
    for i, (c, _) in enumerate(rg.nodes()):
        if c.get("k") == "Call" and call_name(c) in (w1.path, w2.path):
            n += 1
            arms = [x for x in enclosing_contexts(rg, i) if x[0] == "arm"]
            ok = any("SchemaResolved" in arm_variants({"arms": [a[2]]})[0] for a in arms)
            R.check("R18-c", "write-gate:%d" % n, ok, "write happens only with a resolved (checked) context",
                    "run_generate writes a file outside the SchemaResolved arm", loc=rg.loc())
    R.floor("R18-c", "write calls in run_generate", n, 4)


def gate(P, R, rule="R18-c"):
    """SchemaResolved is only constructed after a successful check (shared with C03's R03-g)"""
    n = 0
    for f in P.fns.values():
        if not f.path.startswith(CLI) or "::tests" in f.path:
            continue
        for i, (c, _) in enumerate(f.nodes()):
            if c.get("k") == "Struct" and "rest" not in c and norm(c.get("variant", "")).endswith("CliContext::SchemaResolved"):
                n += 1
                arms = [x for x in enclosing_contexts(f, i) if x[0] == "arm"]
                vs = set()
                for a in arms:
                    vs |= arm_variants({"arms": [a[2]]})[0]
                ok = "Ok" in vs and f.name == "run_check" or ("SchemaResolved" in vs)
                # in run_check the Ok arm must be CheckImplOutput::Ok
                if f.name == "run_check":
                    ok = any(norm(p.get("def", "")).endswith("CheckImplOutput::Ok") for a in arms for p in subnodes(a[2]["pat"]))
                R.check(rule, "resolved-ctor:%s" % short(f.path), ok,
                        "SchemaResolved built only from CheckImplOutput::Ok or by re-wrapping a SchemaResolved",
                        "%s constructs CliContext::SchemaResolved on a path that is not the successful-check path: generate could run "
                        "on an unchecked project" % f.path, loc=f.loc())
    R.floor(rule, "SchemaResolved constructions", n, 2)
    rg = P.fn(CLI + "generate::run_generate")
    # run_generate runs check first when the context is unresolved, and propagates its error
    calls = [c for c in rg.walk() if c.get("k") == "Call" and (call_name(c) or "").endswith("check::run_check")]
    R.check(rule, "generate-runs-check", len(calls) >= 1, "run_generate calls run_check on an unresolved context",
            "run_generate no longer runs check before generating", loc=rg.loc())
    # printer calls only in SchemaResolved arm
    n = 0
    for i, (c, _) in enumerate(rg.nodes()):
        nm = call_name(c) or "" if c.get("k") in ("Call", "MethodCall") else ""
        if nm.startswith("nitrogql_printer::") and ("print_document" in nm or "print_types_for_operation_document" in nm or nm.endswith("print_graphql")):
            n += 1
            arms = [x for x in enclosing_contexts(rg, i) if x[0] == "arm"]
            ok = any("SchemaResolved" in arm_variants({"arms": [a[2]]})[0] for a in arms)
            R.check(rule, "printer-gate:%d" % n, ok, "printers run only on a checked context", "a printer is called outside the SchemaResolved arm", loc=rg.loc())
    R.floor(rule, "printer calls in run_generate", n, 5)


def r18d(P, R):
    """each write is paired with a `generated_file` report of the same path"""
    for name, nw in (("write_file_and_sourcemap", 2), ("write_file_without_sourcemap", 1)):
        f = P.fn(CLI + "generate::" + name)
        pv = Prov(f)
        writes = [c for c in f.walk() if c.get("k") == "Call" and (call_name(c) or "") in ("std::fs::write", "std::fs::File::create")]
        reports = [c for c in f.walk() if c.get("k") == "MethodCall" and (call_name(c) or "").endswith("CliOutput::generated_file")]
        R.check("R18-d", "pairing-count:" + name, len(writes) == nw and len(reports) == nw,
                "%d write(s), %d report(s)" % (len(writes), len(reports)),
                "%s performs %d write(s) but reports %d generated file(s)" % (f.path, len(writes), len(reports)), loc=f.loc())

        def path_atoms(e):
            return {a for a in pv.atoms(e) if a[0] in ("param",) or (a[0] == "call" and ("set_file_name" in a[1] or "to_owned" in a[1]))}
        wa = sorted(str(sorted(x for x in pv.atoms(w["args"][0]) if x[0] == "param")) for w in writes)
        ra = sorted(str(sorted(x for x in pv.atoms(r["args"][1]) if x[0] == "param")) for r in reports)
        R.check("R18-d", "pairing-path:" + name, wa == ra, "written and reported paths derive from the same values",
                "%s writes %s but reports %s" % (f.path, wa, ra), loc=f.loc())
        # the map file name is the output path + ".map"
        if name == "write_file_and_sourcemap":
            lits = [x.get("v") for x in f.walk() if x.get("k") == "Lit" and x.get("lk") == "str"]
            R.check("R18-d", "map-suffix", ".map" in lits, "source map is written next to the output as <file>.map", "no `.map` suffix literal", loc=f.loc())


def r18e(P, R):
    """check-stage diagnostics of all files are aggregated (no early exit inside the per-file closures)"""
    ci = P.fn(CLI + "check::check_impl")
    flat = [c for c in ci.walk() if c.get("k") == "MethodCall" and c["method"] == "flat_map"]
    pv = Prov(ci)
    ok = any(has_call(pv.atoms(c), "check_operation_document") for c in flat)
    R.check("R18-e", "operations-all-files", ok, "every operation document is checked and all diagnostics collected (flat_map)",
            "check_impl does not collect check_operation_document over all operations", loc=ci.loc())
    ro = P.fn(CLI + "check::resolve_operations")
    parts = [c for c in ro.walk() if c.get("k") == "MethodCall" and c["method"] == "partition_result"]
    R.check("R18-e", "resolve-all-files", len(parts) == 2, "extension and import resolution errors are partitioned over all files",
            "resolve_operations no longer aggregates per-file errors with partition_result (found %d)" % len(parts), loc=ro.loc())
    from templates import LOSSY_OR_REORDERING
    for f in (ci, ro):
        bad = [c["method"] for c in f.walk() if c.get("k") == "MethodCall" and c["method"] in
               ("take", "find", "find_map", "next", "nth", "first", "last", "take_while", "skip", "step_by", "truncate", "pop")]
        R.check("R18-e", "no-truncation:" + f.name, not bad, "no diagnostic list is truncated", "%s applies %s to a diagnostics/operations list" % (f.path, bad), loc=f.loc())
    # CliOutput::extend appends every diagnostic it is given
    ext = [f for f in P.trait_impls("core::iter::traits::collect::Extend", "extend") if (f.self_adt or "").endswith("CliOutput")]
    for f in ext:
        pve = Prov(f)
        lossy = [c["method"] for c in f.walk() if c.get("k") == "MethodCall" and c["method"] in LOSSY_OR_REORDERING]
        inner = [c for c in f.walk() if c.get("k") == "MethodCall" and c["method"] in ("extend", "push") and c["recv"].get("k") == "Field" and c["recv"]["field"] == "check_errors"]
        ok = not lossy and len(inner) == 1 and ("param", "iter") in pve.atoms(inner[0]["args"][0]) and \
            not any("BTreeSet" in norm(x.get("t", "")) or "HashSet" in norm(x.get("t", "")) for x in f.walk() if x.get("k") in ("Call", "MethodCall", "Path"))
        R.check("R18-e", "output-keeps-all", ok, "every recorded diagnostic is kept",
                "CliOutput::extend filters or de-duplicates diagnostics (%s): some offending file may be named by no diagnostic" % (lossy or "set-based de-duplication"),
                loc=f.loc())
    # the schema arm reports every type-system diagnostic
    rs = P.fn(CLI + "check::resolve_schema")
    pvs = Prov(rs)
    errs = [c for c in rs.walk() if c.get("k") == "Call" and (call_name(c) or "").endswith("Result::Err")]
    ok = any(has_call(pvs.atoms(c), "check_type_system_document") for c in errs)
    R.check("R18-e", "schema-all-diagnostics", ok, "all diagnostics of check_type_system_document are returned",
            "resolve_schema does not return the diagnostics of check_type_system_document", loc=rs.loc())


def r18f(P, R):
    """renderers agree: all read check_errors, test `builtin` before resolving the file"""
    out = CLI + "output::CliOutput"
    for name in ("human_output", "json_output", "rdjson_output"):
        f = P.fn(out + "::" + name)
        pv = Prov(f)
        reads = has_field(pv.atoms(f.body), out, "check_errors")
        R.check("R18-f", "reads-errors:" + name, reads, "renders check_errors", "%s does not read check_errors" % f.path, loc=f.loc())
    for name in ("json_output", "rdjson_output"):
        f = P.fn(out + "::" + name)
        pv = Prov(f)
        gets = [c for c in f.walk() if c.get("k") == "MethodCall" and (call_name(c) or "").endswith("FileStore::get_file")]
        R.floor("R18-f", "file lookups in " + name, len(gets), 1)
        for i, (c, _) in enumerate(f.nodes()):
            if c in gets:
                # guarded by !position.builtin through `.then(|| ..)`
                ok = False
                for ctx in enclosing_contexts(f, i):
                    if ctx[0] == "closure":
                        pass
                # walk up to the `.then(..)` call whose receiver tests `builtin`
                acc = f.nodes()
                p = acc[i][1]
                while p >= 0:
                    n = acc[p][0]
                    if n.get("k") == "MethodCall" and n["method"] in ("then", "then_some") and \
                            has_field(pv.atoms(n["recv"]), "nitrogql_ast::base::Pos", "builtin"):
                        ok = True
                        break
                    if n.get("k") == "If" and has_field(pv.atoms(n["cond"]), "nitrogql_ast::base::Pos", "builtin"):
                        ok = True
                        break
                    p = acc[p][1]
                R.check("R18-f", "builtin-guard:" + name, ok, "the file is resolved only for non-builtin positions",
                        "%s resolves the file of a position without testing `builtin`" % f.path, loc=f.loc())
                a = pv.atoms(c["args"][0])
                R.check("R18-f", "file-index:" + name, has_field(a, "nitrogql_ast::base::Pos", "file"),
                        "file looked up by the diagnostic's own file index", "%s looks the file up by something other than position.file" % f.path, loc=f.loc())
        # line/column come from the same position; rdjson is 1-based
        for key, fld in (("line", "line"), ("column", "column")):
            calls = [c for c in f.walk() if c.get("k") == "MethodCall" and c["method"] == "value" and c["args"] and lit_value(c["args"][0]) == key]
            R.floor("R18-f", "%s writes in %s" % (key, name), len(calls), 1)
            for c in calls:
                a = pv.atoms(c["args"][1])
                ok = has_field(a, "nitrogql_ast::base::Pos", fld) and not has_field(a, "nitrogql_ast::base::Pos", "line" if fld == "column" else "column")
                plus1 = any(x.get("k") == "Binary" and x.get("op") == "+" and lit_value(x["r"]) == "1" for x in subnodes(c["args"][1]))
                ok = ok and (plus1 == (name == "rdjson_output"))
                R.check("R18-f", "%s:%s" % (key, name), ok, "`%s` is the diagnostic's %s (%s-based)" % (key, fld, 1 if name == "rdjson_output" else 0),
                        "%s writes `%s` from the wrong component or base" % (f.path, key), loc=f.loc())
    # print_positioned_error (human format) also tests builtin before indexing the file store
    ppe = P.fn("nitrogql_error::print_positioned_error")
    pv = Prov(ppe)
    R.check("R18-f", "human-builtin-guard", has_field(pv.atoms(ppe.body), "nitrogql_ast::base::Pos", "builtin"),
            "human renderer handles builtin positions", "print_positioned_error does not test `builtin`", loc=ppe.loc())


def r18g(P, R):
    """(1) the stage that produces check diagnostics records itself, so the JSON renderer (which prints `check.errors` only if "check"
    was recorded) cannot drop them when check runs implicitly; (2) operation diagnostics are located in the operation document"""
    out = CLI + "output::CliOutput"
    for fn_name, lit in (("check::run_check", "check"), ("generate::run_generate", "generate")):
        f = P.fn(CLI + fn_name)
        recs = [c for c in f.walk() if c.get("k") == "MethodCall" and (call_name(c) or "") == out + "::command_run" and lit in str_lits_in(c["args"][0])]
        R.check("R18-g", "stage-records-itself:" + lit, len(recs) >= 1, "%s records \"%s\" itself" % (fn_name, lit),
                "%s no longer records that the `%s` stage ran: `generate` runs the check stage implicitly, and json_output prints `check.errors` "
                "only when \"check\" was recorded, so a failing run exits 1 with no located diagnostic" % (f.path, lit), loc=f.loc())
    jo = P.fn(out + "::json_output")
    gate_lits = {v for c in jo.walk() if c.get("k") == "Binary" and c.get("op") == "==" for v in str_lits_in(c)}
    R.check("R18-g", "json-gates", {"check", "generate"} <= gate_lits, "json_output gates its sections on the recorded stage names",
            "json_output gates on %s" % sorted(gate_lits), loc=jo.loc())
    # primary positions of operation diagnostics
    import c03
    scope = [P.fns[p] for p in c03.checker_scope(P) if p.startswith(("nitrogql_checker::operation_checker", "nitrogql_checker::common"))]
    n = 0
    for f in scope:
        pv = None
        for c in f.walk():
            if c.get("k") == "MethodCall" and c.get("method") == "with_pos":
                pv = pv or Prov(f)
                n += 1
                variants = {norm(y.get("variant") or y.get("ctor_of") or "").split("::")[-1] for y in subnodes(c["recv"]) if "CheckErrorMessage::" in norm(y.get("variant") or y.get("ctor_of") or "")}
                a = pv.data_atoms(c["args"][0])
                schema_pos = any(x[0] == "call" and x[1].endswith("original_node_ref") for x in a)
                if variants <= {"TypeSystemError"} and variants:
                    continue
                R.check("R18-g", "primary-position:%s:%s" % (short(f.path), "/".join(sorted(variants)) or "?"), not schema_pos,
                        "located in the operation document",
                        "%s reports %s at a position taken from the schema (original_node_ref): the diagnostic is emitted with fileType "
                        "\"operation\" but its path/line/column point into a schema file, and the offending operation file is not named"
                        % (f.path, "/".join(sorted(variants))), loc=f.loc())
    R.floor("R18-g", "with_pos sites in the operation checker", n, 30)


def r18pc(P, R):
    from facts import Program
    SC = Program(harness.selfcheck_facts())
    pr = [f.name for f in SC.fns.values() for n in f.walk() if n.get("k") == "Call" and (call_name(n) or "") == "std::io::stdio::_print"]
    R.check("R18-pc", "control:stdout", pr == ["prints"], "stdout-writer control detected", "self-check: println! in the control crate is seen as %s" % pr)
    wr = [f.name for f, c, n in SC.ext_callers(lambda p: p.startswith(WRITE_APIS))]
    R.check("R18-pc", "control:fs-write", set(wr) == {"writes", "opens_without_truncate"}, "file-system-write control detected", "self-check: fs::write in the control crate is seen as %s" % wr)


RULES = [("R18-pc", r18pc), ("R18-a", r18a), ("R18-b", r18b), ("R18-c", r18c), ("R18-c", gate), ("R18-d", r18d), ("R18-e", r18e), ("R18-f", r18f), ("R18-g", r18g)]
EXPLANATION = (
    "Call-graph and control-context facts that hold on all executions: (R18-a) one process::exit site whose code is 0 exactly in "
    "the Ok arm, every diagnostic-recording site lies on a path that returns Err, check succeeds only under errors.is_empty(); "
    "(R18-b) within everything reachable from run_cli, stdout is written only by json_output/rdjson_output, once each, with the "
    "JSON writer's buffer, and all three formats are dispatched; (R18-c) file-system writes occur only in the two write helpers, "
    "whose only caller is run_generate's SchemaResolved arm, SchemaResolved is constructed only from a successful check, and no "
    "write is reachable from run_check; (R18-d) each write is paired with a generated_file report of the same path; (R18-e) "
    "per-file check diagnostics are aggregated without truncation; (R18-f) the renderers read the same diagnostics, test "
    "`builtin` before resolving the file, look the file up by the diagnostic's own index and write line/column from the right "
    "component and base. Not decided: JSON well-formedness (json_writer), token starts, logger output under RUST_LOG.")
ASSUMPTIONS = ["json_writer produces well-formed JSON (third-party)",
               "simple_logger writes to stdout only when RUST_LOG enables a level above `error` and a log call exists at that level (environment, outside the claim)",
               "clap argument parsing errors exit before run_cli_impl (third-party behaviour)"]


def main(tier):
    return harness.run_property("C18", RULES, "other", EXPLANATION, ASSUMPTIONS, tier)
