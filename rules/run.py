#!/usr/bin/env python3
"""Entry point: ./check <ID> [--tier quick|thorough] | ./check --setup | ./check --all"""
import importlib
import os
import sys

sys.path.insert(0, os.path.dirname(os.path.abspath(__file__)))
import harness  # noqa: E402

PROPS = ["C01", "C02", "C03", "C04", "C05", "C06", "C07", "C08", "C09", "C10", "C11", "C12", "C13",
         "C14", "C15", "C16", "C17", "C18", "C19", "C20"]


def main(argv):
    if "--setup" in argv:
        harness.build_engines()
        print("setup ok")
        return 0
    tier = os.environ.get("VERIF_TIER", "quick")
    if "--tier" in argv:
        tier = argv[argv.index("--tier") + 1]
    ids = [a for a in argv if a.upper() in PROPS]
    if "--all" in argv:
        ids = [p for p in PROPS if os.path.exists(os.path.join(os.path.dirname(__file__), p.lower() + ".py"))]
    if not ids:
        print("usage: ./check <ID> [--tier quick|thorough]")
        return 2
    rc = 0
    for pid in ids:
        mod = importlib.import_module(pid.lower())
        r = mod.main(tier)
        rc = max(rc, r)
    return rc


if __name__ == "__main__":
    sys.exit(main(sys.argv[1:]))
