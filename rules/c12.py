"""C12 — Runtime documents are the source operation plus exactly the fragments it needs.

Decides structural necessary conditions (DESIGN.md §6 C12); does not decide equality of abstract
documents.
"""
import harness
from facts import norm, lit_value, call_name, short, subnodes
from prov import Prov, has_field
from templates import field_coverage, global_state_holders, global_state_uses

PR = "nitrogql_printer::"
JSON_MOD = "nitrogql_printer::json_printer::"
TRAIT = "nitrogql_printer::json_printer::to_json::JsonPrintable"

# executable AST node types that graphql-js documents carry
AST_TYPES = [
    "operation::OperationDocument", "operation::OperationDefinition", "operation::FragmentDefinition",
    "variable::VariablesDefinition", "variable::VariableDefinition", "variable::Variable",
    "selection_set::SelectionSet", "selection_set::Field", "selection_set::FragmentSpread",
    "selection_set::InlineFragment", "directive::Directive", "value::Arguments",
    "value::IntValue", "value::FloatValue", "value::StringValue", "value::BooleanValue",
    "value::EnumValue", "value::ListValue", "value::ObjectValue",
    "type::NamedType", "type::NonNullType", "type::ListType", "base::Ident",
]
EXEMPT = {
    ("value::BooleanValue", "keyword"): "the source spelling `true`/`false`; `value` carries the meaning",
    ("value::NullValue", "keyword"): "the source spelling `null`",
}

# graphql-js language/ast.d.ts: kind -> (required keys, optional keys)
GRAPHQL_JS = {
    "Document": ({"definitions"}, set()),
    "OperationDefinition": ({"operation", "variableDefinitions", "directives", "selectionSet"}, {"name"}),
    "VariableDefinition": ({"variable", "type", "directives"}, {"defaultValue"}),
    "Variable": ({"name"}, set()),
    "SelectionSet": ({"selections"}, set()),
    "Field": ({"name", "arguments", "directives"}, {"alias", "selectionSet"}),
    "Argument": ({"name", "value"}, set()),
    "FragmentSpread": ({"name", "directives"}, set()),
    "InlineFragment": ({"directives", "selectionSet"}, {"typeCondition"}),
    "FragmentDefinition": ({"name", "typeCondition", "directives", "selectionSet"}, set()),
    "IntValue": ({"value"}, set()),
    "FloatValue": ({"value"}, set()),
    "StringValue": ({"value"}, {"block"}),
    "BooleanValue": ({"value"}, set()),
    "NullValue": (set(), set()),
    "EnumValue": ({"value"}, set()),
    "ListValue": ({"values"}, set()),
    "ObjectValue": ({"fields"}, set()),
    "ObjectField": ({"name", "value"}, set()),
    "Directive": ({"name", "arguments"}, set()),
    "NamedType": ({"name"}, set()),
    "ListType": ({"type"}, set()),
    "NonNullType": ({"type"}, set()),
    "Name": ({"value"}, set()),
}
# `selectionSet` is written through the helper only when non-empty; graphql-js requires the key on
# operations/fragments but every GraphQL grammar selection set is non-empty, so it is always there.

# (kind, key) -> AST field the value must be computed from
KEY_SOURCE = {
    ("OperationDefinition", "operation"): ("operation::OperationDefinition", "operation_type"),
    ("OperationDefinition", "name"): ("operation::OperationDefinition", "name"),
    ("OperationDefinition", "variableDefinitions"): ("operation::OperationDefinition", "variables_definition"),
    ("OperationDefinition", "directives"): ("operation::OperationDefinition", "directives"),
    ("OperationDefinition", "selectionSet"): ("operation::OperationDefinition", "selection_set"),
    ("FragmentDefinition", "name"): ("operation::FragmentDefinition", "name"),
    ("FragmentDefinition", "typeCondition"): ("operation::FragmentDefinition", "type_condition"),
    ("FragmentDefinition", "directives"): ("operation::FragmentDefinition", "directives"),
    ("FragmentDefinition", "selectionSet"): ("operation::FragmentDefinition", "selection_set"),
    ("VariableDefinition", "variable"): ("variable::VariableDefinition", "name"),
    ("VariableDefinition", "type"): ("variable::VariableDefinition", "type"),
    ("VariableDefinition", "defaultValue"): ("variable::VariableDefinition", "default_value"),
    ("VariableDefinition", "directives"): ("variable::VariableDefinition", "directives"),
    ("Field", "name"): ("selection_set::Field", "name"),
    ("Field", "alias"): ("selection_set::Field", "alias"),
    ("Field", "arguments"): ("selection_set::Field", "arguments"),
    ("Field", "directives"): ("selection_set::Field", "directives"),
    ("Field", "selectionSet"): ("selection_set::Field", "selection_set"),
    ("FragmentSpread", "name"): ("selection_set::FragmentSpread", "fragment_name"),
    ("FragmentSpread", "directives"): ("selection_set::FragmentSpread", "directives"),
    ("InlineFragment", "typeCondition"): ("selection_set::InlineFragment", "type_condition"),
    ("InlineFragment", "directives"): ("selection_set::InlineFragment", "directives"),
    ("InlineFragment", "selectionSet"): ("selection_set::InlineFragment", "selection_set"),
    ("Directive", "name"): ("directive::Directive", "name"),
    ("Directive", "arguments"): ("directive::Directive", "arguments"),
    ("SelectionSet", "selections"): ("selection_set::SelectionSet", "selections"),
    ("IntValue", "value"): ("value::IntValue", "value"),
    ("FloatValue", "value"): ("value::FloatValue", "value"),
    ("StringValue", "value"): ("value::StringValue", "value"),
    ("BooleanValue", "value"): ("value::BooleanValue", "value"),
    ("EnumValue", "value"): ("value::EnumValue", "value"),
    ("ListValue", "values"): ("value::ListValue", "values"),
    ("ObjectValue", "fields"): ("value::ObjectValue", "fields"),
    ("NamedType", "name"): ("type::NamedType", "name"),
    ("ListType", "type"): ("type::ListType", "type"),
    ("NonNullType", "type"): ("type::NonNullType", "type"),
}

WRITER_KEY_METHODS = ("json_writer::JSONObjectWriter::value", "json_writer::JSONObjectWriter::array",
                      "json_writer::JSONObjectWriter::object")


def json_scope(P):
    entry = P.fn("json_printer::print_to_json_string")
    reach = P.reachable([entry])
    return sorted(p for p in reach if JSON_MOD in p)


def r12a(P, R):
    scope = json_scope(P)
    R.count("json_printer_functions", len(scope))
    n = field_coverage(P, R, "R12-a", scope, ["nitrogql_ast::" + t for t in AST_TYPES], EXEMPT,
                       "the JSON (graphql-js DocumentNode) printer")
    R.floor("R12-a", "AST content fields", n, 38)


def key_calls(fn):
    """[(index, node, key literal)] for writer.value/array/object("key", ..) calls in fn"""
    out = []
    for i, (n, _) in enumerate(fn.nodes()):
        if n.get("k") == "MethodCall" and norm(n.get("callee")) in WRITER_KEY_METHODS and n["args"]:
            key = lit_value(n["args"][0])
            if key is not None:
                out.append((i, n, key))
    return out


def kind_tables(P, R):
    """-> list of (fn, kind, {key: [value arg nodes]}, block node) read from the JsonPrintable impls"""
    impls = P.trait_impls(TRAIT, "print_json")
    helpers = {f.path: f for f in P.fns.values() if JSON_MOD in f.path and not f.impl_trait}
    out = []
    for fn in impls:
        acc = fn.nodes()
        kc = key_calls(fn)
        kind_calls = [(i, n) for i, n, key in kc if key == "kind"]
        if not kind_calls:
            continue

        def owner_block(i):
            p = acc[i][1]
            while p >= 0:
                if acc[p][0].get("k") == "Block":
                    return p
                p = acc[p][1]
            return -1
        kind_blocks = {}
        for i, n in kind_calls:
            kind = lit_value(n["args"][1]) if len(n["args"]) > 1 else None
            kind_blocks[owner_block(i)] = (kind, n)

        def owning_kind_block(i):
            p = acc[i][1]
            while p >= 0:
                if p in kind_blocks:
                    return p
                p = acc[p][1]
            return -1
        tables = {b: {} for b in kind_blocks}
        for i, n, key in kc:
            if key == "kind":
                continue
            b = owning_kind_block(i)
            if b in tables:
                tables[b].setdefault(key, []).append(n)
        # helper functions called from this impl contribute their keys to the enclosing kind block
        for i, (n, _) in enumerate(acc):
            if n.get("k") == "Call":
                c = call_name(n)
                if c in helpers:
                    b = owning_kind_block(i)
                    for _, hn, key in key_calls(helpers[c]):
                        if b in tables:
                            tables[b].setdefault(key, []).append(n)
        for b, (kind, kn) in kind_blocks.items():
            out.append((fn, kind, tables[b], acc[b][0]))
    return out


def r12b(P, R):
    tabs = kind_tables(P, R)
    seen = {}
    for fn, kind, keys, block in tabs:
        seen.setdefault(kind, []).append((fn, keys))
    R.count("json_kinds", len(seen))
    for kind, (req, opt) in sorted(GRAPHQL_JS.items()):
        if kind not in seen:
            R.violated("R12-b", "kind:" + kind, "no JsonPrintable impl emits graphql-js kind `%s`" % kind)
            continue
        for fn, keys in seen[kind]:
            ks = set(keys)
            missing = req - ks
            extra = ks - req - opt
            ok = not missing and not extra
            R.check("R12-b", "keys:%s@%s" % (kind, short(fn.path)), ok,
                    "keys %s match graphql-js" % sorted(ks),
                    "JSON node `%s` written by %s has keys %s; graphql-js requires %s (optional %s): missing %s, unknown %s"
                    % (kind, fn.path, sorted(ks), sorted(req), sorted(opt), sorted(missing), sorted(extra)),
                    loc=fn.loc())
    for kind in seen:
        if kind not in GRAPHQL_JS:
            R.violated("R12-b", "kind:" + str(kind), "impl emits kind `%s`, which graphql-js does not define" % kind,
                       loc=seen[kind][0][0].loc())
    R.floor("R12-b", "graphql-js kinds", len(seen), 24)
    # key -> source field (T2)
    n = 0
    for fn, kind, keys, block in tabs:
        pv = Prov(fn)
        for key, nodes in keys.items():
            src = KEY_SOURCE.get((kind, key))
            if not src:
                continue
            n += 1
            # atoms of the whole call (receiver chain + args), plus the block for writer objects
            atoms = set()
            for node in nodes:
                atoms |= pv.atoms(node)
                # values written through a sub-writer created by this call: collect uses of the
                # writer binding -> conservatively the statement's enclosing block
            ok = has_field(atoms, "nitrogql_ast::" + src[0], src[1])
            if not ok:
                # array/object writers are filled by later statements: fall back to the kind block
                atoms = pv.atoms(block)
                ok = has_field(atoms, "nitrogql_ast::" + src[0], src[1])
                via = "block"
            else:
                via = "call"
            R.check("R12-b", "src:%s.%s" % (kind, key), ok,
                    "`%s` is computed from %s.%s (%s)" % (key, src[0], src[1], via),
                    "JSON key `%s` of `%s` is not computed from %s.%s anywhere in its block" % (key, kind, src[0], src[1]),
                    loc=fn.loc())
    R.floor("R12-b", "key->field sources", n, 30)
    # child nodes are printed as they are: the receiver of a nested print_json is an AST value reached by field projection /
    # iteration (or a json_printer adapter around one), never the result of an AST helper that computes a different node
    sites = 0
    for p in json_scope(P):
        f = P.fns[p]
        pv = Prov(f)
        for c in f.walk():
            if c.get("k") == "MethodCall" and c.get("method") == "print_json":
                sites += 1
                through = sorted({x[1] for x in pv.data_atoms(c["recv"]) if x[0] == "call" and x[1] in P.fns and JSON_MOD not in x[1]})
                R.check("R12-b", "child-direct:%s" % short(f.path), not through, "nested nodes are printed unchanged",
                        "%s prints a nested node obtained through %s instead of the AST child itself: the emitted document differs from the "
                        "source (e.g. list / non-null wrappers of a variable type are lost)" % (f.path, [short(t) for t in through]), loc=f.loc())
    R.floor("R12-b", "nested print_json sites", sites, 25)


def r12c(P, R):
    """closure traversal of fragment_names_in_selection_set::rec"""
    rec = P.fn("utils::fragment_names_in_selection_set::rec")
    # all three Selection variants matched explicitly, no wildcard arm
    from facts import matches_on, arm_variants
    variants, wildcard = set(), False
    ms = matches_on(rec, "selection_set::Selection")
    for m in ms:
        v, w = arm_variants(m)
        variants |= v
        wildcard = wildcard or w
    R.check("R12-c", "variants", variants == {"Field", "FragmentSpread", "InlineFragment"} and not wildcard,
            "all Selection variants handled explicitly",
            "fragment closure does not handle every Selection variant explicitly: %s wildcard=%s" % (sorted(variants), wildcard),
            loc=rec.loc())
    pv = Prov(rec)
    rec_calls = [n for n in rec.walk() if n.get("k") == "Call" and call_name(n) == rec.path]
    fields = set()
    for c in rec_calls:
        a = pv.atoms(c["args"][0])
        for x in a:
            if x[0] == "field":
                fields.add((x[1].split("::")[-1], x[2]))
    need = {("Field", "selection_set"), ("InlineFragment", "selection_set"), ("FragmentDefinition", "selection_set")}
    R.check("R12-c", "descent", need <= fields,
            "recursion descends into Field, InlineFragment and the spread fragment's selection sets",
            "fragment closure does not descend into %s" % sorted(need - fields), loc=rec.loc(),
            detail=sorted(fields))
    R.floor("R12-c", "recursive descents", len(rec_calls), 3)
    # de-duplication: a `contains` check on `names` and the push use the same key
    contains = [n for n in rec.walk() if n.get("k") == "MethodCall" and n.get("method") == "contains"]
    pushes = [n for n in rec.walk() if n.get("k") == "MethodCall" and n.get("method") == "push"]
    ok = False
    if contains and pushes:
        ca = {x for x in pv.atoms(contains[0]["args"][0]) if x[0] == "field"}
        pa = {x for x in pv.atoms(pushes[0]["args"][0]) if x[0] == "field"}
        ok = ("field", "nitrogql_ast::selection_set::FragmentSpread", "fragment_name") in ca and ca == pa
    R.check("R12-c", "dedup", ok and len(pushes) == 1,
            "names.contains(spread name) guards the single push of the same key",
            "fragment names are not de-duplicated by a contains-check on the pushed key", loc=rec.loc())
    # MIR: the contains-call dominates the push
    from mirq import MirQ
    mq = MirQ(P.mir[rec.path])
    cb = mq.calls_to(lambda p: p.endswith("contains"))
    pb = mq.calls_to(lambda p: p.endswith("::push"))
    R.check("R12-c", "dedup-dom", bool(cb) and bool(pb) and all(mq.dominates(cb[0], b) for b in pb),
            "contains() dominates push() in MIR", "push of a fragment name is not dominated by the contains check",
            loc=rec.loc())


def r12d(P, R):
    """single source: runtime documents are built only through print_*_runtime"""
    op_rt = P.fn("operation_js_printer::printers::print_operation_runtime")
    fr_rt = P.fn("operation_js_printer::printers::print_fragment_runtime")
    ptjs = P.fn("json_printer::print_to_json_string")
    callers = [c for c in P.callers_of(ptjs.path) if "::tests::" not in c]
    R.check("R12-d", "json-callers", set(callers) == {op_rt.path, fr_rt.path},
            "print_to_json_string is called only by the two runtime printers",
            "print_to_json_string has other callers: %s" % callers)
    visitors = P.trait_impls("operation_base_printer::visitor::OperationPrinterVisitor")
    for m, rt in (("print_operation_definition", op_rt), ("print_fragment_definition", fr_rt)):
        for v in [f for f in visitors if f.name == m]:
            reach = P.reachable([v])
            is_js = "operation_js_printer" in v.path
            if is_js:
                R.check("R12-d", "js:" + m, rt.path in reach, "JS visitor prints the runtime document via %s" % rt.name,
                        "JS visitor %s does not reach %s" % (v.path, rt.path), loc=v.loc())
            else:
                R.check("R12-d", "ts:" + m, rt.path in reach, "TS visitor prints runtime values via %s" % rt.name,
                        "TS visitor %s does not reach %s (print_values path)" % (v.path, rt.path), loc=v.loc())
    # document assembly: [X] ++ closure, X first; closure from fragment_names_in_selection_set of X's selection set
    for rt, adt in ((op_rt, "operation::OperationDefinition"), (fr_rt, "operation::FragmentDefinition")):
        pv = Prov(rt)
        fcalls = [n for n in rt.walk() if n.get("k") == "Call" and (call_name(n) or "").endswith("fragment_names_in_selection_set")]
        ok = bool(fcalls) and has_field(pv.atoms(fcalls[0]["args"][0]), "nitrogql_ast::" + adt, "selection_set")
        R.check("R12-d", "closure-root:" + rt.name, ok, "closure is computed from the definition's own selection set",
                "%s does not compute the fragment closure from its definition's selection_set" % rt.path, loc=rt.loc())
        chains = [n for n in rt.walk() if n.get("k") == "MethodCall" and n.get("method") == "chain"]
        ok = False
        if len(chains) == 1:
            ra = pv.atoms(chains[0]["recv"])
            aa = pv.atoms(chains[0]["args"][0])
            first = ("param", "operation") in ra or ("param", "fragment") in ra
            rest = any(a[0] == "call" and a[1].endswith("fragment_names_in_selection_set") for a in aa)
            rest_not_first = not any(a[0] == "call" and a[1].endswith("fragment_names_in_selection_set") for a in ra)
            ok = first and rest and rest_not_first
        R.check("R12-d", "order:" + rt.name, ok, "document = [definition] ++ closure (definition first)",
                "%s does not assemble the document as the definition followed by its fragment closure" % rt.path,
                loc=rt.loc())
    # fragment runtime filters itself out of the closure
    filt = [n for n in fr_rt.walk() if n.get("k") == "MethodCall" and n.get("method") == "filter"]
    pv = Prov(fr_rt)
    ok = bool(filt) and has_field(pv.atoms(filt[0]["args"][0]), "nitrogql_ast::operation::FragmentDefinition", "name")
    R.check("R12-d", "self-filter", ok, "the fragment itself is filtered out of its own closure (appears exactly once)",
            "print_fragment_runtime does not filter the fragment itself from the closure", loc=fr_rt.loc())


def r12f(P, R):
    """the runtime printers keep no state between documents"""
    holders = global_state_holders(P)
    R.floor("R12-f", "global state holders found in the workspace (detector control)", len(holders), 6)
    entries = [P.fn(PR + "operation_js_printer::printers::print_operation_runtime"), P.fn(PR + "operation_js_printer::printers::print_fragment_runtime"),
               P.fn(PR + "json_printer::print_to_json_string")]
    scope = [P.fns[p] for p in P.reachable(entries) if not P.fns[p].derived]
    ALLOWED = {"nitrogql_ast::current_file::CURRENT_FILE_OF_POS": "file index stamped into positions while parsing; not read by the runtime printers' output path"}
    uses = global_state_uses(P, scope, holders)
    bad = 0
    for f, h, missing, key in uses:
        if h in ALLOWED:
            continue
        bad += 1
        if missing is None:
            R.undecided("R12-f", "state:%s" % short(h), "%s uses global state %s without a keyed access; its effect on the output is not decided" % (f.path, h), loc=f.loc())
        elif missing:
            R.violated("R12-f", "state:%s" % short(h), "%s caches results in the thread-local/static %s keyed by %s only, but the cached value also depends on "
                       "%s: the runtime document printed for one file depends on which documents were printed before it" % (f.path, h, key, missing), loc=f.loc())
        else:
            R.undecided("R12-f", "state:%s" % short(h), "%s caches in %s with a key covering all its inputs" % (f.path, h), loc=f.loc())
    if not bad:
        R.holds("R12-f", "stateless", "%d functions reachable from the runtime printers touch no global state holder (of %d in the workspace)" % (len(scope), len(holders)))


def r12e(P, R):
    """lossless traversal: no early exit from the traversal loops, no filtering/reordering adaptor on AST data"""
    from templates import LOSSY_OR_REORDERING
    rec = P.fn("utils::fragment_names_in_selection_set::rec")
    rets = [n for n in rec.walk() if n.get("k") == "Ret"]
    brks = [n for n in rec.walk() if n.get("k") == "Break" and "desugar" not in (n.get("x") or "")]
    R.check("R12-e", "closure:no-early-exit", not rets and not brks,
            "the fragment-closure loop visits every selection (only `continue` skips one)",
            "fragment_names_in_selection_set::rec leaves the loop over selections early (%d return, %d break): "
            "later sibling selections are never scanned, so fragments spread only there are missing from the document"
            % (len(rets), len(brks)), loc=rec.loc())
    scope = json_scope(P)
    n = 0
    for p in scope:
        f = P.fns[p]
        for c in f.walk():
            if c.get("k") == "MethodCall":
                n += 1
                if c["method"] in LOSSY_OR_REORDERING:
                    R.violated("R12-e", "lossy:%s:%s" % (short(f.path), c["method"]),
                               "%s applies `%s` while printing: a component of the source document can be dropped or reordered"
                               % (f.path, c["method"]), loc=f.loc())
        exits = [x for x in f.walk() if x.get("k") == "Break" and "desugar" not in (x.get("x") or "")]
        if exits:
            R.violated("R12-e", "early-break:" + short(f.path), "%s breaks out of a printing loop" % f.path, loc=f.loc())
    R.holds("R12-e", "lossy:none", "%d method calls in %d JSON-printer functions, none filters/reorders" % (n, len(scope)))
    R.floor("R12-e", "method calls inspected", n, 80)
    # the runtime printers: exactly one filter (the self-filter of print_fragment_runtime, checked in R12-d)
    for name, allowed in (("print_operation_runtime", 0), ("print_fragment_runtime", 1)):
        f = P.fn("operation_js_printer::printers::" + name)
        lossy = [c["method"] for c in f.walk() if c.get("k") == "MethodCall" and c["method"] in LOSSY_OR_REORDERING]
        R.check("R12-e", "runtime-lossy:" + name, len(lossy) == allowed,
                "no unexpected filtering of the fragment closure",
                "%s applies %s to the fragment closure (expected %d such adaptor)" % (f.path, lossy, allowed), loc=f.loc())


RULES = [("R12-e", r12e), ("R12-f", r12f), ("R12-a", r12a), ("R12-b", r12b), ("R12-c", r12c), ("R12-d", r12d)]

EXPLANATION = (
    "Static structural necessary conditions for C12 decided on the type-checked program: (R12-a) every "
    "content field of every executable AST type is read by some function of the JSON printer reachable "
    "from print_to_json_string (non-interference: an unread field cannot influence the emitted document, "
    "for all inputs); (R12-b) the kind/key table of every JsonPrintable impl equals graphql-js's AST shape "
    "and each key is computed from the AST field that carries it; (R12-c) the fragment closure matches all "
    "Selection variants, descends into all three nested selection sets and de-duplicates by a dominating "
    "contains-check; (R12-d) runtime documents are assembled only in print_operation_runtime/"
    "print_fragment_runtime as [definition] ++ closure and both the TS and JS visitor use them. "
    "Not decided: equality of abstract documents for all inputs.")
ASSUMPTIONS = ["json_writer crate escapes strings and nests objects correctly (third-party, trusted)",
               "rustc's type checker and the HIR/MIR emitted by nightly 1.97 (facts are read from them)",
               "graphql-js AST shape table transcribed by hand from language/ast.d.ts (v16)"]


def main(tier):
    return harness.run_property("C12", RULES, "other", EXPLANATION, ASSUMPTIONS, tier)
