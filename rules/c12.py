"""C12 — Runtime documents are the source operation plus exactly the fragments it needs.

Decides structural necessary conditions (DESIGN.md §6 C12); does not decide equality of abstract
documents.
"""
import harness
from facts import norm, lit_value, call_name, short, subnodes, peel_ty, field_reads, AnchorMissing
from prov import Prov, has_field
from mirq import MirQ
from templates import field_coverage, global_state_holders, global_state_uses, inlined
from c13 import guards_of, strip, pattern_variants, mir_blocks, index_of     # shape helpers shared by the two modules (defined in c13.py)

PR = "nitrogql_printer::"
JSON_MOD = "nitrogql_printer::json_printer::"
TRAIT = "nitrogql_printer::json_printer::to_json::JsonPrintable"

# executable AST node types that graphql-js documents carry
AST_TYPES = [
    "operation::OperationDocument", "operation::OperationDefinition", "operation::FragmentDefinition",
    "variable::VariablesDefinition", "variable::VariableDefinition", "variable::Variable",
    "selection_set::SelectionSet", "selection_set::Field", "selection_set::FragmentSpread",
    "selection_set::InlineFragment", "directive::Directive", "value::Arguments",
    "value::IntValue", "value::FloatValue", "value::StringValue", "value::BooleanValue",
    "value::EnumValue", "value::ListValue", "value::ObjectValue",
    "type::NamedType", "type::NonNullType", "type::ListType", "base::Ident",
]
EXEMPT = {
    ("value::BooleanValue", "keyword"): "the source spelling `true`/`false`; `value` carries the meaning",
    ("value::NullValue", "keyword"): "the source spelling `null`",
}

# graphql-js language/ast.d.ts: kind -> (required keys, optional keys)
GRAPHQL_JS = {
    "Document": ({"definitions"}, set()),
    "OperationDefinition": ({"operation", "variableDefinitions", "directives", "selectionSet"}, {"name"}),
    "VariableDefinition": ({"variable", "type", "directives"}, {"defaultValue"}),
    "Variable": ({"name"}, set()),
    "SelectionSet": ({"selections"}, set()),
    "Field": ({"name", "arguments", "directives"}, {"alias", "selectionSet"}),
    "Argument": ({"name", "value"}, set()),
    "FragmentSpread": ({"name", "directives"}, set()),
    "InlineFragment": ({"directives", "selectionSet"}, {"typeCondition"}),
    "FragmentDefinition": ({"name", "typeCondition", "directives", "selectionSet"}, set()),
    "IntValue": ({"value"}, set()),
    "FloatValue": ({"value"}, set()),
    "StringValue": ({"value"}, {"block"}),
    "BooleanValue": ({"value"}, set()),
    "NullValue": (set(), set()),
    "EnumValue": ({"value"}, set()),
    "ListValue": ({"values"}, set()),
    "ObjectValue": ({"fields"}, set()),
    "ObjectField": ({"name", "value"}, set()),
    "Directive": ({"name", "arguments"}, set()),
    "NamedType": ({"name"}, set()),
    "ListType": ({"type"}, set()),
    "NonNullType": ({"type"}, set()),
    "Name": ({"value"}, set()),
}
# `selectionSet` is written through the helper only when non-empty; graphql-js requires the key on
# operations/fragments but every GraphQL grammar selection set is non-empty, so it is always there.

# (kind, key) -> AST field the value must be computed from
KEY_SOURCE = {
    ("OperationDefinition", "operation"): ("operation::OperationDefinition", "operation_type"),
    ("OperationDefinition", "name"): ("operation::OperationDefinition", "name"),
    ("OperationDefinition", "variableDefinitions"): ("operation::OperationDefinition", "variables_definition"),
    ("OperationDefinition", "directives"): ("operation::OperationDefinition", "directives"),
    ("OperationDefinition", "selectionSet"): ("operation::OperationDefinition", "selection_set"),
    ("FragmentDefinition", "name"): ("operation::FragmentDefinition", "name"),
    ("FragmentDefinition", "typeCondition"): ("operation::FragmentDefinition", "type_condition"),
    ("FragmentDefinition", "directives"): ("operation::FragmentDefinition", "directives"),
    ("FragmentDefinition", "selectionSet"): ("operation::FragmentDefinition", "selection_set"),
    ("VariableDefinition", "variable"): ("variable::VariableDefinition", "name"),
    ("VariableDefinition", "type"): ("variable::VariableDefinition", "type"),
    ("VariableDefinition", "defaultValue"): ("variable::VariableDefinition", "default_value"),
    ("VariableDefinition", "directives"): ("variable::VariableDefinition", "directives"),
    ("Field", "name"): ("selection_set::Field", "name"),
    ("Field", "alias"): ("selection_set::Field", "alias"),
    ("Field", "arguments"): ("selection_set::Field", "arguments"),
    ("Field", "directives"): ("selection_set::Field", "directives"),
    ("Field", "selectionSet"): ("selection_set::Field", "selection_set"),
    ("FragmentSpread", "name"): ("selection_set::FragmentSpread", "fragment_name"),
    ("FragmentSpread", "directives"): ("selection_set::FragmentSpread", "directives"),
    ("InlineFragment", "typeCondition"): ("selection_set::InlineFragment", "type_condition"),
    ("InlineFragment", "directives"): ("selection_set::InlineFragment", "directives"),
    ("InlineFragment", "selectionSet"): ("selection_set::InlineFragment", "selection_set"),
    ("Directive", "name"): ("directive::Directive", "name"),
    ("Directive", "arguments"): ("directive::Directive", "arguments"),
    ("SelectionSet", "selections"): ("selection_set::SelectionSet", "selections"),
    ("IntValue", "value"): ("value::IntValue", "value"),
    ("FloatValue", "value"): ("value::FloatValue", "value"),
    ("StringValue", "value"): ("value::StringValue", "value"),
    ("BooleanValue", "value"): ("value::BooleanValue", "value"),
    ("EnumValue", "value"): ("value::EnumValue", "value"),
    ("ListValue", "values"): ("value::ListValue", "values"),
    ("ObjectValue", "fields"): ("value::ObjectValue", "fields"),
    ("NamedType", "name"): ("type::NamedType", "name"),
    ("ListType", "type"): ("type::ListType", "type"),
    ("NonNullType", "type"): ("type::NonNullType", "type"),
}

NESTED_SITES_FLOOR = 30
WRITER_KEY_METHODS = ("json_writer::JSONObjectWriter::value", "json_writer::JSONObjectWriter::array",
                      "json_writer::JSONObjectWriter::object")


def json_entry(P):
    """the function that turns a JsonPrintable node into text: by its name, or — renamed — as the only non-test function of the
    printer crate that returns a String and calls print_json of (nearly) every impl"""
    f = P.fn("json_printer::print_to_json_string", required=False)
    if f is not None:
        return f
    impls = {g.path for g in P.trait_impls(TRAIT, "print_json")}
    c = [g for g in P.fns.values() if g.path.startswith(PR) and "::tests::" not in g.path and g.kind == "Fn" and not g.impl_trait
         and g.sig_output == "alloc::string::String" and len(P.callees_of(g)[0] & impls) * 2 > len(impls) > 0]
    if len(c) != 1:
        raise AnchorMissing("JSON printer entry (JsonPrintable -> String): %d candidates" % len(c))
    return c[0]


def json_scope(P):
    entry = json_entry(P)
    reach = P.reachable([entry])
    mod = entry.path.rsplit("::", 1)[0] + "::"
    return sorted(p for p in reach if mod in p or JSON_MOD in p)


# ----------------------------------------------------------------------------------------------------------- anchors (by role)
OPDEF = "nitrogql_ast::operation::OperationDefinition"
FRDEF = "nitrogql_ast::operation::FragmentDefinition"
SELSET = "nitrogql_ast::selection_set::SelectionSet"


def _bare(t):
    """type string without references, lifetimes' left-over blanks and generic arguments"""
    return peel_ty(t).strip().split("<")[0]


def _param_of(fn, adt):
    """index of the unique parameter of `fn` that is a (reference to a) value of type `adt`, or None"""
    hits = [i for i, t in enumerate(fn.sig_inputs) if _bare(t) == adt]
    return hits[0] if len(hits) == 1 else None


class Anchors:
    pass


_ANCHORS = {}


def anchors(P):
    """The runtime-document printers and the fragment-closure function, located by what they do rather than by their names:
    * the printers are the (nearest) non-test callers of json_printer::print_to_json_string that receive one
      `&OperationDefinition` resp. one `&FragmentDefinition` (a wrapper in between without such a parameter is climbed over);
    * the closure function is the function of the printer crate both of them call that takes a `&SelectionSet` and returns a
      collection of names (`&str`)."""
    if id(P) in _ANCHORS:
        return _ANCHORS[id(P)]
    A = Anchors()
    A.ptjs = json_entry(P)
    ops, frs, others = set(), set(), set()
    frontier, seen = [A.ptjs.path], {A.ptjs.path}
    for _ in range(3):
        nxt = []
        for p in frontier:
            for c in P.callers_of(p):
                if c in seen or "::tests::" in c:
                    continue
                seen.add(c)
                f = P.fns[c]
                if f.kind == "Closure" or _param_of(f, OPDEF) is None and _param_of(f, FRDEF) is None:
                    if P.callers_of(c) and not f.pub:
                        nxt.append(c)       # a private wrapper: look at who calls it
                    else:
                        others.add(c)
                elif _param_of(f, OPDEF) is not None:
                    ops.add(c)
                else:
                    frs.add(c)
        frontier = nxt
    others |= set(frontier)
    A.others = sorted(others)
    if len(ops) != 1 or len(frs) != 1:
        raise AnchorMissing("runtime printers (callers of print_to_json_string taking &OperationDefinition / &FragmentDefinition): %s / %s"
                            % (sorted(ops), sorted(frs)))
    A.op_rt, A.fr_rt = P.fns[ops.pop()], P.fns[frs.pop()]
    # what both printers call, directly or through helpers they share (statically resolved calls, seen by virtual inlining)
    def calls_of(f):
        return {call_name(n) for n in inlined(P, f).walk() if n.get("k") in ("Call", "MethodCall")} & set(P.fns)
    def closures(common):
        return [P.fns[c] for c in common if P.fns[c].crate == A.op_rt.crate and _param_of(P.fns[c], SELSET) is not None
                and "str" in (P.fns[c].sig_output or "")]
    cl = closures(P.callees_of(A.op_rt)[0] & P.callees_of(A.fr_rt)[0]) or closures(calls_of(A.op_rt) & calls_of(A.fr_rt))
    # a thin wrapper around the closure function (same signature role) is not a second candidate: keep the innermost
    if len(cl) > 1:
        inner = [c for c in cl if not any(d.path in P.callees_of(c)[0] for d in cl if d is not c)]
        cl = inner or cl
    if len(cl) != 1:
        raise AnchorMissing("fragment closure (fn of %s called by both runtime printers, &SelectionSet -> names): %s" % (A.op_rt.crate, [c.path for c in cl]))
    A.closure = cl[0]
    A.not_closure = lambda g: g.path != A.closure.path and g.path != A.ptjs.path    # kept alive: templates.inlined memoises on id(pred)
    A.closure_T = inlined(P, A.closure)
    # the traversal = the closure function and the same-crate functions it calls by a statically resolved path (nested `rec`, helpers)
    inl = []
    for n in A.closure_T.walk():
        if "inl" in n and n["inl"]["fn"] not in inl and n["inl"]["fn"] != A.closure.path:
            inl.append(n["inl"]["fn"])
    A.closure_scope = [A.closure] + [P.fns[p] for p in inl]
    _ANCHORS[id(P)] = A
    return A


def r12a(P, R):
    scope = json_scope(P)
    R.count("json_printer_functions", len(scope))
    # a component can also be read on the printer's behalf by the AST type's own view impls (`impl IntoIterator for &Arguments`,
    # `Deref`, `AsRef`, `Index`): std adaptors such as `flatten()` / a `for` loop call them without a call site in the printer.
    # They count as readers when the printer handles values of that type at all
    views = []
    for g in P.fns.values():
        if g.impl_trait and not g.derived and g.self_adt and g.self_adt.startswith("nitrogql_ast::") and g.path not in scope and \
                g.impl_trait.split("::")[-1] in ("IntoIterator", "Deref", "AsRef", "Borrow", "Index"):
            if any(g.self_adt in str(x.get("t") or "") for p in scope for x in P.fns[p].walk()):
                views.append(g.path)
    scope = scope + sorted(views)
    n = field_coverage(P, R, "R12-a", scope, ["nitrogql_ast::" + t for t in AST_TYPES], EXEMPT,
                       "the JSON (graphql-js DocumentNode) printer")
    R.floor("R12-a", "AST content fields", n, 38)


def literal_at(acc, i, e):
    """literal value of expression `e` occurring at node i of a (virtually inlined) function; a parameter of an inlined helper is
    looked up in the arguments of the call it was inlined at (each copy of the helper has its own call site)"""
    v = lit_value(e)
    while v is None:
        e = strip(e)
        while e is not None and e.get("k") in ("AddrOf", "Cast", "Type"):
            e = strip(e.get("e"))
        if e is None or e.get("k") != "Path" or "local" not in e:
            return None
        p, site, pos = acc[i][1], None, None
        while p >= 0 and site is None:
            c = acc[p][0]
            if "inl" in c:
                pos = [k for k, pp in enumerate(c["inl"]["params"]) if pp.get("k") == "Binding" and pp.get("local") == e["local"]]
                if pos:
                    site = p
                    break
            p = acc[p][1]
        if site is None:
            return None
        c = acc[site][0]
        args = ([c["recv"]] if c.get("k") == "MethodCall" else []) + c["args"]
        if pos[0] >= len(args):
            return None
        i, e = site, args[pos[0]]
        v = lit_value(e)
    return v


def key_calls(fn):
    """[(index, node, key)] for writer.value/array/object(key, ..) calls in fn; the key is the literal, also when it reaches the
    call as the parameter of an inlined helper (`write_nodes(writer, "directives", ..)`); None when it cannot be read"""
    out = []
    acc = fn.nodes()
    for i, (n, _) in enumerate(acc):
        if n.get("k") == "MethodCall" and norm(n.get("callee")) in WRITER_KEY_METHODS and n["args"]:
            out.append((i, n, literal_at(acc, i, n["args"][0])))
    return out


def _not_printable(g):
    """what is inlined into a JsonPrintable impl: helper functions, not the impls of nested nodes (those have their own table)"""
    return not (g.impl_trait and (g.impl_trait == TRAIT or g.impl_trait.endswith("::JsonPrintable")))


UNKNOWN_KINDS = []
UNREAD_KEYS = set()
NESTED = {}


def kind_tables(P, R):
    """-> list of (fn, kind, {key: [value arg nodes]}, block node) read from the JsonPrintable impls, each with the helper
    functions it calls inlined: a key (or the kind itself) written by a helper counts for the impl that calls the helper"""
    impls = P.trait_impls(TRAIT, "print_json")
    out = []
    del UNKNOWN_KINDS[:]
    UNREAD_KEYS.clear()
    for fn0 in impls:
        fn = inlined(P, fn0, pred=_not_printable)
        acc = fn.nodes()
        inl_ids = set()
        for n, _ in acc:
            if "inl" in n:
                inl_ids.update(id(x) for x in subnodes(n["inl"]["body"]))
        kc = key_calls(fn)
        kind_calls = [(i, n) for i, n, key in kc if key == "kind"]
        if not kind_calls:
            continue
        pv = Prov(fn)

        def owner_block(i):
            # nearest enclosing scope of the impl itself — a block, or the expression that is the body of a match arm (a block of an
            # inlined helper belongs to the scope of its call site)
            p = acc[i][1]
            while p >= 0:
                n = acc[p][0]
                if id(n) not in inl_ids:
                    if n.get("k") == "Block":
                        return p
                    pp = acc[p][1]
                    if pp >= 0 and acc[pp][0].get("k") == "Arm" and acc[pp][0].get("body") is n:
                        return p
                p = acc[p][1]
            return -1

        def json_object(i, recv):
            """identity of the JSON object a writer call at node i writes into: the writer local it is called on (a helper's writer
            parameter standing for the argument at its call site), or the `.object(..)` expression that opens a nested object"""
            e = recv
            while True:
                e = strip(e)
                while e is not None and e.get("k") in ("AddrOf", "Unary", "Cast"):
                    e = strip(e.get("e"))
                if e is None:
                    return None
                if e.get("k") != "Path" or "local" not in e:
                    return ("node", id(e))
                p, site, pos = acc[i][1], None, None
                while p >= 0:
                    c = acc[p][0]
                    if "inl" in c:
                        pos = [k for k, pp in enumerate(c["inl"]["params"]) if pp.get("k") == "Binding" and pp.get("local") == e["local"]]
                        if pos:
                            site = p
                            break
                    p = acc[p][1]
                if site is None:
                    return ("local", e["local"])
                c = acc[site][0]
                args = ([c["recv"]] if c.get("k") == "MethodCall" else []) + c["args"]
                if pos[0] >= len(args):
                    return ("local", e["local"])
                i, e = site, args[pos[0]]
        kind_blocks = {}        # (scope, JSON object) -> (kind, call)
        for i, n in kind_calls:
            kind = literal_at(acc, i, n["args"][1]) if len(n["args"]) > 1 else None
            if kind is None:
                UNKNOWN_KINDS.append(fn.path)
                R.undecided("R12-b", "kind@%s" % short(fn.path), "%s writes a `kind` that is not a literal; its table is not decided" % fn.path, loc=fn.loc())
                continue
            kind_blocks[(owner_block(i), json_object(i, n["recv"]))] = (kind, n)

        def owning_kind_block(i, obj):
            p = acc[i][1]
            while p >= 0:
                if (p, obj) in kind_blocks:
                    return (p, obj)
                p = acc[p][1]
            return None
        tables = {b: {} for b in kind_blocks}
        for i, n, key in kc:
            if key == "kind":
                continue
            b = owning_kind_block(i, json_object(i, n["recv"]))
            if b in tables:
                if key is None:
                    UNREAD_KEYS.add((fn.path, kind_blocks[b][0]))       # a key that is not a literal: the table of this node is incomplete
                else:
                    tables[b].setdefault(key, []).append(n)
        for b, (kind, kn) in kind_blocks.items():
            # a nested object opened for a helper (`helper(x, &mut writer.object("key"))`) is a node written on behalf of another type
            NESTED[(id(fn), id(acc[b[0]][0]), kind)] = b[1] is not None and b[1][0] == "node"
            out.append((fn, kind, tables[b], acc[b[0]][0]))
    return out


def _ast_patterns(node):
    """`Enum::Variant` names of nitrogql_ast enum variants tested by patterns below `node`"""
    out = set()
    for x in subnodes(node) if node is not None else []:
        if x.get("k") in ("TupleStruct", "PatExpr") or (x.get("k") == "Struct" and "rest" in x):
            d = norm(x.get("ctor_of") or x.get("def") or "")
            if d.startswith("nitrogql_ast::") and x.get("dk", "").startswith(("Ctor(Variant", "Variant")):
                out.add("::".join(d.split("::")[-2:]))
    return out


def _writes(node, key):
    # a key that is not a literal at the call (parameter of a helper) may be this key
    return node is not None and any(x.get("k") == "MethodCall" and norm(x.get("callee")) in WRITER_KEY_METHODS and x["args"]
                                    and lit_value(x["args"][0]) in (key, None) for x in subnodes(node))


def _only_absent(pat):
    """does the pattern match nothing but `None`"""
    p = pat
    while p.get("k") in ("Ref", "Deref", "Box"):
        p = p["p"]
    if p.get("k") == "Or":
        return all(_only_absent(q) for q in p["ps"])
    return norm(p.get("def") or p.get("ctor_of") or "").endswith("option::Option::None")


def content_condition(g, key):
    """for a guard around the write of `key`: the AST variants for which the key is left out (sorted list) — empty when the guard
    only tests presence, or when every side of it writes the key"""
    if g["kind"] == "arm":
        arms = g["match"]["arms"]
        writing = set().union(*[_ast_patterns(a["pat"]) for a in arms if _writes(a["body"], key)] or [set()])
        out = set()
        for a in arms:
            if _writes(a["body"], key) or _only_absent(a["pat"]):
                continue
            mine = _ast_patterns(a["pat"])
            if mine:
                out |= mine
            elif writing:
                out.add("one of " + "/".join(sorted(writing)))
        return sorted(out)
    if g["kind"] == "cond":
        pats = _ast_patterns(g["e"])
        n = g.get("node") or {}
        other = n.get("else") if g["truth"] else n.get("then")
        return sorted(pats) if pats and not _writes(other, key) else []
    if g["kind"] == "pat":
        pats = _ast_patterns(g["pat"])
        n = g.get("node") or {}
        return sorted(pats) if pats and g["truth"] and not _writes(n.get("els"), key) else []
    return []


def is_projection(f):
    """an accessor: the body is nothing but a field projection / borrow / view of a parameter (`&self.definitions`,
    `self.items.as_slice()`), so what it returns *is* the child, not a node computed from it"""
    e = strip(f.body)
    while e is not None:
        k = e.get("k")
        if k in ("AddrOf", "Unary", "Field", "Cast", "Index"):
            e = strip(e.get("e"))
        elif k == "MethodCall" and e["method"] in ("as_ref", "as_slice", "as_deref", "deref", "borrow", "as_str", "iter") and not e["args"]:
            e = strip(e["recv"])
        elif k == "Path" and "local" in e:
            return any(b.get("local") == e["local"] for p in f.params for b in subnodes(p) if b.get("k") == "Binding")
        else:
            return False
    return False


def r12b(P, R):
    tabs = kind_tables(P, R)
    seen = {}
    for fn, kind, keys, block in tabs:
        seen.setdefault(kind, []).append((fn, keys))
    R.count("json_kinds", len(seen))
    for kind, (req, opt) in sorted(GRAPHQL_JS.items()):
        if kind not in seen:
            if UNKNOWN_KINDS:
                R.undecided("R12-b", "kind:" + kind, "no impl is seen to emit kind `%s`, but %s writes a kind that could not be read" % (kind, sorted(set(UNKNOWN_KINDS))))
            else:
                R.violated("R12-b", "kind:" + kind, "no JsonPrintable impl (with the helpers it calls) emits graphql-js kind `%s`" % kind)
            continue
        for fn, keys in seen[kind]:
            ks = set(keys)
            missing = req - ks
            extra = ks - req - opt
            ok = not missing and not extra
            if missing and not extra and (fn.path, kind) in UNREAD_KEYS:
                R.undecided("R12-b", "keys:%s@%s" % (kind, short(fn.path)), "%s writes a key that is not a literal; whether it is one of %s "
                            "is not decided" % (fn.path, sorted(missing)), loc=fn.loc())
                continue
            R.check("R12-b", "keys:%s@%s" % (kind, short(fn.path)), ok,
                    "keys %s match graphql-js" % sorted(ks),
                    "JSON node `%s` written by %s has keys %s; graphql-js requires %s (optional %s): missing %s, unknown %s"
                    % (kind, fn.path, sorted(ks), sorted(req), sorted(opt), sorted(missing), sorted(extra)),
                    loc=fn.loc())
    for kind in seen:
        if kind not in GRAPHQL_JS:
            R.violated("R12-b", "kind:" + str(kind), "impl emits kind `%s`, which graphql-js does not define" % kind,
                       loc=seen[kind][0][0].loc())
    R.floor("R12-b", "graphql-js kinds", len(seen), 24)
    # key -> source field (T2)
    n = 0
    for fn, kind, keys, block in tabs:
        pv = Prov(fn)
        for key, nodes in keys.items():
            src = KEY_SOURCE.get((kind, key))
            if not src:
                continue
            n += 1
            # atoms of the whole call (receiver chain + args), plus the block for writer objects
            atoms = set()
            for node in nodes:
                atoms |= pv.atoms(node)
            ok = has_field(atoms, "nitrogql_ast::" + src[0], src[1])
            if not ok:
                # array/object writers are filled by later statements: fall back to the kind block
                atoms = pv.atoms(block)
                ok = has_field(atoms, "nitrogql_ast::" + src[0], src[1])
                via = "block"
            else:
                via = "call"
            if not ok and NESTED.get((id(fn), id(block), kind)):
                n -= 1
                continue        # a node of this kind written for a value of another type (no `src[0]` value exists here): the
                                # parent's own key -> field check covers where the data comes from
            R.check("R12-b", "src:%s.%s" % (kind, key), ok,
                    "`%s` is computed from %s.%s (%s)" % (key, src[0], src[1], via),
                    "JSON key `%s` of `%s` is not computed from %s.%s anywhere in its block" % (key, kind, src[0], src[1]),
                    loc=fn.loc())
    R.floor("R12-b", "key->field sources", n, 30)
    # inside the block of one node kind, whether a key is written may depend on the *presence* of the component (`if let Some`,
    # `None => {}`), never on its content: a condition that tests a variant of an AST enum and leaves the key out on one side
    # drops an element of the source document for some values
    for fn, kind, keys, block in tabs:
        for key, nodes in keys.items():
            for node in nodes:
                for g in guards_of(fn, index_of(fn, node), stop=block):
                    why = content_condition(g, key)
                    if why:
                        R.violated("R12-b", "cond:%s.%s" % (kind, key),
                                   "JSON key `%s` of `%s` is written by %s only when the value is not %s: an element that is present in the "
                                   "source is left out of the document depending on its content (an optional key may only be absent when the "
                                   "source has no such element)" % (key, kind, fn.path, why), loc=fn.loc())
    # child nodes are printed as they are: the receiver of a nested print_json is an AST value reached by field projection /
    # iteration (or a json_printer adapter around one), never the result of an AST helper that computes a different node
    sites = 0
    for p in json_scope(P):
        f = P.fns[p]
        pv = Prov(f)
        for c in f.walk():
            if c.get("k") == "MethodCall" and c.get("method") == "print_json":
                sites += 1
                through = sorted({x[1] for x in pv.data_atoms(c["recv"]) if x[0] == "call" and x[1] in P.fns and JSON_MOD not in x[1]
                                  and not is_projection(P.fns[x[1]])})
                R.check("R12-b", "child-direct:%s" % short(f.path), not through, "nested nodes are printed unchanged",
                        "%s prints a nested node obtained through %s instead of the AST child itself: the emitted document differs from the "
                        "source (e.g. list / non-null wrappers of a variable type are lost)" % (f.path, [short(t) for t in through]), loc=f.loc())
    # the control count is taken per impl with its helpers inlined, so that sharing a loop between impls does not lower it
    per_impl = sum(1 for fn0 in P.trait_impls(TRAIT, "print_json") for c in inlined(P, fn0, pred=_not_printable).walk()
                   if c.get("k") == "MethodCall" and c.get("method") == "print_json")
    R.floor("R12-b", "nested print_json sites", per_impl if sites else 0, NESTED_SITES_FLOOR)


# ------------------------------------------------------------------------------------------------------ closure traversal
PUSHES = ("push", "push_back", "push_front", "extend", "append", "insert")
MEMBERSHIP = ("contains", "insert", "contains_key", "replace", "any", "all", "position", "rposition", "find", "binary_search", "get")   # incl. `iter().any(|n| n == key)`
EXHAUST = ("pop", "pop_front", "pop_back", "next", "next_back", "last", "last_mut", "first", "first_mut", "is_empty", "len", "peek", "peek_mut",
           "front", "back", "front_mut", "back_mut")


def _ast_fields(atoms):
    return {(x[1].split("::")[-1], x[2]) for x in atoms if x[0] == "field" and (x[1] or "").startswith("nitrogql_ast::")}


def r12c(P, R):
    """closure traversal of the fragment-closure function, whatever carries it (recursion, or a loop over an explicit work list)"""
    A = anchors(P)
    C, T, scope = A.closure, A.closure_T, A.closure_scope
    loc = C.loc()
    pv = Prov(T)
    # every Selection variant is matched somewhere in the traversal (match arm, if-let, let-else ...)
    need_v = set(P.adt("selection_set::Selection").variant_names())
    got_v = set()
    for f in scope:
        got_v |= pattern_variants(list(f.walk()), "selection_set::Selection")
    R.check("R12-c", "variants", need_v <= got_v, "all Selection variants handled explicitly",
            "fragment closure never matches Selection variant(s) %s: selections of that kind contribute nothing" % sorted(need_v - got_v), loc=loc)
    # descent: the nested selection sets flow into a recursive call or onto the work list
    paths = {f.path for f in scope}
    sinks = []
    for n in T.walk():
        if n.get("k") in ("Call", "MethodCall") and "inl" not in n and call_name(n) in paths:
            sinks.extend(a for a in ([n["recv"]] if n.get("k") == "MethodCall" else []) + n["args"] if "selection_set::Selection" in norm(a.get("t") or ""))
        elif n.get("k") == "MethodCall" and n["method"] in PUSHES and "selection_set::Selection" in norm(n.get("recv_ty") or ""):
            sinks.extend(n["args"])
    fields = set()
    for a in sinks:
        fields |= _ast_fields(pv.atoms(a))
    need = {("Field", "selection_set"), ("InlineFragment", "selection_set"), ("FragmentDefinition", "selection_set")}
    read = set()
    for f in scope:
        read |= {((a or "").split("::")[-1], fl) for a, fl in field_reads(f)}
    unread = sorted(need - fields - read)
    unflowing = sorted((need - fields) & read)
    if not sinks:
        R.undecided("R12-c", "descent", "neither a recursive call nor a work-list push carrying selections found in %s" % C.path, loc=loc)
    elif unread:
        R.violated("R12-c", "descent", "fragment closure does not descend into %s: the field is read nowhere in the traversal" % unread, loc=loc, detail=sorted(fields))
    elif unflowing:
        R.undecided("R12-c", "descent", "%s is read by the traversal but does not flow into a recognised descent (recursive call / work-list push)" % unflowing, loc=loc)
    else:
        R.holds("R12-c", "descent", "the traversal descends into Field, InlineFragment and the spread fragment's selection sets", loc=loc)
    # de-duplication: every push of a spread name onto a collection of names is dominated by a membership test on the same key.
    # Sites are found on the inlined traversal (a name that reaches a helper as a parameter is still the spread's name); dominance
    # is decided in the MIR of the function that owns both sites
    SPREAD = ("field", "nitrogql_ast::selection_set::FragmentSpread", "fragment_name")
    accT = T.nodes()

    def owner(i):
        p = accT[i][1]
        while p >= 0:
            if "inl" in accT[p][0]:
                return accT[p][0]["inl"]["fn"]
            p = accT[p][1]
        return C.path

    def consumed(i):
        p = accT[i][1]
        while p >= 0 and accT[p][0].get("k") in ("DropTemps", "Paren", "Use"):
            p = accT[p][1]
        return p >= 0 and accT[p][0].get("k") != "Stmt"
    names_calls = [(i, n) for i, (n, _) in enumerate(accT) if n.get("k") == "MethodCall" and n["args"] and "str" in norm(n.get("recv_ty") or "")]
    pushes = [(i, n) for i, n in names_calls if n["method"] in PUSHES and SPREAD in pv.atoms(n["args"][-1])]
    tests = [(i, n) for i, n in names_calls if n["method"] in MEMBERSHIP and SPREAD in pv.atoms(n["args"][0]) and consumed(i)]
    for i, p in pushes:
        f = P.fns.get(owner(i))
        floc = f.loc() if f is not None else loc
        if "Set<" in norm(p.get("recv_ty") or ""):
            if not any(n is not p and not ("Set<" in norm(n.get("recv_ty") or "")) for _, n in pushes):
                R.holds("R12-c", "dedup", "names are collected in a set", loc=floc)
            continue
        mine = [n for j, n in tests if n is not p and owner(j) == owner(i)]
        R.check("R12-c", "dedup", bool(mine), "a membership test on the spread name guards the push of the same key",
                "fragment names are not de-duplicated by a membership test on the pushed key: %s pushes the spread name with no "
                "contains/insert test on it in any condition" % owner(i), loc=floc)
        mq = MirQ(P.mir[owner(i)]) if owner(i) in P.mir else None
        if mine and mq is not None:
            tb, pb = mir_blocks(mq, mine), mir_blocks(mq, [p])
            if not tb or not pb:
                R.undecided("R12-c", "dedup-dom", "the membership test / the push could not be located in the MIR of %s" % owner(i), loc=floc)
            else:
                R.check("R12-c", "dedup-dom", all(any(mq.dominates(t, b) for t in tb) for b in pb),
                        "the membership test dominates the push in MIR", "push of a fragment name is not dominated by the membership test", loc=floc)
    if not pushes:
        R.undecided("R12-c", "dedup", "no push of a spread's name onto a collection of names found in %s (or its helpers)" % C.path, loc=loc)


def pushed_first(rt, pv, ext, me, is_cl):
    """`let mut list = Vec::new()/with_capacity(..); list.push(definition); list.extend(closure)`: the receiver of `ext` is a
    local created empty, and everything pushed onto it before `ext` is the definition itself"""
    r = strip(ext["recv"])
    while r is not None and r.get("k") in ("AddrOf", "Unary"):
        r = strip(r.get("e"))
    if r is None or r.get("k") != "Path" or "local" not in r:
        return False
    inits = [src for src, _ in pv.src.get(r["local"], [])]
    if len(inits) != 1 or inits[0] is None or strip(inits[0]).get("k") != "Call" or \
            (call_name(strip(inits[0])) or "").split("::")[-1] not in ("new", "with_capacity", "default"):
        return False
    order = {id(n): i for i, (n, _) in enumerate(rt.nodes())}
    before = [n for n in rt.walk() if n.get("k") == "MethodCall" and n["method"] in PUSHES and n["args"] and strip(n["recv"]).get("k") == "Path"
              and strip(n["recv"]).get("local") == r["local"] and order[id(n)] < order[id(ext)]]
    return bool(before) and all(("param", me) in pv.atoms(n["args"][-1]) and not any(is_cl(a) for a in pv.atoms(n["args"][-1])) for n in before)


def r12d(P, R):
    """single source: runtime documents are built only through the two runtime printers"""
    from templates import LOSSY_OR_REORDERING as LOSSY
    A = anchors(P)
    op_rt, fr_rt, C = A.op_rt, A.fr_rt, A.closure
    R.check("R12-d", "json-callers", not A.others,
            "print_to_json_string is called only by the two runtime printers",
            "print_to_json_string has other callers than the runtime printers %s / %s: %s" % (short(op_rt.path), short(fr_rt.path), A.others))
    visitors = P.trait_impls("operation_base_printer::visitor::OperationPrinterVisitor")
    for role, adt, rt in (("print_operation_definition", OPDEF, op_rt), ("print_fragment_definition", FRDEF, fr_rt)):
        vs = [f for f in visitors if f.name == role]
        if not vs:
            R.undecided("R12-d", "visitor:" + role, "no OperationPrinterVisitor impl has a method `%s` (renamed?); which visitor method prints the "
                        "runtime document is not decided" % role)
        for v in vs:
            reach = P.reachable([v])
            is_js = "operation_js_printer" in v.path
            if is_js:
                R.check("R12-d", "js:" + role, rt.path in reach, "JS visitor prints the runtime document via %s" % rt.name,
                        "JS visitor %s does not reach %s" % (v.path, rt.path), loc=v.loc())
            else:
                R.check("R12-d", "ts:" + role, rt.path in reach, "TS visitor prints runtime values via %s" % rt.name,
                        "TS visitor %s does not reach %s (print_values path)" % (v.path, rt.path), loc=v.loc())
    # document assembly: [X] ++ closure, X first; closure from the closure function applied to X's selection set
    si = _param_of(C, SELSET)
    for role, rt0, adt, allowed in (("operation", op_rt, OPDEF, {"selection_set"}), ("fragment", fr_rt, FRDEF, {"selection_set", "name"})):
        rt = inlined(P, rt0, pred=A.not_closure)        # a shared helper that assembles and prints the document is seen through
        pv = Prov(rt)
        acc = rt.nodes()
        me = pv.params.get(rt.params[_param_of(rt, adt)].get("local"))
        fcalls = [i for i, (n, _) in enumerate(acc) if n.get("k") in ("Call", "MethodCall") and call_name(n) == C.path]
        if not fcalls:
            R.undecided("R12-d", "closure-root:" + rt.name, "%s does not call %s directly" % (rt.path, C.path), loc=rt.loc())
            continue
        call = acc[fcalls[0]][0]
        cargs = ([call["recv"]] if call.get("k") == "MethodCall" else []) + call["args"]
        ok = si < len(cargs) and has_field(pv.atoms(cargs[si]), adt, "selection_set")
        R.check("R12-d", "closure-root:" + rt.name, ok, "closure is computed from the definition's own selection set",
                "%s does not compute the fragment closure from its definition's selection_set" % rt.path, loc=rt.loc())
        # nothing else of the definition decides which fragments belong to the document
        extra = {}
        for ai, a in enumerate(cargs):
            for x in pv.atoms(a):
                if x[0] == "field" and x[1] == adt and x[2] not in allowed:
                    extra.setdefault(ai, set()).add(x[2])
        if not extra:
            R.holds("R12-d", "closure-inputs:" + rt.name, "the closure depends on nothing of the %s but %s" % (role, sorted(allowed)), loc=rt.loc())
        else:
            CT = A.closure_T
            cpv = Prov(CT)
            names = {ai: cpv.params.get(CT.params[ai].get("local")) for ai in extra if ai < len(CT.params)}
            deciding = set()
            for n in CT.walk():
                g = n["cond"] if n.get("k") == "If" else (n["scrut"] if n.get("k") == "Match" and n.get("src") == "Normal" else None)
                if g is not None:
                    deciding |= {ai for ai, nm in names.items() if nm and ("param", nm) in cpv.atoms(g)}
            fields = sorted({"%s.%s" % (adt.split("::")[-1], f) for ai in extra for f in extra[ai]})
            if deciding:
                R.violated("R12-d", "closure-inputs:" + rt.name,
                           "%s passes %s into the fragment closure, where it decides a branch of the traversal: which fragments are part of the "
                           "%s's document depends on more than its selection set (a fragment is left out of / added to the document because of "
                           "the %s's own %s)" % (rt.path, fields, role, role, sorted({f for ai in deciding for f in extra[ai]})), loc=rt.loc())
            else:
                R.undecided("R12-d", "closure-inputs:" + rt.name, "%s passes %s into the fragment closure; its influence is not decided" % (rt.path, fields), loc=rt.loc())
        # order
        # `first.chain(rest)` or `list.extend(rest)` (the list being created with `first` in it)
        is_cl = lambda a: a[0] == "call" and a[1] == C.path
        chains = [n for n in rt.walk() if n.get("k") == "MethodCall" and n["args"] and (n.get("method") == "chain" or (
            n.get("method") in ("extend", "append", "extend_from_slice") and any(is_cl(a) for a in pv.atoms(n["args"][0]))))]
        if len(chains) != 1:
            R.undecided("R12-d", "order:" + rt.name, "how %s assembles the list of definitions is not recognised (no single `chain`/`extend`)" % rt.path, loc=rt.loc())
        else:
            ra, aa = pv.atoms(chains[0]["recv"]), pv.atoms(chains[0]["args"][0])
            first, rest = ("param", me) in ra, any(is_cl(a) for a in aa)
            if first and rest and not any(is_cl(a) for a in ra):
                R.holds("R12-d", "order:" + rt.name, "document = [definition] ++ closure (definition first)", loc=rt.loc())
            elif rest and chains[0]["method"] != "chain" and pushed_first(rt, pv, chains[0], me, is_cl):
                R.holds("R12-d", "order:" + rt.name, "document = empty list, push(definition), extend(closure) (definition first)", loc=rt.loc())
            elif any(is_cl(a) for a in ra) and ("param", me) in aa and not first:
                R.violated("R12-d", "order:" + rt.name, "%s assembles the document as the fragment closure followed by the definition; the "
                           "definition must come first" % rt.path, loc=rt.loc())
            else:
                R.undecided("R12-d", "order:" + rt.name, "the two sides of `chain` in %s are not recognised as definition / closure" % rt.path, loc=rt.loc())
        # the expression that turns the closure into the rest of the document: the method chain on the call, and in-place
        # operations on the local it is bound to
        if True:
            tops = []
            for i in fcalls:
                j = i
                while acc[j][1] >= 0 and acc[acc[j][1]][0].get("k") == "MethodCall" and acc[acc[j][1]][0]["recv"] is acc[j][0]:
                    j = acc[j][1]
                tops.append(acc[j][0])
                # ... or the names are bound to a local that is then narrowed in place (`names.retain(|n| *n != fragment.name.name)`)
                p = acc[j][1]
                while p >= 0 and acc[p][0].get("k") in ("DropTemps", "Paren", "Use"):
                    p = acc[p][1]
                if p >= 0 and acc[p][0].get("k") == "Let" and acc[p][0]["pat"].get("k") == "Binding":
                    lid = acc[p][0]["pat"]["local"]
                    tops.extend(n for n in rt.walk() if n.get("k") == "MethodCall" and strip(n["recv"]).get("k") == "Path"
                                and strip(n["recv"]).get("local") == lid)
        if role == "operation":
            # an operation's document keeps every fragment of the closure: nothing of the operation but its selection set may
            # take part in a narrowing step (fragment names and operation names are different namespaces)
            narrowing = [x for t in tops for x in subnodes(t) if x.get("k") == "MethodCall" and x["method"] in LOSSY and x["args"]]
            bad = sorted({"%s by OperationDefinition.%s" % (x["method"], a[2]) for x in narrowing for arg in x["args"] for a in pv.atoms(arg)
                          if a[0] == "field" and a[1] == OPDEF and a[2] not in allowed})
            if bad:
                R.violated("R12-d", "closure-filter:" + rt.name,
                           "%s narrows the fragment closure of an operation with %s: a fragment whose name equals the operation's own %s is left "
                           "out of the operation's document although it is spread (fragment names and operation names are separate namespaces; "
                           "only a fragment's document excludes the definition itself)" % (rt.path, bad, "name"), loc=rt.loc())
            else:
                R.holds("R12-d", "closure-filter:" + rt.name, "nothing of the operation narrows its fragment closure", loc=rt.loc())
        # the fragment itself appears exactly once: its own name takes part in computing the rest of the document
        if role == "fragment":
            ok = any(has_field(pv.atoms(t), FRDEF, "name") for t in tops)
            if ok:
                R.holds("R12-d", "self-filter", "the fragment itself is filtered out of its own closure (appears exactly once)", loc=rt.loc())
            elif has_field(pv.atoms(rt.body), FRDEF, "name"):
                R.undecided("R12-d", "self-filter", "%s reads the fragment's name, but not in the expression that computes the closure" % rt.path, loc=rt.loc())
            else:
                R.violated("R12-d", "self-filter", "%s does not filter the fragment itself from the closure: its own name is read nowhere, so a "
                           "fragment that (transitively) spreads itself is emitted twice" % rt.path, loc=rt.loc())


def r12f(P, R):
    """the runtime printers keep no state between documents"""
    A = anchors(P)
    holders = global_state_holders(P)
    R.floor("R12-f", "global state holders found in the workspace (detector control)", len(holders), 6)
    entries = [A.op_rt, A.fr_rt, A.ptjs]
    scope = [P.fns[p] for p in P.reachable(entries) if not P.fns[p].derived]
    ALLOWED = {"nitrogql_ast::current_file::CURRENT_FILE_OF_POS": "file index stamped into positions while parsing; not read by the runtime printers' output path"}
    uses = global_state_uses(P, scope, holders)
    bad = 0
    for f, h, missing, key in uses:
        if h in ALLOWED:
            continue
        bad += 1
        if missing is None:
            R.undecided("R12-f", "state:%s" % short(h), "%s uses global state %s without a keyed access; its effect on the output is not decided" % (f.path, h), loc=f.loc())
        elif missing:
            R.violated("R12-f", "state:%s" % short(h), "%s caches results in the thread-local/static %s keyed by %s only, but the cached value also depends on "
                       "%s: the runtime document printed for one file depends on which documents were printed before it" % (f.path, h, key, missing), loc=f.loc())
        else:
            R.undecided("R12-f", "state:%s" % short(h), "%s caches in %s with a key covering all its inputs" % (f.path, h), loc=f.loc())
    if not bad:
        R.holds("R12-f", "stateless", "%d functions reachable from the runtime printers touch no global state holder (of %d in the workspace)" % (len(scope), len(holders)))


def r12e(P, R):
    """lossless traversal: no early exit from the traversal loops, no filtering/reordering adaptor on AST data"""
    from templates import LOSSY_OR_REORDERING
    A = anchors(P)
    C = A.closure
    # an exit from a traversal loop that depends on what was found (a membership test, a component of the selection) drops the
    # remaining selections; leaving the loop because the work list is exhausted is how such a loop ends
    exits = undecided = 0
    for f in A.closure_scope:
        acc = f.nodes()
        for j, (n, _) in enumerate(acc):
            if n.get("k") not in ("Ret", "Break") or "desugar" in (n.get("x") or ""):
                continue
            p, loop = acc[j][1], None
            while p >= 0 and loop is None:
                if acc[p][0].get("k") == "Loop":
                    loop = acc[p][0]
                elif acc[p][0].get("k") == "Closure":
                    break
                p = acc[p][1]
            if loop is None:
                continue
            gs = [g for g in guards_of(f, j, stop=loop) if g["kind"] in ("cond", "pat", "arm")]
            content = [x for g in gs if g["e"] is not None for x in subnodes(g["e"]) if (x.get("k") == "MethodCall" and x["method"] in MEMBERSHIP)
                       or (x.get("k") == "Field" and (x.get("adt") or "").startswith("nitrogql_ast::"))]
            exhaust = bool(gs) and all((strip(g["e"]) or {}).get("k") == "MethodCall" and strip(g["e"])["method"] in EXHAUST for g in gs)
            if content:
                exits += 1
                what = sorted({x["method"] if x.get("k") == "MethodCall" else x["field"] for x in content})
                R.violated("R12-e", "closure:no-early-exit",
                           "%s leaves the loop over selections early (`%s` under a condition on %s): later sibling selections are never scanned, "
                           "so fragments spread only there are missing from the document" % (f.path, "return" if n["k"] == "Ret" else "break", what), loc=f.loc())
            elif not exhaust:
                undecided += 1
                R.undecided("R12-e", "closure:no-early-exit", "%s leaves a loop early under a condition that is not recognised" % f.path, loc=f.loc())
    # ... and no selection is passed over because of what it *contains*: a `continue` (or a helper's early `return`) inside a
    # traversal loop, or a narrowing adaptor over the selections, may be decided by the kind of the selection, the set of names
    # already seen, the presence of a nested selection set and the fragment lookup — not by any other component (directives,
    # arguments, ...): the JSON printer emits the selection all the same, so the document would spread a fragment it does not define
    ALLOWED = {("Field", "selection_set"), ("InlineFragment", "selection_set"), ("FragmentDefinition", "selection_set"),
               ("SelectionSet", "selections"), ("FragmentSpread", "fragment_name"), ("Ident", "name")}
    T = A.closure_T
    tp = Prov(T)
    accT = T.nodes()
    skipped = set()
    for j, (n, _) in enumerate(accT):
        if n.get("k") in ("Continue", "InlRet") and "desugar" not in (n.get("x") or ""):
            p, loop = accT[j][1], None
            while p >= 0 and loop is None:
                if accT[p][0].get("k") == "Loop":
                    loop = accT[p][0]
                p = accT[p][1]
            if loop is None:
                continue
            for g in guards_of(T, j, stop=loop):
                if g["kind"] in ("cond", "pat", "arm") and g["e"] is not None:
                    skipped |= _ast_fields(tp.deep_atoms(g["e"])) - ALLOWED
        elif n.get("k") == "MethodCall" and n["method"] in LOSSY_OR_REORDERING and n["args"] \
                and "selection_set::Selection" in norm(n.get("recv_ty") or ""):
            for a in n["args"]:
                skipped |= _ast_fields(tp.deep_atoms(a)) - ALLOWED
    if skipped:
        R.violated("R12-e", "closure:content-skip",
                   "%s passes over a selection depending on %s: the fragment closure becomes conditional on the content of a selection "
                   "(not on its kind, the names already seen or the fragment lookup) while the JSON printer still emits that selection — "
                   "the embedded document can spread a fragment it does not define" % (C.path, sorted("%s.%s" % x for x in skipped)), loc=C.loc())
    else:
        R.holds("R12-e", "closure:content-skip", "no selection is passed over because of its content", loc=C.loc())
    if not exits and not undecided:
        R.holds("R12-e", "closure:no-early-exit", "the fragment-closure loops visit every selection (only `continue` skips one; a loop ends when its work list is exhausted)",
                loc=C.loc())
    scope = json_scope(P)
    n = 0
    for p in scope:
        f = P.fns[p]
        pv = None
        for c in f.walk():
            if c.get("k") == "MethodCall":
                n += 1
                if c["method"] in LOSSY_OR_REORDERING:
                    pv = pv or Prov(f)
                    a = pv.atoms(c["recv"])
                    if _ast_fields(a) or any(x[0] == "param" for x in a):
                        R.violated("R12-e", "lossy:%s:%s" % (short(f.path), c["method"]),
                                   "%s applies `%s` while printing: a component of the source document can be dropped or reordered"
                                   % (f.path, c["method"]), loc=f.loc())
                    else:
                        R.undecided("R12-e", "lossy:%s:%s" % (short(f.path), c["method"]), "%s applies `%s` to a value that does not come from the document"
                                    % (f.path, c["method"]), loc=f.loc())
        exits = [x for x in f.walk() if x.get("k") == "Break" and "desugar" not in (x.get("x") or "")]
        if exits:
            R.violated("R12-e", "early-break:" + short(f.path), "%s breaks out of a printing loop" % f.path, loc=f.loc())
        # an element of a printed list passed over (`continue` / `return` inside the loop) because of what it contains or because
        # "an equal one" was seen: every element of the source is part of the document
        facc = f.nodes()
        for j, (x, _) in enumerate(facc):
            if x.get("k") not in ("Continue", "Ret") or "desugar" in (x.get("x") or ""):
                continue
            p, loop = facc[j][1], None
            while p >= 0 and loop is None:
                if facc[p][0].get("k") == "Loop":
                    loop = facc[p][0]
                elif facc[p][0].get("k") == "Closure":
                    break
                p = facc[p][1]
            if loop is None:
                continue
            gs = [g for g in guards_of(f, j, stop=loop) if g["kind"] in ("cond", "pat", "arm") and g["e"] is not None]
            what = sorted({y["method"] if y.get("k") == "MethodCall" else "%s.%s" % (y["adt"].split("::")[-1], y["field"])
                           for g in gs for y in subnodes(g["e"])
                           if (y.get("k") == "MethodCall" and y["method"] in MEMBERSHIP and y["method"] != "get")
                           or (y.get("k") == "Field" and (y.get("adt") or "").startswith("nitrogql_ast::"))})
            if what:
                R.violated("R12-e", "skip:" + short(f.path), "%s passes over an element of a printed list (`%s` under a condition on %s): a "
                           "definition/component that is present in the source is left out of the document depending on its content or on "
                           "an equality with an earlier element (positions of different files can coincide)"
                           % (f.path, "continue" if x["k"] == "Continue" else "return", what), loc=f.loc())
            else:
                R.undecided("R12-e", "skip:" + short(f.path), "%s leaves an iteration of a printing loop early under a condition that is not "
                            "recognised" % f.path, loc=f.loc())
    R.holds("R12-e", "lossy:none", "%d method calls in %d JSON-printer functions, none filters/reorders" % (n, len(scope)))
    R.floor("R12-e", "method calls inspected", n, 50)
    # the runtime printers: at most the self-filter of the fragment printer (checked in R12-d) narrows the closure
    for f, allowed in ((A.op_rt, 0), (A.fr_rt, 1)):
        lossy = [c["method"] for c in f.walk() if c.get("k") == "MethodCall" and c["method"] in LOSSY_OR_REORDERING]
        R.check("R12-e", "runtime-lossy:" + f.name, len(lossy) <= allowed,
                "no unexpected filtering of the fragment closure",
                "%s applies %s to the fragment closure (at most %d such adaptor expected)" % (f.path, lossy, allowed), loc=f.loc())


RULES = [("R12-e", r12e), ("R12-f", r12f), ("R12-a", r12a), ("R12-b", r12b), ("R12-c", r12c), ("R12-d", r12d)]

EXPLANATION = (
    "Static structural necessary conditions for C12 decided on the type-checked program, with anchors located by role (the runtime "
    "printers are the callers of print_to_json_string that receive an OperationDefinition / a FragmentDefinition, the closure "
    "function is the SelectionSet -> names function both call) and helper functions seen through by virtual inlining: (R12-a) every "
    "content field of every executable AST type is read by some function of the JSON printer reachable "
    "from print_to_json_string (non-interference: an unread field cannot influence the emitted document, "
    "for all inputs); (R12-b) the kind/key table of every JsonPrintable impl (with the helpers it calls) equals graphql-js's AST "
    "shape and each key is computed from the AST field that carries it; nested nodes are printed unchanged; (R12-c) the fragment "
    "closure matches all Selection variants, lets all three nested selection sets flow into its recursion or work list, and "
    "de-duplicates by a membership test that dominates the push of a name; (R12-d) runtime documents are assembled only by the two "
    "runtime printers as [definition] ++ closure, the closure is computed from the definition's selection set and from nothing else "
    "of an operation, a fragment's own name takes part in its closure (self-filter), and both the TS and JS visitor use them; "
    "(R12-e) no traversal loop is left early under a condition on what was found, no filtering/reordering adaptor touches document "
    "data; (R12-f) no global state between documents. Not decided: equality of abstract documents for all inputs.")
ASSUMPTIONS = ["json_writer crate escapes strings and nests objects correctly (third-party, trusted)",
               "rustc's type checker and the HIR/MIR emitted by nightly 1.97 (facts are read from them)",
               "graphql-js AST shape table transcribed by hand from language/ast.d.ts (v16)"]


def main(tier):
    return harness.run_property("C12", RULES, "other", EXPLANATION, ASSUMPTIONS, tier)
