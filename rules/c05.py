"""C05 — Schema `check` verdict is exact on the implemented type-system rules (structural clauses)."""
import re
import harness
from facts import (norm, call_name, short, subnodes, lit_value, matches_on, arm_variants, field_reads, peel_ty, str_lits_in, AnchorMissing)
from prov import Prov, has_field, has_call
from templates import (field_coverage, enclosing_contexts, variant_table, recursion_discipline, iterator_reuse, inlined)
from c03 import directive_sites, none_handling

CHK = "nitrogql_checker"
CK = CHK + "::"
TS = "nitrogql_ast::type_system::"
ERR = CK + "error::CheckErrorMessage"

# spec locations of type-system positions; InputValueDefinition depends on its container
TS_LOCATIONS = {
    ("SchemaDefinition", "directives"): "SCHEMA",
    ("ScalarTypeDefinition", "directives"): "SCALAR",
    ("ObjectTypeDefinition", "directives"): "OBJECT",
    ("FieldDefinition", "directives"): "FIELD_DEFINITION",
    ("InterfaceTypeDefinition", "directives"): "INTERFACE",
    ("UnionTypeDefinition", "directives"): "UNION",
    ("EnumTypeDefinition", "directives"): "ENUM",
    ("EnumValueDefinition", "directives"): "ENUM_VALUE",
    ("InputObjectTypeDefinition", "directives"): "INPUT_OBJECT",
}
INPUT_VALUE_CONTAINER = {
    ("ArgumentsDefinition", "input_values"): "ARGUMENT_DEFINITION",
    ("InputObjectTypeDefinition", "fields"): "INPUT_FIELD_DEFINITION",
}

TS_AST = ["TypeSystemDocument", "SchemaDefinition", "ScalarTypeDefinition", "ObjectTypeDefinition", "FieldDefinition",
          "InterfaceTypeDefinition", "UnionTypeDefinition", "DirectiveDefinition", "ArgumentsDefinition", "InputValueDefinition",
          "EnumTypeDefinition", "EnumValueDefinition", "InputObjectTypeDefinition"]
EXEMPT = {
    ("InputValueDefinition", "default_value"): "the property lists no rule on default values of arguments/input fields",
    ("SchemaDefinition", "definitions"): "no listed rule governs root operation type definitions",
    ("SchemaDefinition", "description"): "descriptions carry no validation rule",
    ("ScalarTypeDefinition", "description"): "descriptions carry no validation rule",
    ("ObjectTypeDefinition", "description"): "descriptions carry no validation rule",
    ("FieldDefinition", "description"): "descriptions carry no validation rule",
    ("InterfaceTypeDefinition", "description"): "descriptions carry no validation rule",
    ("UnionTypeDefinition", "description"): "descriptions carry no validation rule",
    ("DirectiveDefinition", "description"): "descriptions carry no validation rule",
    ("InputValueDefinition", "description"): "descriptions carry no validation rule",
    ("EnumTypeDefinition", "description"): "descriptions carry no validation rule",
    ("EnumValueDefinition", "description"): "descriptions carry no validation rule",
    ("InputObjectTypeDefinition", "description"): "descriptions carry no validation rule",
    ("DirectiveDefinition", "repeatable"): "read when the directive is applied (check_directives via the type-system Schema), not when it is defined",
    ("DirectiveDefinition", "locations"): "read when the directive is applied (check_directives via the type-system Schema), not when it is defined",
}

TS_RULE_SITES = {
    "UnscoUnsco": 11, "DuplicatedName": 6, "UnknownType": 7, "RecursingDirective": 1, "NoOutputType": 2, "NoInputType": 2,
    "NotInterface": 2, "InterfaceNotImplemented": 1, "NoImplementSelf": 1, "InterfaceFieldNotImplemented": 1,
    "FieldTypeMisMatchWithInterface": 1, "InterfaceArgumentNotImplemented": 1, "ArgumentTypeMisMatchWithInterface": 1,
    "ArgumentTypeNonNullAgainstInterface": 1, "NonObjectTypeUnionMember": 1,
    "UnknownDirective": 1, "DirectiveLocationNotAllowed": 1, "RepeatedDirective": 1,
}


def entry(P):
    # by role: the checker's fn(&TypeSystemDocument) -> Vec<CheckError>; the reference-tree name is the fall-back
    hits = [f for f in P.fns.values() if f.crate == CHK and f.kind in ("Fn", "AssocFn") and not f.derived and "::tests" not in f.path
            and f.sig_inputs == ["&" + TS + "TypeSystemDocument"] and (f.sig_output or "").startswith("alloc::vec::Vec<" + CK + "error::CheckError")]
    if len(hits) == 1:
        return hits[0]
    return P.fn(CK + "type_system_checker::check_type_system_document")


def scope(P):
    reach = P.reachable([entry(P)])
    return sorted(p for p in reach if not P.fns[p].derived)


# ------------------------------------------------------------------------------------------------- positions (role anchors)
# A *position* is a kind of type-system node the checker has a function for.  The function is located by its role — the function
# reachable from the entry whose first parameter is `&<that node>` (the one the others are called from, if a refactoring added
# helpers with the same first parameter) — and the reference-tree name is only a fall-back.  The *region* of a position is what
# that function reaches without entering another position's function: extracting part of a checker into helpers, or moving it to
# another module, leaves the region's content unchanged.
POSITIONS = {"SchemaDefinition": "check_schema", "ScalarTypeDefinition": "check_scalar", "ObjectTypeDefinition": "check_object",
             "InterfaceTypeDefinition": "check_interface", "UnionTypeDefinition": "check_union", "EnumTypeDefinition": "check_enum",
             "InputObjectTypeDefinition": "check_input_object", "ArgumentsDefinition": "check_arguments_definition",
             "DirectiveDefinition": "check_directive"}
_POS = {}


def _node_param(f):
    """index of the parameter that carries the node a checker function is about: the first one, or the one after the receiver
    when the checker is a method of a context object; None if that parameter is not a reference"""
    i = 0
    if f.self_adt and f.sig_inputs and peel_ty(f.sig_inputs[0]).split("<")[0] == f.self_adt:
        i = 1
    if i < len(f.sig_inputs) and f.sig_inputs[i].startswith("&"):
        return i
    return None


def _positions(P):
    if _POS.get("P") is P:
        return _POS
    _POS.clear()
    _POS["P"] = P
    fns = {}
    sc = [P.fns[p] for p in scope(P) if P.fns[p].crate == CHK and P.fns[p].kind in ("Fn", "AssocFn")]
    for adt, name in POSITIONS.items():
        cands = [f for f in sc if _node_param(f) is not None and peel_ty(f.sig_inputs[_node_param(f)]) == TS + adt]
        if len(cands) > 1:
            roots = [c for c in cands if not any(c.path in P.callees_of(o)[0] for o in cands if o is not c)]
            cands = roots if len(roots) == 1 else cands
        if len(cands) == 1:
            fns[adt] = cands[0]
        else:
            fns[adt] = P.fn(CK + "type_system_checker::" + name, required=False)
    _POS["fns"] = fns
    paths = {f.path for f in fns.values() if f is not None}
    _POS["pred"] = lambda g, paths=paths: g.path not in paths and g.path != CK + "common::check_directives"
    _POS["regions"] = {}
    _POS["inl"] = {}
    return _POS


def position_fn(P, adt):
    f = _positions(P)["fns"].get(adt)
    if f is None:
        raise AnchorMissing("the checker function for `%s` nodes (first parameter `&%s`) was not identified" % (adt, adt))
    return f


def region(P, adt):
    """functions of the checker crate reachable from the position's function without entering another position's function"""
    st = _positions(P)
    if adt not in st["regions"]:
        f = position_fn(P, adt)
        stop = {g.path for a, g in st["fns"].items() if g is not None and a != adt}
        st["regions"][adt] = [P.fns[p] for p in sorted(P.reachable([f], stop=stop)) if P.fns[p].crate == CHK and not P.fns[p].derived]
    return st["regions"][adt]


def position_inlined(P, adt):
    """the position's function with its helpers attached (templates.inlined), other positions' functions and check_directives
    left as calls"""
    st = _positions(P)
    if adt not in st["inl"]:
        st["inl"][adt] = inlined(P, position_fn(P, adt), pred=st["pred"])
    return st["inl"][adt]


def _guarded(R, rule, key, fn, *a):
    """run one clause; an anchor it cannot resolve leaves only that clause undecided"""
    try:
        fn(*a)
    except AnchorMissing as e:
        R.undecided(rule, key, "kind=anchor-missing: %s (this clause cannot be evaluated on this shape of the code)" % e)


def diag_sites(nodes):
    """variant names of the CheckErrorMessage constructions among `nodes`"""
    out = []
    for x in nodes:
        if x.get("k") == "Struct" and "rest" not in x and norm(x.get("adt", "")) == ERR:
            out.append(norm(x["variant"]).split("::")[-1])
        elif x.get("k") == "Path" and x.get("dk", "").startswith("Ctor") and norm(x.get("adt", "")) == ERR:
            out.append(norm(x["def"]).split("::")[-1])
    return out


# directives: (element whose `directives` are validated, position whose region must contain the validation)
DIR_NEED = [("SchemaDefinition", "SchemaDefinition"), ("ScalarTypeDefinition", "ScalarTypeDefinition"),
            ("ObjectTypeDefinition", "ObjectTypeDefinition"), ("FieldDefinition", "ObjectTypeDefinition"),
            ("InterfaceTypeDefinition", "InterfaceTypeDefinition"), ("FieldDefinition", "InterfaceTypeDefinition"),
            ("UnionTypeDefinition", "UnionTypeDefinition"), ("EnumTypeDefinition", "EnumTypeDefinition"),
            ("EnumValueDefinition", "EnumTypeDefinition"), ("InputObjectTypeDefinition", "InputObjectTypeDefinition"),
            ("InputValueDefinition", "InputObjectTypeDefinition"), ("InputValueDefinition", "ArgumentsDefinition")]


def r05a(P, R):
    _guarded(R, "R05-a", "anchor:directive-sites", _r05a_sites, P, R)
    _guarded(R, "R05-a", "anchor:builtin-directives", _r05a_builtins, P, R)


_PV = {}


def _position_views(P, posn, c):
    """the check_directives call `c` as seen from a position's function with helpers attached: [(atoms of the directives
    argument, string literals the location argument can be)] — decides helpers that receive the list or the location as parameters"""
    fi = position_inlined(P, posn)
    if _PV.get("P") is not P:
        _PV.clear()
        _PV["P"] = P
    if posn not in _PV:
        _PV[posn] = Prov(fi)
    pv = _PV[posn]
    out = []
    for x in fi.walk():
        if x.get("k") == "Call" and x.get("s") == c.get("s") and call_name(x) == call_name(c) and len(x["args"]) == len(c["args"]):
            out.append((pv.atoms(x["args"][2]), {y[1] for y in pv.atoms(x["args"][3]) if y[0] == "lit" and isinstance(y[1], str)}))
    return out


def _r05a_sites(P, R):
    fns = [P.fns[p] for p in scope(P) if P.fns[p].crate == CHK and p != CK + "common::check_directives"]
    sites = directive_sites(P, fns)
    view_count = {}

    def decide(key, f, elem, container, lits):
        want = INPUT_VALUE_CONTAINER[container] if container else TS_LOCATIONS[(elem, "directives")]
        where = "an input value inside %s.%s" % container if container else "`%s.directives`" % elem
        R.check("R05-a", key, lits == {want}, "location %s" % want,
                "%s checks directives of %s against %s; the GraphQL spec location for that position is %s"
                % (f.path, where, sorted(lits), want), loc=f.loc())

    def via_positions(f, c, why):
        """second look at a call the function-local view cannot decide: through every position whose region contains it"""
        done = False
        for posn in sorted(POSITIONS):
            try:
                if f.path not in {g.path for g in region(P, posn)}:
                    continue
                views = _position_views(P, posn, c)
            except AnchorMissing:
                continue
            for a2, lits2 in views:
                elems = {x[1].replace(TS, "") for x in a2 if x[0] == "field" and x[2] == "directives" and (x[1].replace(TS, ""), "directives") in TS_LOCATIONS
                         or (x[0] == "field" and x[2] == "directives" and x[1] == TS + "InputValueDefinition")}
                if len(elems) != 1 or not lits2:
                    continue
                elem = elems.pop()
                if elem == "InputValueDefinition":
                    conts = [k for k in INPUT_VALUE_CONTAINER if any(x[0] == "field" and x[1] == TS + k[0] and x[2] == k[1] for x in a2)]
                    if len(conts) != 1:
                        continue
                    decide("dirloc:InputValueDefinition in %s" % conts[0][0], f, elem, conts[0], lits2)
                else:
                    decide("dirloc:%s@%s" % (elem, POSITIONS[posn]), f, elem, None, lits2)
                done = True
        if not done:
            R.undecided("R05-a", "dirloc:%s" % short(f.path), why, loc=f.loc())

    for f, c, src, lits, table, atoms in sites:
        srcs = {(a.replace(TS, ""), fld) for a, fld in src if a.startswith(TS)}
        pos = [s for s in srcs if s in TS_LOCATIONS]
        computed = not lits and not table  # the location is not a literal at this call (parameter, constant, ...)
        if ("InputValueDefinition", "directives") in srcs:
            conts = [k for k in INPUT_VALUE_CONTAINER if any(x[0] == "field" and x[1] == TS + k[0] and x[2] == k[1] for x in atoms)]
            if len(conts) != 1 or computed:
                via_positions(f, c, "container of the input value is ambiguous (%s) or the location is not a literal" % conts)
                continue
            decide("dirloc:InputValueDefinition in %s" % conts[0][0], f, "InputValueDefinition", conts[0], lits)
            continue
        if len(pos) != 1 or computed:
            via_positions(f, c, "directives argument has provenance %s, location literals %s" % (sorted(srcs), sorted(lits)))
            continue
        # the element type alone does not identify the caller for FieldDefinition (object vs interface): key by function
        decide("dirloc:%s@%s" % (pos[0][0], f.name), f, pos[0][0], None, lits)
    # every position that can carry directives validates them: a site on `<element>.directives` lies in the position's region
    for elem, posn in DIR_NEED:
        key = "dircover:%s@%s" % (elem, POSITIONS[posn])
        try:
            reg = {g.path for g in region(P, posn)}
        except AnchorMissing as e:
            R.undecided("R05-a", key, "kind=anchor-missing: %s" % e)
            continue
        # first through the position's own view (helpers attached, parameters bound to this position's arguments): exact even when
        # all positions share one wrapper around check_directives; then the function-local sites of the region
        cd = CK + "common::check_directives"
        fi = position_inlined(P, posn)
        if posn not in _PV or _PV.get("P") is not P:
            if _PV.get("P") is not P:
                _PV.clear()
                _PV["P"] = P
            _PV[posn] = Prov(fi)
        vcalls = [x for x in fi.walk() if x.get("k") == "Call" and call_name(x) == cd and len(x["args"]) >= 3]
        vatoms = [_PV[posn].atoms(x["args"][2]) for x in vcalls]
        view_count[posn] = len(vcalls)
        if any(has_field(a, TS + elem, "directives") for a in vatoms):
            R.holds("R05-a", key, "directives at this position are validated", loc=fi.loc())
            continue
        here = [s for s in sites if s[0].path in reg]
        hit = [s for s in here if (TS + elem, "directives") in s[2]]
        opaque = [s for s in here if not s[2]] + [a for a in vatoms if not any(x[0] == "field" and x[2] == "directives" for x in a)]
        if hit:
            R.holds("R05-a", key, "directives at this position are validated (in %s)" % short(hit[0][0].path), loc=hit[0][0].loc())
        elif opaque:
            R.undecided("R05-a", key, "a check_directives call on the path from %s takes its list from an unrecognised source" % position_fn(P, posn).path, loc=position_fn(P, posn).loc())
        else:
            R.violated("R05-a", key, "directives on %s are never passed to check_directives on the path from %s (the checker of %s)"
                       % (elem, position_fn(P, posn).path, posn), loc=position_fn(P, posn).loc())
    # floor on the validation sites: call paths seen from the positions (a shared wrapper counts once per position that uses it)
    R.floor("R05-a", "check_directives call sites (type system)", max(len(sites), sum(view_count.values())), 11)
    valid_locs = {"QUERY", "MUTATION", "SUBSCRIPTION", "FIELD", "FRAGMENT_DEFINITION", "FRAGMENT_SPREAD", "INLINE_FRAGMENT", "VARIABLE_DEFINITION",
                  "SCHEMA", "SCALAR", "OBJECT", "FIELD_DEFINITION", "ARGUMENT_DEFINITION", "INTERFACE", "UNION", "ENUM", "ENUM_VALUE", "INPUT_OBJECT",
                  "INPUT_FIELD_DEFINITION"}
    for f, c, src, lits, table, atoms in sites:
        bad = lits - valid_locs
        if bad:
            R.violated("R05-a", "location-name:%s" % short(f.path), "%s uses %s, which is not a directive location of the grammar" % (f.path, sorted(bad)), loc=f.loc())


def _r05a_builtins(P, R):
    # built-in directive definitions carry the spec's locations
    gb = P.fn("graphql_builtins::generate_builtins")
    spec = {"skip": {"FIELD", "FRAGMENT_SPREAD", "INLINE_FRAGMENT"}, "include": {"FIELD", "FRAGMENT_SPREAD", "INLINE_FRAGMENT"},
            "deprecated": {"FIELD_DEFINITION", "ARGUMENT_DEFINITION", "INPUT_FIELD_DEFINITION", "ENUM_VALUE"}, "specifiedBy": {"SCALAR"}}
    found = {}
    for c in gb.walk():
        if c.get("k") == "Call" and (call_name(c) or "") == "graphql_builtins::directive" and len(c["args"]) >= 3:
            name = lit_value(c["args"][0])
            locs = set(str_lits_in(c["args"][2]))
            found[name] = locs
    for name, want in sorted(spec.items()):
        if name not in found:
            R.undecided("R05-a", "builtin-locations:@" + name, "the definition of built-in @%s was not found in the recognised form" % name, loc=gb.loc())
            continue
        R.check("R05-a", "builtin-locations:@" + name, found.get(name) == want, "@%s on %s" % (name, sorted(want)),
                "built-in directive @%s is defined for locations %s; the spec says %s" % (name, sorted(found.get(name) or []), sorted(want)), loc=gb.loc())
    nb = P.fn("nitrogql_cli::builtins::nitrogql_builtins")
    R.check("R05-a", "builtin-locations:@nitrogql_ts_type", "SCALAR" in str_lits_in(nb.body), "@nitrogql_ts_type on SCALAR", "nitrogql_ts_type location changed", loc=nb.loc())


OUTPUT_POS = (("ObjectTypeDefinition", "is_output_type", "NoInputType"), ("InterfaceTypeDefinition", "is_output_type", "NoInputType"),
              ("InputObjectTypeDefinition", "is_input_type", "NoOutputType"), ("ArgumentsDefinition", "is_input_type", "NoOutputType"))


def r05b(P, R):
    _guarded(R, "R05-b", "anchor:none-handling", _r05b_none, P, R)
    _guarded(R, "R05-b", "anchor:kind-table", _r05b_kind, P, R)
    _guarded(R, "R05-b", "anchor:predicates", _r05b_pred, P, R)
    _guarded(R, "R05-b", "anchor:direction", _r05b_direction, P, R)


def _none_in_tuple_match(f):
    """`let k = inout_kind_of_type(..); match (k, mode) { (None, _) => <UnknownType>, .. }`: the result is matched as a component of
    a tuple and every arm whose pattern has `None` in that component constructs UnknownType"""
    cd = CK + "types::inout_kind_of_type"
    lets = [n for n in f.walk() if n.get("k") == "Let" and n.get("init") is not None and n["pat"].get("k") == "Binding"
            and any(x.get("k") == "Call" and call_name(x) == cd for x in subnodes(n["init"]))]
    if len(lets) != 1:
        return False
    lid = lets[0]["pat"]["local"]
    for m in f.walk():
        if m.get("k") != "Match" or m["scrut"].get("k") != "Tup":
            continue
        idx = [i for i, e in enumerate(m["scrut"]["es"]) if e.get("k") == "Path" and e.get("local") == lid]
        if len(idx) != 1:
            continue
        none_arms = []
        for arm in m["arms"]:
            pat = arm["pat"]
            if pat.get("k") != "Tuple" or len(pat["ps"]) != len(m["scrut"]["es"]):
                return False
            v, catch = arm_variants({"arms": [{"pat": pat["ps"][idx[0]]}]})
            if "None" in v or catch:
                none_arms.append(arm)
        first = none_arms[0] if none_arms else None
        # arms are tried in order: the first arm that admits None must be exactly the None case, unguarded, and report
        if first is not None and "guard" not in first and arm_variants({"arms": [{"pat": first["pat"]["ps"][idx[0]]}]})[0] == {"None"}:
            others = [p_ for j, p_ in enumerate(first["pat"]["ps"]) if j != idx[0]]
            if all(arm_variants({"arms": [{"pat": p_}]}) == (set(), True) for p_ in others):
                return "UnknownType" in diag_sites(subnodes(first["body"]))
        return False
    return False


def _r05b_none(P, R):
    for posn, _p, _d in OUTPUT_POS:
        try:
            f = position_inlined(P, posn)
        except AnchorMissing as e:
            R.undecided("R05-b", "none:" + POSITIONS[posn], "kind=anchor-missing: %s" % e)
            continue
        buf = harness.Reporter(R.prop, R.tier)
        n = none_handling(P, buf, "R05-b", f)
        tuple_ok = _none_in_tuple_match(f)
        for r_ in buf.results:
            key = r_["key"].split(":", 1)[1]
            if r_["status"] == "UNDECIDED" and tuple_ok:
                R.holds("R05-b", key, "the `None` component of the matched tuple reports UnknownType", loc=r_["loc"])
            else:
                R._add("R05-b", key, r_["status"], r_["msg"], r_["loc"], r_["detail"])
        R.floor("R05-b", "inout_kind_of_type call sites for " + posn, n, 1)


def _r05b_kind(P, R):
    # the kind table itself (spec IsInputType / IsOutputType)
    k = P.fn(CK + "types::inout_kind_of_type")
    ki = inlined(P, k)
    want = {"Scalar": "Both", "Object": "Output", "Interface": "Output", "Union": "Output", "Enum": "Both", "InputObject": "Input"}
    ms = matches_on(ki, "TypeDefinition")
    R.floor("R05-b", "match over TypeDefinition in inout_kind_of_type", len(ms), 1)
    for m in ms:
        tab = variant_table(m)
        for v, exp in sorted(want.items()):
            arm = tab.get(v)
            got = None
            if arm:
                ds = [norm(x.get("def", "")).split("::")[-1] for x in subnodes(arm["body"]) if x.get("k") == "Path" and "TypeInOutKind" in norm(x.get("def", ""))]
                got = ds[0] if ds else None
            if arm is not None and got is None:
                R.undecided("R05-b", "kind:" + v, "the classification of %s types is not a plain TypeInOutKind value" % v, loc=k.loc())
                continue
            R.check("R05-b", "kind:" + v, got == exp and "_" not in tab, "%s -> %s" % (v, exp), "%s types are classified as %s (spec: %s)" % (v, got, exp), loc=k.loc())


def _r05b_pred(P, R):
    for fn_, accept in (("is_input_type", {"Input", "Both"}), ("is_output_type", {"Output", "Both"})):
        g = P.fn(CK + "types::TypeInOutKind::" + fn_)
        ms = [m for m in g.walk() if m.get("k") == "Match" and peel_ty(m["scrut"].get("t")).split("<")[0].endswith("TypeInOutKind")]
        if not ms:
            R.undecided("R05-b", "predicate:" + fn_, "%s is not written as a match over TypeInOutKind" % g.path, loc=g.loc())
        for m in ms:
            tab = variant_table(m)
            truthy = {v for v, arm in tab.items() if lit_value(arm["body"]) is True}
            falsy = {v for v, arm in tab.items() if lit_value(arm["body"]) is False}
            if truthy | falsy != set(tab):
                R.undecided("R05-b", "predicate:" + fn_, "an arm of %s is not a boolean literal" % g.path, loc=g.loc())
                continue
            if "_" in truthy:
                truthy = (truthy - {"_"}) | ({"Input", "Output", "Both"} - set(tab))
            R.check("R05-b", "predicate:" + fn_, truthy == accept, "%s = %s" % (fn_, sorted(accept)), "%s is true for %s" % (fn_, sorted(truthy)), loc=g.loc())


def _feasible(P, fi, pv, idx):
    """False if node idx lies in an arm (pattern guard or body) of a match over a field-less enum whose scrutinee is, in this view,
    one known variant that the arm does not name — e.g. a shared helper called with a literal mode flag"""
    acc = fi.nodes()
    child, p = idx, acc[idx][1]
    while p >= 0:
        n = acc[p][0]
        if n.get("k") == "Arm":
            pp = acc[p][1]
            while pp >= 0 and acc[pp][0].get("k") != "Match":
                pp = acc[pp][1]
            m = acc[pp][0] if pp >= 0 else None
            pairs = []
            if m is not None:
                sc_, pat = m["scrut"], n["pat"]
                while pat.get("k") in ("Ref", "Deref", "Box"):
                    pat = pat["p"]
                if sc_.get("k") == "Tup" and pat.get("k") == "Tuple" and len(sc_["es"]) == len(pat["ps"]) and "ddpos" not in pat:
                    pairs = list(zip(sc_["es"], pat["ps"]))     # match (a, mode) { (.., Mode::X) => .. }: component-wise
                else:
                    pairs = [(sc_, n["pat"])]
            for se, sp in pairs:
                adt = P.adts.get(peel_ty(se.get("t")).split("<")[0])
                if adt is None or adt.kind != "Enum" or not all(not v["fields"] for v in adt.variants):
                    continue
                sa = pv.data_atoms(se)
                known = {x[1].split("::")[-1] for x in sa if x[0] == "def" and x[1].startswith(adt.path + "::")}
                opaque = [x for x in sa if x[0] in ("param", "call", "field")]
                v, catch = arm_variants({"arms": [{"pat": sp}]})
                if len(known) == 1 and not opaque and v and not catch and not (known & v):
                    return False
        child, p = p, acc[p][1]
    return True


def _r05b_direction(P, R):
    # directions: output positions use is_output_type, input positions is_input_type (on the paths this position can take)
    for posn, want_pred, diag in OUTPUT_POS:
        name = POSITIONS[posn]
        try:
            fi = position_inlined(P, posn)
        except AnchorMissing as e:
            R.undecided("R05-b", "direction:" + name, "kind=anchor-missing: %s" % e)
            continue
        f = position_fn(P, posn)
        pv = Prov(fi)
        preds, made = set(), set()
        for i, (c, _p) in enumerate(fi.nodes()):
            if c.get("k") == "MethodCall" and c["method"] in ("is_input_type", "is_output_type") and _feasible(P, fi, pv, i):
                preds.add(c["method"])
            elif diag_sites([c]) and _feasible(P, fi, pv, i):
                made |= set(diag_sites([c]))
        if not preds:
            R.undecided("R05-b", "direction:" + name, "no is_input_type / is_output_type test on the path from %s" % f.path, loc=f.loc())
            continue
        R.check("R05-b", "direction:" + name, preds == {want_pred} and diag in made, "%s / %s" % (want_pred, diag),
                "%s tests %s and reports %s (expected %s / %s)" % (f.path, sorted(preds), sorted(made & {"NoInputType", "NoOutputType"}), want_pred, diag), loc=f.loc())


def loop_diagnostics(f, elem_adt):
    """multiset of diagnostics constructed inside the `for` loop whose element is `elem_adt` (helpers attached by inlining count)"""
    for m in f.walk():
        if m.get("k") == "Match" and m.get("src") == "ForLoopDesugar" and elem_adt in norm(m["scrut"].get("t", "")):
            out = {}
            for v in diag_sites(subnodes(m)):
                out[v] = out.get(v, 0) + 1
            calls = sorted(set(short(call_name(x)) for x in subnodes(m) if x.get("k") == "Call" and (call_name(x) or "").startswith(CK) and "inl" not in x))
            return out, calls
    return None, None


def r05c(P, R):
    pairs = [("ObjectTypeDefinition", "InterfaceTypeDefinition", "FieldDefinition"), ("InputObjectTypeDefinition", "ArgumentsDefinition", "InputValueDefinition")]
    for pa, pb, elem in pairs:
        a, b = POSITIONS[pa], POSITIONS[pb]
        try:
            fa, fb = position_inlined(P, pa), position_inlined(P, pb)
        except AnchorMissing as e:
            R.undecided("R05-c", "sibling:%s~%s" % (a, b), "kind=anchor-missing: %s" % e)
            continue
        da, ca = loop_diagnostics(fa, elem)
        db, cb = loop_diagnostics(fb, elem)
        if da is None or db is None:
            R.undecided("R05-c", "sibling:%s~%s" % (a, b), "element loop not found", loc=fa.loc())
            continue
        R.check("R05-c", "sibling:%s~%s" % (a, b), da == db and ca == cb,
                "the per-%s rules are the same in both (%s)" % (elem, sorted(da)),
                "%s and %s apply different rules to each %s: %s reports %s (calls %s), %s reports %s (calls %s)"
                % (fa.path, fb.path, elem, a, da, ca, b, db, cb), loc=fb.loc())
    # implements handling: both call check_valid_implementation with their own name/fields/implements
    for posn in ("ObjectTypeDefinition", "InterfaceTypeDefinition"):
        name = POSITIONS[posn]
        try:
            f = position_inlined(P, posn)
        except AnchorMissing as e:
            R.undecided("R05-c", "implementation-args:" + name, "kind=anchor-missing: %s" % e)
            continue
        pv = Prov(f)
        calls = [c for c in f.walk() if c.get("k") == "Call" and (call_name(c) or "").endswith("interfaces::check_valid_implementation") and len(c["args"]) >= 4]
        R.floor("R05-c", "check_valid_implementation call in " + name, len(calls), 1)
        adt = TS + posn
        for c in calls:
            own = pv.params.get(f.params[_node_param(f) or 0].get("local"))
            # the arguments that describe the *implementing* type are all but the definitions map, the looked-up interface and the
            # diagnostics sink (roles by the callee's parameter types); they may be separate components or one context value
            cvi = P.fns.get(call_name(c))
            ptys = [peel_ty(t) for t in (cvi.sig_inputs if cvi is not None else [])]
            side = [i for i, t in enumerate(ptys) if i < len(c["args"]) and t != TS + "InterfaceTypeDefinition" and "DefinitionMap" not in t
                    and not t.startswith("alloc::vec::Vec<")]
            if not side:
                R.undecided("R05-c", "implementation-args:" + name, "the arguments describing the implementing type were not identified", loc=f.loc())
                continue
            # ... of the type being checked (first parameter), not of a definition looked up in the schema
            foreign = [i for i in side if {x[1] for x in pv.data_atoms(c["args"][i]) if x[0] == "param"} != {own}]
            named = set()
            for i in side:
                named |= {x[2] for x in pv.atoms(c["args"][i]) if x[0] == "field" and x[1] == adt}
            # components passed one by one must be the three the rule speaks about; a context value built elsewhere is typed
            ok = not foreign and (not named or {"name", "fields", "implements"} <= named)
            R.check("R05-c", "implementation-args:" + name, ok, "(name, fields, implements) of the implementing type",
                    "%s passes the wrong components to check_valid_implementation (argument(s) %s are not taken from the type being checked, "
                    "or not its name/fields/implements)" % (f.path, foreign or sorted(named)), loc=f.loc())
        # every name in `implements` that is unknown / not an interface is reported: inside the loop over `implements`
        loops = [m for m in f.walk() if m.get("k") == "Match" and m.get("src") == "ForLoopDesugar"
                 and (call_name(m["scrut"]) or "").endswith("IntoIterator::into_iter") and has_field(pv.atoms(m["scrut"]), adt, "implements")]
        if not loops:
            R.undecided("R05-c", "implements-rules:" + name, "no `for` loop over `%s.implements` on the path from %s" % (posn, f.path), loc=f.loc())
            continue
        made = set(d for m in loops for d in diag_sites(subnodes(m)))
        R.check("R05-c", "implements-rules:" + name, {"UnknownType", "NotInterface"} <= made, "unknown / non-interface `implements` reported",
                "%s does not report %s for the names in `implements`" % (f.path, sorted({"UnknownType", "NotInterface"} - made)), loc=f.loc())


def r05d(P, R):
    _guarded(R, "R05-d", "anchor:traversal", _r05d_cover, P, R)
    _guarded(R, "R05-d", "anchor:recursion-follows", _r05d_follow, P, R)
    _guarded(R, "R05-d", "anchor:recursion-edges", _r05d_edges, P, R)
    _guarded(R, "R05-d", "anchor:every-element", _r05d_every, P, R)
    _guarded(R, "R05-d", "anchor:per-item-state", _r05d_state, P, R)


def _nested_variants(matches, adt_path):
    """variants of `adt_path` named by patterns anywhere inside the arms' patterns of the given matches"""
    out = set()
    for m in matches:
        for arm in m["arms"]:
            for x in subnodes(arm["pat"]):
                if x.get("k") in ("TupleStruct", "Struct", "PatExpr") and norm(x.get("adt") or x.get("pat_adt") or "") == adt_path:
                    out.add(norm(x.get("ctor_of") or x.get("def") or "").split("::")[-1])
    return out


def _r05d_cover(P, R):
    sc = scope(P)
    R.count("functions_reachable_from_check_type_system_document", len(sc))
    n = field_coverage(P, R, "R05-d", sc, [TS + t for t in TS_AST], {(TS + a, f): r for (a, f), r in EXEMPT.items()},
                       "the type-system checker (reachable from check_type_system_document)")
    R.floor("R05-d", "type-system AST content fields", n, 30)
    e = entry(P)
    ei = inlined(P, e, pred=_positions(P)["pred"])
    outer = []
    for enum in ("type_system::TypeSystemDefinition", "type_system::TypeDefinition"):
        adt = P.adt("nitrogql_ast::" + enum)
        ms = matches_on(ei, enum)
        # a match that hands the node to a position's checker is a dispatch; one that only inspects it (a log line) is not
        pos_paths = {g.path for g in _positions(P)["fns"].values() if g is not None}
        ms = [m for m in ms if any(call_name(x) in pos_paths for x in subnodes(m) if x.get("k") in ("Call", "MethodCall"))] or ms
        if not ms and outer:
            # the kinds may be named by nested patterns of the outer dispatch (`TypeDefinition(TypeDefinition::Scalar(d)) => ..`)
            nested = _nested_variants(outer, adt.path)
            if nested:
                R.holds("R05-d", "floor:dispatch over " + enum.split("::")[-1], "dispatched by nested patterns of the outer match")
                R.check("R05-d", "dispatch:" + enum.split("::")[-1], nested == set(adt.variant_names()), "every definition kind is dispatched",
                        "check_type_system_document does not dispatch %s by name" % sorted(set(adt.variant_names()) - nested), loc=e.loc())
                continue
        outer = outer or ms
        R.floor("R05-d", "dispatch over " + enum.split("::")[-1], len(ms), 1)
        for m in ms:
            v, catch = arm_variants(m)
            R.check("R05-d", "dispatch:" + enum.split("::")[-1], v == set(adt.variant_names()) and not catch, "every definition kind is dispatched",
                    "check_type_system_document does not dispatch %s" % sorted(set(adt.variant_names()) - v), loc=e.loc())


def _r05d_follow(P, R):
    # directive recursion search follows directives on every nested element of an argument's type
    d = _type_walk(P)
    pv = Prov(d)
    nested = {"Scalar": [("ScalarTypeDefinition", "directives")], "Union": [("UnionTypeDefinition", "directives")],
              "Object": [("ObjectTypeDefinition", "directives"), ("ObjectTypeDefinition", "fields"), ("FieldDefinition", "directives")],
              "Interface": [("InterfaceTypeDefinition", "directives"), ("InterfaceTypeDefinition", "fields"), ("FieldDefinition", "directives")],
              "Enum": [("EnumTypeDefinition", "directives"), ("EnumTypeDefinition", "values"), ("EnumValueDefinition", "directives")],
              "InputObject": [("InputObjectTypeDefinition", "directives"), ("InputObjectTypeDefinition", "fields"), ("InputValueDefinition", "directives")]}
    ms = matches_on(d, "type_system::TypeDefinition")
    R.floor("R05-d", "match over TypeDefinition in directives_in_type", len(ms), 1)
    for m in ms:
        tab = variant_table(m)
        for v, want in sorted(nested.items()):
            arm = tab.get(v)
            a = pv.deep_atoms(arm["body"]) if arm else set()
            missing = [w for w in want if not has_field(a, TS + w[0], w[1])]
            R.check("R05-d", "recursion-follows:" + v, arm is not None and not missing, "directives on the type and on its members are followed",
                    "the directive-recursion search does not follow %s of %s types: a directive that refers to itself through them is accepted"
                    % (["%s.%s" % w for w in missing], v), loc=d.loc())


def _recursion_fns(P):
    cr = P.fn(CK + "type_system_checker::check_directive_recursion::check_directive_recursion")
    return cr, [P.fns[p] for p in sorted(P.reachable([cr])) if P.fns[p].crate == CHK and not P.fns[p].derived]


def _type_walk(P):
    """the function of the directive-recursion search that walks a type definition: reachable from check_directive_recursion,
    with a match over TypeDefinition (reference-tree name: directives_in_type)"""
    cr, fns = _recursion_fns(P)
    cands = [g for g in fns if matches_on(g, "type_system::TypeDefinition")]
    if len(cands) == 1:
        return cands[0]
    return P.fn(CK + "type_system_checker::check_directive_recursion::directives_in_type")


def _r05d_edges(P, R):
    # non-interference form: what the functions reachable from check_directive_recursion read
    cr, fns = _recursion_fns(P)
    reads = set()
    for g in fns:
        reads |= field_reads(g)
    walk = _type_walk(P)
    missing = [w for w in ("directives", "type") if (TS + "InputValueDefinition", w) not in reads]
    ok = not missing and walk.path in {g.path for g in fns}
    R.check("R05-d", "recursion-edges", ok, "edges: argument directives and directives in the argument's type",
            "check_directive_recursion does not follow both the argument's own directives and its type's directives "
            "(no function it reaches reads InputValueDefinition.%s)" % (missing or "type through the type walk"), loc=cr.loc())


def _r05d_every(P, R):
    """LOSSLESS TRAVERSAL.  The checker's `for` loops visit the elements the rules quantify over ("every definition", "every field
    of the interface", ...).  On the reference tree an element leaves an iteration early (`continue`, `break`, `return`) only on a
    path that reports a diagnostic about it — it is skipped *because* it is invalid.  An early exit guarded by a boolean test of the
    element's content that reports nothing makes every rule below it conditional on that content: VIOLATED.  An exit guarded by a
    pattern that extracts what the rest of the body needs (`let Some(x) = .. else { continue }`) without a report is UNDECIDED."""
    from templates import LOSSY_OR_REORDERING
    fns = [P.fns[p] for p in scope(P) if P.fns[p].crate == CHK and P.fns[p].kind in ("Fn", "AssocFn")]
    rep = {}

    def reports(path):
        if path not in rep:
            g = P.fns.get(path)
            rep[path] = g is not None and g.crate == CHK and any(
                diag_sites(P.fns[q].walk()) for q in P.reachable([g]) if P.fns[q].crate == CHK and not P.fns[q].derived)
        return rep[path]

    def reporting(node):
        ns = subnodes(node) if node is not None else []
        return bool(diag_sites(ns)) or any(reports(call_name(x)) for x in ns if x.get("k") in ("Call", "MethodCall") and call_name(x))

    n_loops = 0
    for f in fns:
        acc = f.nodes()
        for i, (x, _) in enumerate(acc):
            k = x.get("k")
            if k == "Loop" and x.get("src") == "ForLoop":
                n_loops += 1
            if k not in ("Continue", "Break", "Ret") or str(x.get("x", "")).startswith("desugar"):
                continue
            ctx = enclosing_contexts(f, i)
            li = next((j for j, c in enumerate(ctx) if c[0] == "loop"), None)
            if li is None or ctx[li][1].get("src") != "ForLoop" or any(c[0] == "closure" for c in ctx[:li]):
                continue
            guards = [c for c in ctx[:li] if c[0] in ("if-then", "if-else", "let-else")
                      or (c[0] == "arm" and c[1] is not None and not str(c[1].get("src", "")).startswith(("ForLoop", "TryDesugar")))]
            if not guards:
                continue
            loop_elem = ""
            for c in ctx[li:]:
                if c[0] == "arm" and c[1] is not None and c[1].get("src") == "ForLoopDesugar":
                    loop_elem = norm(c[1]["scrut"].get("t", "")) or ""
                    break
            key = "every-element:%s:%s@%d" % (short(f.path), k.lower(), sum(1 for y, _ in acc[:i] if y.get("k") == k))
            ok = False
            for g in guards:
                branch = g[2]["body"] if g[0] == "arm" else (g[1].get("then") if g[0] == "if-then" else g[1].get("else") if g[0] == "if-else" else g[1].get("els"))
                guard = g[1]["scrut"] if g[0] == "arm" else (g[1].get("cond") if g[0].startswith("if") else g[1].get("init"))
                if reporting(branch) or reporting(guard):
                    ok = True
                    break
            if ok:
                R.holds("R05-d", key, "the element is skipped on a path that reports a diagnostic", loc=f.loc())
                continue
            g = guards[0]
            cond = g[1].get("cond") if g[0].startswith("if") else None
            boolean = cond is not None and not any(y.get("k") == "LetExpr" for y in subnodes(cond))
            # `x.is_none()` / `xs.is_empty()` is a pattern test in boolean clothing: nothing to apply the rest of the body to
            c0 = cond
            while c0 is not None and c0.get("k") in ("DropTemps", "Paren", "Unary", "Use") and "e" in c0:
                c0 = c0["e"]
            if boolean and c0 is not None and c0.get("k") == "MethodCall" and c0.get("method") in ("is_none", "is_some", "is_empty"):
                boolean = False
            what = sorted({y["field"] for y in subnodes(cond or {}) if y.get("k") == "Field"}
                          | {short(call_name(y)) for y in subnodes(cond or {}) if y.get("k") in ("Call", "MethodCall") and (call_name(y) or "").startswith(CK)})
            if boolean and g[0] == "if-then":
                # the accepting case of a single rule written as an early exit: everything the exit skips is one unconditional
                # report (`if ok { continue } push(diagnostic)` is `if !ok { push(diagnostic) }`)
                rest = None
                for b_ in f.walk():
                    if b_.get("k") == "Block":
                        sts = b_.get("stmts", [])
                        for j_, st in enumerate(sts):
                            if st is g[1] or (st.get("k") == "Stmt" and st.get("e") is g[1]):
                                rest = sts[j_ + 1:] + ([b_["tail"]] if b_.get("tail") is not None else [])
                if rest:
                    rn = [y for st in rest for y in subnodes(st)]
                    flow = [y for y in rn if y.get("k") in ("If", "Loop", "Continue", "Break", "Ret")
                            or (y.get("k") == "Match" and not str(y.get("src", "")).startswith("TryDesugar"))]
                    calls_rep = [y for y in rn if y.get("k") in ("Call", "MethodCall") and call_name(y) and reports(call_name(y))]
                    if not flow and not calls_rep and diag_sites(rn):
                        R.holds("R05-d", key, "the early exit is the accepting case of the one report that follows it", loc=f.loc())
                        continue
            if boolean:
                R.violated("R05-d", key, "%s leaves an iteration of its loop over %s early (`%s`) under a condition on %s and reports nothing: "
                           "every rule applied further down the loop body is skipped for those elements" % (f.path, loop_elem or "its elements", k.lower(), what or "the element"),
                           loc=f.loc())
            else:
                R.undecided("R05-d", key, "%s leaves an iteration early when a pattern does not match, without a diagnostic; whether a rule "
                            "applied to the skipped elements is not decided" % f.path, loc=f.loc())
    R.floor("R05-d", "`for` loops in the type-system checker", n_loops, 10)
    # the dispatch loop visits every definition of the document: no selecting / truncating adaptor on the iterated expression
    e = entry(P)
    ei = inlined(P, e, pred=_positions(P)["pred"])
    pv = Prov(ei)
    loops = [m for m in ei.walk() if m.get("k") == "Match" and m.get("src") == "ForLoopDesugar" and (call_name(m["scrut"]) or "").endswith("IntoIterator::into_iter")
             and has_field(pv.atoms(m["scrut"]), TS + "TypeSystemDocument", "definitions")
             and re.search(r"type_system::TypeSystemDefinition\b", norm(m["scrut"].get("t", "")) or "")]
    if not loops:
        R.undecided("R05-d", "every-definition", "no `for` loop over `TypeSystemDocument.definitions` on the path from %s" % e.path, loc=e.loc())
    for m in loops:
        bad = [y["method"] for y in subnodes(m["scrut"]) if y.get("k") == "MethodCall" and y["method"] in (LOSSY_OR_REORDERING | {"filter", "filter_map"})]
        R.check("R05-d", "every-definition", not bad, "the dispatch loop iterates over all definitions",
                "%s iterates over the definitions through %s: definitions it drops are never checked" % (e.path, bad), loc=e.loc())


def _r05d_state(P, R):
    """PER-ITEM STATE.  A set handed down by `&mut` that lets a checker leave silently ("already visited") decides *whether* an
    element is examined.  Such a set must be created per element it is about: if the local it originates from is created outside a
    loop and handed down from inside that loop, what is examined for one element depends on the elements that came before it."""
    fns = [P.fns[p] for p in scope(P) if P.fns[p].crate == CHK and P.fns[p].kind in ("Fn", "AssocFn")]
    setty = re.compile(r"^&mut .*\b(HashSet|BTreeSet|IndexSet|HashMap|BTreeMap|IndexMap|Vec)<")

    def strip(e):
        while e is not None and e.get("k") in ("AddrOf", "Unary", "DropTemps", "Use", "Paren") and "e" in e:
            e = e["e"]
        return e or {}
    gates = []
    for g in fns:
        for pi, (p_, t) in enumerate(zip(g.params, g.sig_inputs)):
            if p_.get("k") != "Binding" or not setty.match(t) or "CheckError" in t:
                continue
            lid = p_["local"]
            for x in g.walk():
                if x.get("k") != "If":
                    continue
                tests = [y for y in subnodes(x["cond"]) if y.get("k") == "MethodCall" and y["method"] in ("insert", "contains", "contains_key")
                         and strip(y["recv"]).get("local") == lid]
                if not tests:
                    continue
                for br in (x.get("then"), x.get("else")):
                    ns = subnodes(br) if br is not None else []
                    if any(y.get("k") in ("Ret", "Continue", "Break") and not str(y.get("x", "")).startswith("desugar") for y in ns) and not diag_sites(ns):
                        gates.append((g, pi))
    seen, n = set(), 0
    todo = list(dict.fromkeys(gates))
    while todo:
        g, pi = todo.pop()
        if (g.path, pi) in seen:
            continue
        seen.add((g.path, pi))
        for c in fns:
            acc = c.nodes()
            for i, (y, _p) in enumerate(acc):
                if y.get("k") not in ("Call", "MethodCall") or call_name(y) != g.path:
                    continue
                args = ([y["recv"]] if y.get("k") == "MethodCall" else []) + y["args"]
                if pi >= len(args):
                    continue
                a = strip(args[pi])
                if a.get("k") != "Path" or "local" not in a:
                    continue
                own = [j for j, q in enumerate(c.params) if q.get("k") == "Binding" and q.get("local") == a["local"]]
                if own:
                    todo.append((c, own[0]))
                    continue
                lets = [j for j, (z, _q) in enumerate(acc) if z.get("k") == "Let" and z["pat"].get("k") == "Binding" and z["pat"].get("local") == a["local"]]
                if not lets:
                    continue
                n += 1
                depth_let = sum(1 for k_ in enclosing_contexts(c, lets[0]) if k_[0] in ("loop", "closure"))
                depth_use = sum(1 for k_ in enclosing_contexts(c, i) if k_[0] in ("loop", "closure"))
                key = "per-item-state:%s:%s" % (short(c.path), a.get("name"))
                R.check("R05-d", key, depth_use <= depth_let, "the visited-set is created where it is used (per element)",
                        "%s creates `%s` once, outside the loop in which it hands it to %s, where membership in it makes a checker return "
                        "silently: what is examined for an element depends on the elements checked before it (a type already walked for "
                        "one definition is skipped for the next)" % (c.path, a.get("name"), short(g.path)), loc=c.loc())
    R.count("visited_sets_traced", n)


# diagnostics tied to a position: how many construction sites each position's region had on the reference tree
POSITION_RULES = {
    "DirectiveDefinition": {"UnscoUnsco": 1, "RecursingDirective": 1},
    "ScalarTypeDefinition": {"UnscoUnsco": 1},
    "ObjectTypeDefinition": {"UnscoUnsco": 2, "DuplicatedName": 1, "UnknownType": 2, "NoInputType": 1, "NotInterface": 1},
    "InterfaceTypeDefinition": {"UnscoUnsco": 2, "DuplicatedName": 1, "UnknownType": 2, "NoInputType": 1, "NotInterface": 1, "NoImplementSelf": 1},
    "UnionTypeDefinition": {"UnscoUnsco": 1, "DuplicatedName": 1, "UnknownType": 1, "NonObjectTypeUnionMember": 1},
    "EnumTypeDefinition": {"UnscoUnsco": 1, "DuplicatedName": 1},
    "InputObjectTypeDefinition": {"UnscoUnsco": 2, "DuplicatedName": 1, "UnknownType": 1, "NoOutputType": 1},
    "ArgumentsDefinition": {"UnscoUnsco": 1, "DuplicatedName": 1, "UnknownType": 1, "NoOutputType": 1},
}
# names the reserved-name rule must see: (node whose `name` is tested, position whose region tests it)
RESERVED = [("DirectiveDefinition", "DirectiveDefinition"), ("ScalarTypeDefinition", "ScalarTypeDefinition"),
            ("ObjectTypeDefinition", "ObjectTypeDefinition"), ("FieldDefinition", "ObjectTypeDefinition"),
            ("InterfaceTypeDefinition", "InterfaceTypeDefinition"), ("FieldDefinition", "InterfaceTypeDefinition"),
            ("UnionTypeDefinition", "UnionTypeDefinition"), ("EnumTypeDefinition", "EnumTypeDefinition"),
            ("InputObjectTypeDefinition", "InputObjectTypeDefinition"), ("InputValueDefinition", "InputObjectTypeDefinition"),
            ("InputValueDefinition", "ArgumentsDefinition")]


def r05e(P, R):
    _guarded(R, "R05-e", "anchor:liveness", _r05e_live, P, R)
    _guarded(R, "R05-e", "anchor:reserved-names", _r05e_reserved, P, R)


def _r05e_live(P, R):
    sc = scope(P)
    counts = {}
    for p in sc:
        for v in diag_sites(P.fns[p].walk()):
            counts[v] = counts.get(v, 0) + 1
    # per position: the diagnostic is still constructed somewhere in the position's region (a shared helper counts for every
    # position that reaches it)
    per_pos = {}
    for posn, table in sorted(POSITION_RULES.items()):
        try:
            reg = region(P, posn)
        except AnchorMissing as e:
            R.undecided("R05-e", "live@" + POSITIONS[posn], "kind=anchor-missing: %s" % e)
            per_pos = None
            continue
        got, view = {}, {}
        for g in reg:
            for v in diag_sites(g.walk()):
                got[v] = got.get(v, 0) + 1
        for v in diag_sites(position_inlined(P, posn).walk()):
            view[v] = view.get(v, 0) + 1
        for v, need in sorted(table.items()):
            if per_pos is not None:
                per_pos[v] = per_pos.get(v, 0) + max(got.get(v, 0), view.get(v, 0))
            f = position_fn(P, posn)
            R.check("R05-e", "live:%s@%s" % (v, POSITIONS[posn]), got.get(v, 0) >= 1,
                    "%d construction site(s) on the path from %s" % (got.get(v, 0), short(f.path)),
                    "diagnostic %s is constructed by no function on the path from %s (the checker of %s nodes): that rule is no longer "
                    "applied at this position" % (v, f.path, posn), loc=f.loc())
    tied = {v for t in POSITION_RULES.values() for v in t}
    for v, need in sorted(TS_RULE_SITES.items()):
        got = counts.get(v, 0)
        if got == 0:
            R.violated("R05-e", "live:" + v, "diagnostic %s is constructed at no site reachable from check_type_system_document: the rule is gone" % v)
            continue
        eff = per_pos.get(v, 0) if (per_pos is not None and v in tied) else got
        if eff >= need:
            R.holds("R05-e", "live:" + v, "%d construction site(s) reachable from check_type_system_document" % got)
        else:
            # fewer sites than on the reference tree, none of the per-position instances above is empty: duplicated code may have
            # been merged — not evidence that a rule instance is gone
            R.undecided("R05-e", "live:" + v, "diagnostic %s has %d construction site(s) along the per-position paths, %d were confirmed on the "
                        "reference tree; every position still constructs it" % (v, eff, need))


def _reserved_fn(P):
    """the reserved-name test, by role: the checker function over an `&Ident` that compares against the literal `__` (a predicate
    returning bool, or a method that reports by itself); reference-tree name as the first guess"""
    f = P.fn(CK + "type_system_checker::name_starts_with_unscounsco", required=False)
    if f is not None:
        return f
    cands = []
    for p in scope(P):
        g = P.fns[p]
        if g.crate != CHK or g.kind not in ("Fn", "AssocFn"):
            continue
        i = _node_param(g)
        if i is None or peel_ty(g.sig_inputs[i]) != "nitrogql_ast::base::Ident":
            continue
        if any(x.get("k") == "Lit" and x.get("v") == "__" for x in g.walk()):
            cands.append(g)
    if len(cands) == 1:
        return cands[0]
    raise AnchorMissing("the reserved-name test (a function over &Ident comparing with `__`) was not identified")


def _r05e_reserved(P, R):
    # reserved-name rule on every named definition kind and member kind
    un = _reserved_fn(P)
    for elem, posn in RESERVED:
        key = "reserved-names:%s@%s" % (elem, POSITIONS[posn])
        try:
            reg = region(P, posn)
        except AnchorMissing as e:
            R.undecided("R05-e", key, "kind=anchor-missing: %s" % e)
            continue
        seen, opaque = set(), 0
        for g in reg:
            calls = [c for c in g.walk() if c.get("k") in ("Call", "MethodCall") and call_name(c) == un.path and c["args"]]
            if not calls:
                continue
            pv = Prov(g)
            for c in calls:
                flds = {x[1].replace(TS, "") for a_ in c["args"] for x in pv.atoms(a_) if x[0] == "field" and x[2] == "name" and x[1].startswith(TS)}
                seen |= flds
                if not flds:
                    opaque += 1
        if elem not in seen:
            # a wrapper that receives the name as a parameter: look from the position's function, helpers attached
            fi = position_inlined(P, posn)
            if _PV.get("P") is not P:
                _PV.clear()
                _PV["P"] = P
            if posn not in _PV:
                _PV[posn] = Prov(fi)
            for c in fi.walk():
                if c.get("k") in ("Call", "MethodCall") and call_name(c) == un.path and c["args"]:
                    seen |= {x[1].replace(TS, "") for a_ in c["args"] for x in _PV[posn].atoms(a_) if x[0] == "field" and x[2] == "name" and x[1].startswith(TS)}
        if elem in seen:
            R.holds("R05-e", key, "`__` names rejected", loc=un.loc())
        elif opaque:
            R.undecided("R05-e", key, "a call of %s on the path from %s tests a name of unrecognised origin" % (short(un.path), position_fn(P, posn).path), loc=un.loc())
        else:
            R.violated("R05-e", key, "the reserved-name rule (`__` prefix) is not applied to the name of %s on the path from %s"
                       % (elem, position_fn(P, posn).path), loc=position_fn(P, posn).loc())
    lits = [x.get("v") for x in un.walk() if x.get("k") == "Lit" and x.get("lk") in ("str", "char")]
    if "__" in lits:
        R.holds("R05-e", "reserved-prefix", "prefix `__`", loc=un.loc())
    elif lits:
        R.violated("R05-e", "reserved-prefix", "reserved prefix literal is %s" % lits, loc=un.loc())
    else:
        R.undecided("R05-e", "reserved-prefix", "%s does not compare against a string literal" % un.path, loc=un.loc())


def r05f(P, R):
    _guarded(R, "R05-f", "anchor:implementation-rules", _r05f_impl, P, R)
    _guarded(R, "R05-f", "anchor:union-members", _r05f_union, P, R)


_KEYED = {"get", "get_mut", "get_key_value", "get_full", "remove", "swap_remove", "shift_remove", "entry"}


def _made_of(fn, pv, expr):
    """(parameter names, {(adt, field)}) the *value* of `expr` is made of.  Like Prov.data_atoms, but a keyed look-up
    (`index.get(key)`) takes its value from the receiver only — the key selects — and a local collection is also made of what is
    put into it after its creation (`m.entry(k).or_insert(v)`, `m.insert(k, v)`, `v.push(x)`)."""
    grown = {}
    for n in fn.walk():
        if n.get("k") == "MethodCall" and n["args"] and n["method"] in ("or_insert", "or_insert_with", "insert", "push", "push_back", "extend"):
            b = n["recv"]
            while b is not None and b.get("k") in ("MethodCall", "AddrOf", "Unary", "Field", "DropTemps"):
                b = b.get("recv") if b.get("k") == "MethodCall" else b.get("e")
            if b is not None and b.get("k") == "Path" and "local" in b:
                grown.setdefault(b["local"], []).append(n["args"][-1])
    params, fields, seen, todo = set(), set(), set(), [expr]
    while todo:
        e = todo.pop()
        if isinstance(e, list):
            todo.extend(e)
            continue
        if not isinstance(e, dict):
            continue
        k = e.get("k")
        if k == "Path":
            lid = e.get("local")
            if lid is not None and lid not in seen:
                seen.add(lid)
                if lid in pv.params:
                    params.add(pv.params[lid])
                for src, extra in pv.src.get(lid, []):
                    fields |= {(x[1], x[2]) for x in extra if x[0] == "field"}
                    if src is not None:
                        todo.append(src)
                todo.extend(grown.get(lid, []))
            continue
        if k == "MethodCall":
            if e.get("method") in _KEYED:
                todo.append(e["recv"])
                continue
            from prov import SELECTORS
            if e.get("method") in SELECTORS:
                todo.append(e["recv"])
                todo.extend(a for a in e["args"] if a.get("k") != "Closure")
                continue
        if k == "Field" and e.get("adt"):
            fields.add((norm(e["adt"]), e["field"]))
        if k in ("Binding", "Wild", "TupleStruct", "PatExpr", "Tuple", "Or", "Ref", "Range", "Slice") or (k == "Struct" and "rest" in e):
            continue
        todo.extend(v for kk, v in e.items() if isinstance(v, (dict, list)))
    return params, fields


def _r05f_impl(P, R):
    """interface implementation rules: reachability, recursion discipline, and what each sub-rule is conditional on"""
    cvi = P.fn(CK + "type_system_checker::interfaces::check_valid_implementation")
    sub = P.fn(CK + "types::is_subtype")
    R.check("R05-f", "covariance-reach", sub.path in P.reachable([cvi]), "field types are compared with is_subtype",
            "check_valid_implementation no longer uses is_subtype for the covariant return type rule", loc=cvi.loc())
    n = recursion_discipline(P, R, "R05-f", [sub, P.fn("nitrogql_ast::type::Type::is_same")])
    R.floor("R05-f", "recursive argument positions", n, 6)
    # non-null stripping of the super-type side happens only when the sub-type side is itself non-null:
    # `[T]` is not a sub-type of `[T]!`, `T` is not a sub-type of `T!`
    spv = Prov(sub)
    TY = "graphql_type_system::r#type::Type"
    tparam, oparam = spv.params.get(sub.params[1].get("local")), spv.params.get(sub.params[2].get("local"))
    tmatch = [m for m in sub.walk() if m.get("k") == "Match" and not m.get("x") and {x[1] for x in spv.atoms(m["scrut"]) if x[0] == "param"} == {tparam}
              and any(("variant" in str(a)) or True for a in [0])]
    tmatch = [m for m in tmatch if {"NonNull", "List", "Named"} <= arm_variants(m)[0]]
    R.floor("R05-f", "is_subtype: match over the sub-type side", len(tmatch), 1)
    stripped_uses = 0
    for i, (x, _) in enumerate(sub.nodes()):
        if x.get("k") != "Path" or "local" not in x:
            continue
        a = spv.atoms(x)
        if ("param", oparam) not in a or not any(t[0] == "variant" and t[1].endswith("Type::NonNull") for t in a):
            continue
        if ("param", tparam) in a:
            continue
        # `x` is (possibly) the super-type with its NonNull removed; where is it used?
        arms = [c for c in enclosing_contexts(sub, i) if c[0] == "arm" and c[1] in tmatch]
        if not arms:
            # defined/used outside the match over the sub-type: only its definition site (a binding initialiser) is allowed there
            ctxs = enclosing_contexts(sub, i)
            in_let_init = any(n.get("k") == "Let" and n.get("init") is not None and x in subnodes(n["init"]) for n, _ in sub.nodes())
            if in_let_init:
                continue
            R.violated("R05-f", "nonnull-strip-scope", "is_subtype uses the NonNull-stripped super-type outside the match on the sub-type", loc=sub.loc())
            continue
        stripped_uses += 1
        v, _c = arm_variants({"arms": [arms[0][2]]})
        R.check("R05-f", "nonnull-strip-scope:" + "/".join(sorted(v)), v == {"NonNull"},
                "the super-type's NonNull is ignored only when the sub-type is NonNull",
                "is_subtype compares a %s sub-type against the super-type with its NonNull wrapper removed: a nullable (list) type is accepted "
                "where the interface demands a non-null one" % "/".join(sorted(v)), loc=sub.loc())
    R.floor("R05-f", "uses of the stripped super-type", stripped_uses, 1)
    cvi = inlined(P, cvi, pred=lambda g, stop=(sub.path,): g.path not in stop)
    pv = Prov(cvi)
    # is_subtype(field type, interface field type) in this order; violation only on Some(false).  The interface side is the
    # parameter of type &InterfaceTypeDefinition; everything else describes the implementing type.
    calls = [c for c in cvi.walk() if c.get("k") == "Call" and call_name(c) == sub.path]
    R.floor("R05-f", "is_subtype calls", len(calls), 1)
    IFACE = TS + "InterfaceTypeDefinition"
    iface = [pv.params.get(p.get("local")) for p, t in zip(cvi.params, cvi.sig_inputs) if peel_ty(t) == IFACE and p.get("k") == "Binding"]
    for c in calls:
        if len(iface) != 1:
            R.undecided("R05-f", "covariance-direction", "the interface parameter of %s was not identified" % cvi.path, loc=cvi.loc())
            continue
        (p1, _f1), (p2, f2) = _made_of(cvi, pv, c["args"][1]), _made_of(cvi, pv, c["args"][2])
        ok = iface[0] not in p1 and bool(p1) and iface[0] in p2 and (IFACE, "fields") in f2
        R.check("R05-f", "covariance-direction", ok, "is_subtype(implementing field type, interface field type)",
                "is_subtype is called with the interface's field type as the sub-type (direction of covariance reversed)", loc=cvi.loc())
    # argument invariance uses is_same
    R.check("R05-f", "argument-invariance", any((call_name(c) or "").endswith("Type::is_same") for c in cvi.walk() if c.get("k") == "MethodCall"),
            "argument types are compared for equality", "argument types of implemented fields are not compared with is_same", loc=cvi.loc())
    # ArgumentTypeNonNullAgainstInterface must not require the interface field to have arguments
    sites = [(i, x) for i, (x, _) in enumerate(cvi.nodes()) if x.get("k") == "Struct" and "rest" not in x and norm(x.get("variant", "")).endswith("ArgumentTypeNonNullAgainstInterface")]
    R.floor("R05-f", "additional-argument rule sites", len(sites), 1)
    for i, x in sites:
        bad = []
        for c in enclosing_contexts(cvi, i):
            conds = []
            if c[0] in ("if-then", "if-else"):
                conds.append(c[1]["cond"])
            for cond in conds:
                for fld in subnodes(cond):
                    if fld.get("k") == "Field" and fld["field"] == "arguments" and (IFACE, "fields") in _made_of(cvi, pv, fld["e"])[1]:
                        bad.append(fld["s"][0])
        R.check("R05-f", "additional-arguments-unconditional", not bad,
                "the required-additional-argument rule applies whenever the implementing field has arguments",
                "the rule `additional arguments must not be required` only runs when the *interface* field also declares arguments (line %s): "
                "`interface I { f: Int }` implemented by `f(x: Int!): Int` is accepted" % bad, loc=cvi.loc())
    # every interface field / argument is visited: loops over interface.fields and imp_field.arguments without truncation
    from templates import LOSSY_OR_REORDERING
    lossy = [c["method"] for c in cvi.walk() if c.get("k") == "MethodCall" and c["method"] in (LOSSY_OR_REORDERING - {"filter"})]
    R.check("R05-f", "no-truncation", not lossy, "all interface fields and arguments are visited", "check_valid_implementation truncates an iteration with %s" % lossy, loc=cvi.loc())
    n2 = iterator_reuse(P, R, "R05-f", [f for f in P.fns.values() if f.path.startswith(CK + "type_system_checker")])
    R.holds("R05-f", "iter-reuse:none", "%d iterator locals, none consumed twice" % n2)


def _r05f_union(P, R):
    # union members must be objects: the test on the member's definition names Object and nothing else (match / matches! / if let)
    f = position_inlined(P, "UnionTypeDefinition")
    TD = TS + "TypeDefinition"

    def mentions_td(e):
        return re.search(r"type_system::TypeDefinition\b", norm((e or {}).get("t") or "") or "") is not None

    def td_variants(pat):
        return {norm(x.get("ctor_of") or x.get("def") or "").split("::")[-1] for x in subnodes(pat)
                if x.get("k") in ("TupleStruct", "Struct", "PatExpr") and norm(x.get("adt") or x.get("pat_adt") or "") == TD}
    kinds = []
    for m in f.walk():
        k = m.get("k")
        v = set()
        if k == "Match" and not str(m.get("src", "")).startswith(("ForLoop", "TryDesugar")) and mentions_td(m["scrut"]):
            for arm in m["arms"]:
                v |= td_variants(arm["pat"])
        elif (k == "LetExpr" or (k == "Let" and "els" in m)) and mentions_td(m.get("init")):
            v = td_variants(m["pat"])
        if v:
            kinds.append(v)
    if not kinds:
        R.undecided("R05-f", "union-member-kind", "no test of a member's TypeDefinition kind on the path from %s" % f.path, loc=f.loc())
        return
    R.check("R05-f", "union-member-kind", all(v == {"Object"} for v in kinds), "union members must be Object types",
            "%s accepts member kinds other than Object (%s)" % (f.path, [sorted(v) for v in kinds if v != {"Object"}]), loc=f.loc())


def _r11d(P, R):
    # duplicate same-kind definitions across files are detected by ExtensionList::set_original (shared with C11)
    from c11 import r11d
    r11d(P, R)


def _r11e_builtins(P, R):
    # built-in definitions reach the schema the checker sees (shared with C11)
    from c11 import builtins_appended
    builtins_appended(P, R)


RULES = [("R05-a", r05a), ("R05-b", r05b), ("R05-c", r05c), ("R05-d", r05d), ("R05-e", r05e), ("R05-f", r05f), ("R11-d", _r11d), ("R11-e", _r11e_builtins)]
EXPLANATION = (
    "Type-system `check`, structural clauses for all schemas. The checker function of each kind of node is located by role (first "
    "parameter type), and a clause about a kind looks at everything that function reaches without entering another kind's function, "
    "so helper extraction, moves and renames do not change a verdict. (R05-a) every type-system position that can carry directives "
    "passes them to check_directives with exactly its spec location (input values disambiguated by their container; helpers that "
    "receive the list or the location as a parameter are decided through their callers), built-in directives list the spec's "
    "locations; (R05-b) an undefined type name is reported at every inout_kind_of_type call site, the kind table and the input/output "
    "predicates match the spec, and each position tests the right direction; (R05-c) sibling agreement — objects/interfaces "
    "apply the same per-field rules, input objects/argument lists the same per-input-value rules, both pass their own "
    "(name, fields, implements) to check_valid_implementation and report unknown / non-interface names inside the loop over "
    "`implements`; (R05-d) every content "
    "field of the type-system AST is read by the checker, every definition kind is dispatched, the directive-recursion search follows "
    "directives on types and on all their members; (R05-e) every type-system diagnostic is still constructed on the path of every "
    "position it applies to, reserved names are tested for every named node of every kind; (R05-f) implementation rules: is_subtype "
    "direction, recursion argument discipline, argument invariance, the "
    "additional-argument rule is unconditional on the interface side, union members are objects. Not decided: exactness of is_subtype "
    "and of the recursion search on concrete schemas.")
ASSUMPTIONS = ["GraphQL spec (October 2021) §3 type-system validation and directive locations, transcribed by hand",
               "TS_RULE_SITES / POSITION_RULES counts were confirmed by reading the tree after the fix: commits"]


def main(tier):
    return harness.run_property("C05", RULES, "other", EXPLANATION, ASSUMPTIONS, tier)
