"""C05 — Schema `check` verdict is exact on the implemented type-system rules (structural clauses)."""
import harness
from facts import (norm, call_name, short, subnodes, lit_value, matches_on, arm_variants, field_reads, peel_ty, str_lits_in)
from prov import Prov, has_field, has_call
from templates import (field_coverage, enclosing_contexts, variant_table, recursion_discipline, iterator_reuse)
from c03 import directive_sites, none_handling

CK = "nitrogql_checker::"
TS = "nitrogql_ast::type_system::"
ERR = CK + "error::CheckErrorMessage"

# spec locations of type-system positions; InputValueDefinition depends on its container
TS_LOCATIONS = {
    ("SchemaDefinition", "directives"): "SCHEMA",
    ("ScalarTypeDefinition", "directives"): "SCALAR",
    ("ObjectTypeDefinition", "directives"): "OBJECT",
    ("FieldDefinition", "directives"): "FIELD_DEFINITION",
    ("InterfaceTypeDefinition", "directives"): "INTERFACE",
    ("UnionTypeDefinition", "directives"): "UNION",
    ("EnumTypeDefinition", "directives"): "ENUM",
    ("EnumValueDefinition", "directives"): "ENUM_VALUE",
    ("InputObjectTypeDefinition", "directives"): "INPUT_OBJECT",
}
INPUT_VALUE_CONTAINER = {
    ("ArgumentsDefinition", "input_values"): "ARGUMENT_DEFINITION",
    ("InputObjectTypeDefinition", "fields"): "INPUT_FIELD_DEFINITION",
}

TS_AST = ["TypeSystemDocument", "SchemaDefinition", "ScalarTypeDefinition", "ObjectTypeDefinition", "FieldDefinition",
          "InterfaceTypeDefinition", "UnionTypeDefinition", "DirectiveDefinition", "ArgumentsDefinition", "InputValueDefinition",
          "EnumTypeDefinition", "EnumValueDefinition", "InputObjectTypeDefinition"]
EXEMPT = {
    ("InputValueDefinition", "default_value"): "the property lists no rule on default values of arguments/input fields",
    ("SchemaDefinition", "definitions"): "no listed rule governs root operation type definitions",
    ("SchemaDefinition", "description"): "descriptions carry no validation rule",
    ("ScalarTypeDefinition", "description"): "descriptions carry no validation rule",
    ("ObjectTypeDefinition", "description"): "descriptions carry no validation rule",
    ("FieldDefinition", "description"): "descriptions carry no validation rule",
    ("InterfaceTypeDefinition", "description"): "descriptions carry no validation rule",
    ("UnionTypeDefinition", "description"): "descriptions carry no validation rule",
    ("DirectiveDefinition", "description"): "descriptions carry no validation rule",
    ("InputValueDefinition", "description"): "descriptions carry no validation rule",
    ("EnumTypeDefinition", "description"): "descriptions carry no validation rule",
    ("EnumValueDefinition", "description"): "descriptions carry no validation rule",
    ("InputObjectTypeDefinition", "description"): "descriptions carry no validation rule",
    ("DirectiveDefinition", "repeatable"): "read when the directive is applied (check_directives via the type-system Schema), not when it is defined",
    ("DirectiveDefinition", "locations"): "read when the directive is applied (check_directives via the type-system Schema), not when it is defined",
}

TS_RULE_SITES = {
    "UnscoUnsco": 11, "DuplicatedName": 6, "UnknownType": 7, "RecursingDirective": 1, "NoOutputType": 2, "NoInputType": 2,
    "NotInterface": 2, "InterfaceNotImplemented": 1, "NoImplementSelf": 1, "InterfaceFieldNotImplemented": 1,
    "FieldTypeMisMatchWithInterface": 1, "InterfaceArgumentNotImplemented": 1, "ArgumentTypeMisMatchWithInterface": 1,
    "ArgumentTypeNonNullAgainstInterface": 1, "NonObjectTypeUnionMember": 1,
    "UnknownDirective": 1, "DirectiveLocationNotAllowed": 1, "RepeatedDirective": 1,
}


def entry(P):
    return P.fn(CK + "type_system_checker::check_type_system_document")


def scope(P):
    reach = P.reachable([entry(P)])
    return sorted(p for p in reach if not P.fns[p].derived)


def r05a(P, R):
    fns = [P.fns[p] for p in scope(P) if p.startswith(CK + "type_system_checker")]
    sites = directive_sites(P, fns)
    R.floor("R05-a", "check_directives call sites (type system)", len(sites), 11)
    covered = set()
    for f, c, src, lits, table, atoms in sites:
        srcs = {(a.replace(TS, ""), fld) for a, fld in src if a.startswith(TS)}
        pos = [s for s in srcs if s in TS_LOCATIONS]
        if ("InputValueDefinition", "directives") in srcs:
            conts = [k for k in INPUT_VALUE_CONTAINER if any(x[0] == "field" and x[1] == TS + k[0] and x[2] == k[1] for x in atoms)]
            key = "dirloc:InputValueDefinition@%s" % short(f.path)
            if len(conts) != 1:
                R.undecided("R05-a", key, "container of the input value is ambiguous: %s" % conts, loc=f.loc())
                continue
            want = INPUT_VALUE_CONTAINER[conts[0]]
            covered.add(("InputValueDefinition", conts[0][0]))
            R.check("R05-a", "dirloc:InputValueDefinition in %s" % conts[0][0], lits == {want}, "location %s" % want,
                    "%s checks directives of an input value inside %s.%s against %s; the spec location is %s"
                    % (f.path, conts[0][0], conts[0][1], sorted(lits), want), loc=f.loc())
            continue
        if len(pos) != 1:
            R.undecided("R05-a", "dirloc:%s" % short(f.path), "directives argument has provenance %s" % sorted(srcs), loc=f.loc())
            continue
        want = TS_LOCATIONS[pos[0]]
        # the element type alone does not identify the caller for FieldDefinition (object vs interface): key by function
        key = "dirloc:%s@%s" % (pos[0][0], f.name)
        covered.add((pos[0][0], f.name))
        R.check("R05-a", key, lits == {want}, "location %s" % want,
                "%s checks `%s.directives` against location %s; the GraphQL spec location for that position is %s"
                % (f.path, pos[0][0], sorted(lits), want), loc=f.loc())
    need = [("SchemaDefinition", "check_schema"), ("ScalarTypeDefinition", "check_scalar"), ("ObjectTypeDefinition", "check_object"),
            ("FieldDefinition", "check_object"), ("InterfaceTypeDefinition", "check_interface"), ("FieldDefinition", "check_interface"),
            ("UnionTypeDefinition", "check_union"), ("EnumTypeDefinition", "check_enum"), ("EnumValueDefinition", "check_enum"),
            ("InputObjectTypeDefinition", "check_input_object"), ("InputValueDefinition", "InputObjectTypeDefinition"),
            ("InputValueDefinition", "ArgumentsDefinition")]
    for n_ in need:
        R.check("R05-a", "dircover:%s@%s" % n_, n_ in covered, "directives at this position are validated",
                "directives on %s (in %s) are never passed to check_directives" % n_)
    # built-in directive definitions carry the spec's locations
    gb = P.fn("graphql_builtins::generate_builtins")
    spec = {"skip": {"FIELD", "FRAGMENT_SPREAD", "INLINE_FRAGMENT"}, "include": {"FIELD", "FRAGMENT_SPREAD", "INLINE_FRAGMENT"},
            "deprecated": {"FIELD_DEFINITION", "ARGUMENT_DEFINITION", "INPUT_FIELD_DEFINITION", "ENUM_VALUE"}, "specifiedBy": {"SCALAR"}}
    found = {}
    for c in gb.walk():
        if c.get("k") == "Call" and (call_name(c) or "") == "graphql_builtins::directive":
            name = lit_value(c["args"][0])
            locs = set(str_lits_in(c["args"][2]))
            found[name] = locs
    for name, want in sorted(spec.items()):
        R.check("R05-a", "builtin-locations:@" + name, found.get(name) == want, "@%s on %s" % (name, sorted(want)),
                "built-in directive @%s is defined for locations %s; the spec says %s" % (name, sorted(found.get(name) or []), sorted(want)), loc=gb.loc())
    nb = P.fn("nitrogql_cli::builtins::nitrogql_builtins")
    R.check("R05-a", "builtin-locations:@nitrogql_ts_type", "SCALAR" in str_lits_in(nb.body), "@nitrogql_ts_type on SCALAR", "nitrogql_ts_type location changed", loc=nb.loc())
    valid_locs = {"QUERY", "MUTATION", "SUBSCRIPTION", "FIELD", "FRAGMENT_DEFINITION", "FRAGMENT_SPREAD", "INLINE_FRAGMENT", "VARIABLE_DEFINITION",
                  "SCHEMA", "SCALAR", "OBJECT", "FIELD_DEFINITION", "ARGUMENT_DEFINITION", "INTERFACE", "UNION", "ENUM", "ENUM_VALUE", "INPUT_OBJECT",
                  "INPUT_FIELD_DEFINITION"}
    for f, c, src, lits, table, atoms in sites:
        bad = lits - valid_locs
        if bad:
            R.violated("R05-a", "location-name:%s" % short(f.path), "%s uses %s, which is not a directive location of the grammar" % (f.path, sorted(bad)), loc=f.loc())


def r05b(P, R):
    n = 0
    for name in ("check_object", "check_interface", "check_input_object", "check_arguments_definition"):
        f = P.fn(CK + "type_system_checker::" + name)
        n += none_handling(P, R, "R05-b", f)
    R.floor("R05-b", "inout_kind_of_type call sites", n, 4)
    # the kind table itself (spec IsInputType / IsOutputType)
    k = P.fn(CK + "types::inout_kind_of_type")
    want = {"Scalar": "Both", "Object": "Output", "Interface": "Output", "Union": "Output", "Enum": "Both", "InputObject": "Input"}
    for m in matches_on(k, "TypeDefinition"):
        tab = variant_table(m)
        for v, exp in sorted(want.items()):
            arm = tab.get(v)
            got = None
            if arm:
                ds = [norm(x.get("def", "")).split("::")[-1] for x in subnodes(arm["body"]) if x.get("k") == "Path" and "TypeInOutKind" in norm(x.get("def", ""))]
                got = ds[0] if ds else None
            R.check("R05-b", "kind:" + v, got == exp and "_" not in tab, "%s -> %s" % (v, exp), "%s types are classified as %s (spec: %s)" % (v, got, exp), loc=k.loc())
    ti = P.adt(CK + "types::TypeInOutKind")
    for fn_, accept in (("is_input_type", {"Input", "Both"}), ("is_output_type", {"Output", "Both"})):
        g = P.fn(CK + "types::TypeInOutKind::" + fn_)
        for m in matches_on(g, "TypeInOutKind"):
            tab = variant_table(m)
            truthy = {v for v, arm in tab.items() if lit_value(arm["body"]) is True}
            R.check("R05-b", "predicate:" + fn_, truthy == accept, "%s = %s" % (fn_, sorted(accept)), "%s is true for %s" % (fn_, sorted(truthy)), loc=g.loc())
    # directions: output positions use is_output_type, input positions is_input_type
    for name, want_pred, diag in (("check_object", "is_output_type", "NoInputType"), ("check_interface", "is_output_type", "NoInputType"),
                                  ("check_input_object", "is_input_type", "NoOutputType"), ("check_arguments_definition", "is_input_type", "NoOutputType")):
        f = P.fn(CK + "type_system_checker::" + name)
        preds = {c["method"] for c in f.walk() if c.get("k") == "MethodCall" and c["method"] in ("is_input_type", "is_output_type")}
        made = {norm(x.get("variant", "")).split("::")[-1] for x in f.walk() if x.get("k") == "Struct" and "rest" not in x}
        R.check("R05-b", "direction:" + name, preds == {want_pred} and diag in made, "%s / %s" % (want_pred, diag),
                "%s tests %s and reports %s (expected %s / %s)" % (f.path, sorted(preds), sorted(made & {"NoInputType", "NoOutputType"}), want_pred, diag), loc=f.loc())


def loop_diagnostics(f, elem_adt):
    """multiset of diagnostics constructed inside the `for` loop whose element is `elem_adt`"""
    out = {}
    for m in f.walk():
        if m.get("k") == "Match" and m.get("src") == "ForLoopDesugar" and elem_adt in norm(m["scrut"].get("t", "")):
            for x in subnodes(m):
                if x.get("k") == "Struct" and "rest" not in x and norm(x.get("adt", "")) == ERR:
                    v = norm(x["variant"]).split("::")[-1]
                    out[v] = out.get(v, 0) + 1
                elif x.get("k") == "Path" and x.get("dk", "").startswith("Ctor") and norm(x.get("adt", "")) == ERR:
                    v = norm(x["def"]).split("::")[-1]
                    out[v] = out.get(v, 0) + 1
            calls = sorted(set(short(call_name(x)) for x in subnodes(m) if x.get("k") == "Call" and (call_name(x) or "").startswith(CK)))
            return out, calls
    return None, None


def r05c(P, R):
    pairs = [("check_object", "check_interface", "FieldDefinition"), ("check_input_object", "check_arguments_definition", "InputValueDefinition")]
    for a, b, elem in pairs:
        fa, fb = P.fn(CK + "type_system_checker::" + a), P.fn(CK + "type_system_checker::" + b)
        da, ca = loop_diagnostics(fa, elem)
        db, cb = loop_diagnostics(fb, elem)
        if da is None or db is None:
            R.undecided("R05-c", "sibling:%s~%s" % (a, b), "element loop not found", loc=fa.loc())
            continue
        R.check("R05-c", "sibling:%s~%s" % (a, b), da == db and ca == cb,
                "the per-%s rules are the same in both (%s)" % (elem, sorted(da)),
                "%s and %s apply different rules to each %s: %s reports %s (calls %s), %s reports %s (calls %s)"
                % (a, b, elem, a, da, ca, b, db, cb), loc=fb.loc())
    # implements handling: both call check_valid_implementation with their own name/fields/implements
    for name in ("check_object", "check_interface"):
        f = P.fn(CK + "type_system_checker::" + name)
        pv = Prov(f)
        calls = [c for c in f.walk() if c.get("k") == "Call" and (call_name(c) or "").endswith("interfaces::check_valid_implementation")]
        R.floor("R05-c", "check_valid_implementation call in " + name, len(calls), 1)
        adt = TS + ("ObjectTypeDefinition" if name == "check_object" else "InterfaceTypeDefinition")
        for c in calls:
            own = pv.params.get(f.params[0].get("local"))
            ok = has_field(pv.atoms(c["args"][1]), adt, "name") and has_field(pv.atoms(c["args"][2]), adt, "fields") and has_field(pv.atoms(c["args"][3]), adt, "implements")
            # ... of the type being checked (first parameter), not of a definition looked up in the schema
            for ai in (1, 2, 3):
                ps = {x[1] for x in pv.data_atoms(c["args"][ai]) if x[0] == "param"}
                ok = ok and ps == {own}
            R.check("R05-c", "implementation-args:" + name, ok, "(name, fields, implements) of the implementing type",
                    "%s passes the wrong components to check_valid_implementation" % f.path, loc=f.loc())
        made = {norm(x.get("variant", "")).split("::")[-1] for x in f.walk() if x.get("k") == "Struct" and "rest" not in x}
        R.check("R05-c", "implements-rules:" + name, {"UnknownType", "NotInterface"} <= made, "unknown / non-interface `implements` reported",
                "%s does not report unknown or non-interface implemented types" % f.path, loc=f.loc())


def r05d(P, R):
    sc = scope(P)
    R.count("functions_reachable_from_check_type_system_document", len(sc))
    ex = {(TS + a if not a.startswith("nitrogql") else a, f): r for (a, f), r in EXEMPT.items()}
    n = field_coverage(P, R, "R05-d", sc, [TS + t for t in TS_AST], {(TS + a, f): r for (a, f), r in EXEMPT.items()},
                       "the type-system checker (reachable from check_type_system_document)")
    R.floor("R05-d", "type-system AST content fields", n, 30)
    e = entry(P)
    for enum in ("type_system::TypeSystemDefinition", "type_system::TypeDefinition"):
        adt = P.adt("nitrogql_ast::" + enum)
        for m in matches_on(e, enum):
            v, catch = arm_variants(m)
            R.check("R05-d", "dispatch:" + enum.split("::")[-1], v == set(adt.variant_names()) and not catch, "every definition kind is dispatched",
                    "check_type_system_document does not dispatch %s" % sorted(set(adt.variant_names()) - v), loc=e.loc())
    # directive recursion search follows directives on every nested element of an argument's type
    d = P.fn(CK + "type_system_checker::check_directive_recursion::directives_in_type")
    pv = Prov(d)
    nested = {"Scalar": [("ScalarTypeDefinition", "directives")], "Union": [("UnionTypeDefinition", "directives")],
              "Object": [("ObjectTypeDefinition", "directives"), ("ObjectTypeDefinition", "fields"), ("FieldDefinition", "directives")],
              "Interface": [("InterfaceTypeDefinition", "directives"), ("InterfaceTypeDefinition", "fields"), ("FieldDefinition", "directives")],
              "Enum": [("EnumTypeDefinition", "directives"), ("EnumTypeDefinition", "values"), ("EnumValueDefinition", "directives")],
              "InputObject": [("InputObjectTypeDefinition", "directives"), ("InputObjectTypeDefinition", "fields"), ("InputValueDefinition", "directives")]}
    for m in matches_on(d, "type_system::TypeDefinition"):
        tab = variant_table(m)
        for v, want in sorted(nested.items()):
            arm = tab.get(v)
            a = pv.atoms(arm["body"]) if arm else set()
            missing = [w for w in want if not has_field(a, TS + w[0], w[1])]
            R.check("R05-d", "recursion-follows:" + v, arm is not None and not missing, "directives on the type and on its members are followed",
                    "the directive-recursion search does not follow %s of %s types: a directive that refers to itself through them is accepted"
                    % (["%s.%s" % w for w in missing], v), loc=d.loc())
    cr = P.fn(CK + "type_system_checker::check_directive_recursion::check_directive_recursion")
    pvr = Prov(cr)
    a = pvr.atoms(cr.body)
    ok = has_field(a, TS + "InputValueDefinition", "directives") and has_field(a, TS + "InputValueDefinition", "type") and has_call(a, "directives_in_type")
    R.check("R05-d", "recursion-edges", ok, "edges: argument directives and directives in the argument's type",
            "check_directive_recursion does not follow both the argument's own directives and its type's directives", loc=cr.loc())


def r05e(P, R):
    sc = scope(P)
    counts = {}
    for p in sc:
        f = P.fns[p]
        for x in f.walk():
            v = None
            if x.get("k") == "Struct" and "rest" not in x and norm(x.get("adt", "")) == ERR:
                v = norm(x["variant"]).split("::")[-1]
            elif x.get("k") == "Path" and norm(x.get("adt", "")) == ERR and x.get("dk", "").startswith("Ctor"):
                v = norm(x["def"]).split("::")[-1]
            if v:
                counts[v] = counts.get(v, 0) + 1
    for v, need in sorted(TS_RULE_SITES.items()):
        got = counts.get(v, 0)
        R.check("R05-e", "live:" + v, got >= need, "%d construction site(s) reachable from check_type_system_document" % got,
                "diagnostic %s is constructed at %d site(s) reachable from check_type_system_document, %d were confirmed on the reference tree: "
                "a rule instance was removed or is no longer reachable" % (v, got, need))
    # reserved-name rule on every named definition kind and member kind
    un = P.fn(CK + "type_system_checker::name_starts_with_unscounsco")
    callers = sorted(short(c) for c in P.callers_of(un.path))
    need = {"type_system_checker::" + x for x in ("check_directive", "check_scalar", "check_object", "check_interface", "check_union", "check_enum", "check_input_object", "check_arguments_definition")}
    R.check("R05-e", "reserved-names", need <= set(callers), "`__` names rejected for every kind of definition",
            "the reserved-name rule is not applied in %s" % sorted(need - set(callers)), loc=un.loc())
    lits = [x.get("v") for x in un.walk() if x.get("k") == "Lit"]
    R.check("R05-e", "reserved-prefix", lits == ["__"], "prefix `__`", "reserved prefix literal is %s" % lits, loc=un.loc())


def r05f(P, R):
    """interface implementation rules: reachability, recursion discipline, and what each sub-rule is conditional on"""
    cvi = P.fn(CK + "type_system_checker::interfaces::check_valid_implementation")
    sub = P.fn(CK + "types::is_subtype")
    R.check("R05-f", "covariance-reach", sub.path in P.callees_of(cvi)[0], "field types are compared with is_subtype",
            "check_valid_implementation no longer uses is_subtype for the covariant return type rule", loc=cvi.loc())
    n = recursion_discipline(P, R, "R05-f", [sub, P.fn("nitrogql_ast::type::Type::is_same")])
    R.floor("R05-f", "recursive argument positions", n, 6)
    # non-null stripping of the super-type side happens only when the sub-type side is itself non-null:
    # `[T]` is not a sub-type of `[T]!`, `T` is not a sub-type of `T!`
    spv = Prov(sub)
    TY = "graphql_type_system::r#type::Type"
    tparam, oparam = spv.params.get(sub.params[1].get("local")), spv.params.get(sub.params[2].get("local"))
    tmatch = [m for m in sub.walk() if m.get("k") == "Match" and not m.get("x") and {x[1] for x in spv.atoms(m["scrut"]) if x[0] == "param"} == {tparam}
              and any(("variant" in str(a)) or True for a in [0])]
    tmatch = [m for m in tmatch if {"NonNull", "List", "Named"} <= arm_variants(m)[0]]
    R.floor("R05-f", "is_subtype: match over the sub-type side", len(tmatch), 1)
    stripped_uses = 0
    for i, (x, _) in enumerate(sub.nodes()):
        if x.get("k") != "Path" or "local" not in x:
            continue
        a = spv.atoms(x)
        if ("param", oparam) not in a or not any(t[0] == "variant" and t[1].endswith("Type::NonNull") for t in a):
            continue
        if ("param", tparam) in a:
            continue
        # `x` is (possibly) the super-type with its NonNull removed; where is it used?
        arms = [c for c in enclosing_contexts(sub, i) if c[0] == "arm" and c[1] in tmatch]
        if not arms:
            # defined/used outside the match over the sub-type: only its definition site (a binding initialiser) is allowed there
            ctxs = enclosing_contexts(sub, i)
            in_let_init = any(n.get("k") == "Let" and n.get("init") is not None and x in subnodes(n["init"]) for n, _ in sub.nodes())
            if in_let_init:
                continue
            R.violated("R05-f", "nonnull-strip-scope", "is_subtype uses the NonNull-stripped super-type outside the match on the sub-type", loc=sub.loc())
            continue
        stripped_uses += 1
        v, _c = arm_variants({"arms": [arms[0][2]]})
        R.check("R05-f", "nonnull-strip-scope:" + "/".join(sorted(v)), v == {"NonNull"},
                "the super-type's NonNull is ignored only when the sub-type is NonNull",
                "is_subtype compares a %s sub-type against the super-type with its NonNull wrapper removed: a nullable (list) type is accepted "
                "where the interface demands a non-null one" % "/".join(sorted(v)), loc=sub.loc())
    R.floor("R05-f", "uses of the stripped super-type", stripped_uses, 1)
    pv = Prov(cvi)
    # is_subtype(field type, interface field type) in this order; violation only on Some(false)
    calls = [c for c in cvi.walk() if c.get("k") == "Call" and call_name(c) == sub.path]
    R.floor("R05-f", "is_subtype calls", len(calls), 1)
    IFACE = TS + "InterfaceTypeDefinition"
    for c in calls:
        a1, a2 = pv.data_atoms(c["args"][1]), pv.data_atoms(c["args"][2])
        ok = ("param", "fields") in a1 and not has_field(a1, IFACE, "fields") and has_field(a2, IFACE, "fields")
        R.check("R05-f", "covariance-direction", ok, "is_subtype(implementing field type, interface field type)",
                "is_subtype is called with the interface's field type as the sub-type (direction of covariance reversed)", loc=cvi.loc())
    # argument invariance uses is_same
    R.check("R05-f", "argument-invariance", any((call_name(c) or "").endswith("Type::is_same") for c in cvi.walk() if c.get("k") == "MethodCall"),
            "argument types are compared for equality", "argument types of implemented fields are not compared with is_same", loc=cvi.loc())
    # ArgumentTypeNonNullAgainstInterface must not require the interface field to have arguments
    sites = [(i, x) for i, (x, _) in enumerate(cvi.nodes()) if x.get("k") == "Struct" and "rest" not in x and norm(x.get("variant", "")).endswith("ArgumentTypeNonNullAgainstInterface")]
    R.floor("R05-f", "additional-argument rule sites", len(sites), 1)
    for i, x in sites:
        bad = []
        for c in enclosing_contexts(cvi, i):
            conds = []
            if c[0] in ("if-then", "if-else"):
                conds.append(c[1]["cond"])
            for cond in conds:
                for fld in subnodes(cond):
                    if fld.get("k") == "Field" and fld["field"] == "arguments" and has_field(pv.data_atoms(fld["e"]), IFACE, "fields"):
                        bad.append(fld["s"][0])
        R.check("R05-f", "additional-arguments-unconditional", not bad,
                "the required-additional-argument rule applies whenever the implementing field has arguments",
                "the rule `additional arguments must not be required` only runs when the *interface* field also declares arguments (line %s): "
                "`interface I { f: Int }` implemented by `f(x: Int!): Int` is accepted" % bad, loc=cvi.loc())
    # every interface field / argument is visited: loops over interface.fields and imp_field.arguments without truncation
    from templates import LOSSY_OR_REORDERING
    lossy = [c["method"] for c in cvi.walk() if c.get("k") == "MethodCall" and c["method"] in (LOSSY_OR_REORDERING - {"filter"})]
    R.check("R05-f", "no-truncation", not lossy, "all interface fields and arguments are visited", "check_valid_implementation truncates an iteration with %s" % lossy, loc=cvi.loc())
    n2 = iterator_reuse(P, R, "R05-f", [f for f in P.fns.values() if f.path.startswith(CK + "type_system_checker")])
    R.holds("R05-f", "iter-reuse:none", "%d iterator locals, none consumed twice" % n2)
    # union members must be objects
    cu = P.fn(CK + "type_system_checker::check_union")
    ok = False
    for m in matches_on(cu, "type_system::TypeDefinition"):
        v, catch = arm_variants(m)
        if v == {"Object"}:
            ok = True
    R.check("R05-f", "union-member-kind", ok, "union members must be Object types", "check_union accepts member kinds other than Object", loc=cu.loc())


def _r11d(P, R):
    # duplicate same-kind definitions across files are detected by ExtensionList::set_original (shared with C11)
    from c11 import r11d
    r11d(P, R)


RULES = [("R05-a", r05a), ("R05-b", r05b), ("R05-c", r05c), ("R05-d", r05d), ("R05-e", r05e), ("R05-f", r05f), ("R11-d", _r11d)]
EXPLANATION = (
    "Type-system `check`, structural clauses for all schemas: (R05-a) every type-system position that can carry directives is passed to "
    "check_directives with exactly its spec location (input values disambiguated by their container), built-in directives list the spec's "
    "locations; (R05-b) an undefined type name is reported at every inout_kind_of_type call site, the kind table and the input/output "
    "predicates match the spec, and each position tests the right direction; (R05-c) sibling agreement — check_object/check_interface "
    "apply the same per-field rules, check_input_object/check_arguments_definition the same per-input-value rules; (R05-d) every content "
    "field of the type-system AST is read by the checker, every definition kind is dispatched, the directive-recursion search follows "
    "directives on types and on all their members; (R05-e) every type-system diagnostic keeps its construction sites, reserved names are "
    "tested for every kind; (R05-f) implementation rules: is_subtype direction, recursion argument discipline, argument invariance, the "
    "additional-argument rule is unconditional on the interface side, union members are objects. Not decided: exactness of is_subtype "
    "and of the recursion search on concrete schemas.")
ASSUMPTIONS = ["GraphQL spec (October 2021) §3 type-system validation and directive locations, transcribed by hand",
               "TS_RULE_SITES counts were confirmed by reading the tree after the fix: commits"]


def main(tier):
    return harness.run_property("C05", RULES, "other", EXPLANATION, ASSUMPTIONS, tier)
