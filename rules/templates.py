"""Reusable rule templates (DESIGN.md §5)."""
from facts import field_reads, norm, short, subnodes, call_name

POS_TYPES = ("nitrogql_ast::base::Pos", "nitrogql_ast::base::Keyword")


def semantic_fields(adt, exempt=()):
    """fields of a struct ADT that carry document content: everything whose type is not a
    source position, minus an explicit exemption list"""
    out = []
    for name, ty in adt.field_types().items():
        if ty in POS_TYPES:
            continue
        if name in exempt:
            continue
        out.append(name)
    return out


def reads_in(P, fn_paths, include_derived=False):
    """union of ADT field reads over a set of function paths -> {(adt,field): [fn paths]}"""
    out = {}
    for p in fn_paths:
        f = P.fns.get(p)
        if f is None:
            continue
        if f.derived and not include_derived:
            continue
        for key in field_reads(f):
            out.setdefault(key, []).append(p)
    return out


def field_coverage(P, R, rule, scope_fns, adt_paths, exempt, what):
    """T1: every semantic field of every listed ADT is read by some function in scope.
    exempt: {(adt_suffix, field): reason}"""
    reads = reads_in(P, scope_fns)
    n = 0
    for ap in adt_paths:
        adt = P.adt(ap)
        ex = {f for (a, f) in exempt if adt.path.endswith(a)}
        for f in semantic_fields(adt, ex):
            n += 1
            key = "%s.%s" % (adt.path.split("::")[-1], f)
            readers = reads.get((adt.path, f), [])
            if readers:
                R.holds(rule, key, "read by %s" % short(readers[0]), loc=P.fns[readers[0]].loc())
            else:
                R.violated(rule, key,
                           "field `%s` of `%s` is read by no function of %s (%d functions in scope): "
                           "the output cannot depend on it, for every input" % (f, adt.path, what, len(scope_fns)),
                           loc="%s:%d" % (adt.file, adt.line),
                           detail={"adt": adt.path, "field": f, "scope_size": len(scope_fns)})
    return n


def enclosing(fn, node_index, kinds):
    """nearest ancestor of nodes()[node_index] whose kind is in `kinds` -> (node, index) or None"""
    acc = fn.nodes()
    p = acc[node_index][1]
    while p >= 0:
        if acc[p][0].get("k") in kinds:
            return acc[p][0], p
        p = acc[p][1]
    return None


def index_of(fn, node):
    for i, (n, _) in enumerate(fn.nodes()):
        if n is node:
            return i
    return -1


LOSSY_OR_REORDERING = {
    # iterator adaptors that drop, duplicate or reorder elements
    "filter", "filter_map", "skip", "skip_while", "take", "take_while", "step_by", "rev", "dedup",
    "dedup_by", "dedup_by_key", "unique", "unique_by", "sorted", "sorted_by", "sorted_by_key",
    "map_while", "cycle", "nth", "last", "peekable_skip",
    # in-place operations on a Vec/slice
    "sort", "sort_by", "sort_by_key", "sort_unstable", "sort_unstable_by", "sort_unstable_by_key",
    "sort_by_cached_key", "reverse", "swap", "swap_remove", "retain", "retain_mut", "truncate",
    "drain", "remove", "pop", "clear", "rotate_left", "rotate_right", "insert", "split_off",
}


def enclosing_contexts(fn, idx):
    """list (innermost first) of control contexts around nodes()[idx]:
       ("arm", match_node, arm_node) | ("if-then"/"if-else", if_node) | ("loop", loop_node) |
       ("closure", closure_node) | ("let-else", let_node)"""
    acc = fn.nodes()
    out = []
    child = idx
    p = acc[idx][1]
    while p >= 0:
        n = acc[p][0]
        k = n.get("k")
        c = acc[child][0]
        if k == "Arm":
            # find the match
            pp = acc[p][1]
            while pp >= 0 and acc[pp][0].get("k") != "Match":
                pp = acc[pp][1]
            in_body = _contains(n.get("body"), c)
            if in_body:
                out.append(("arm", acc[pp][0] if pp >= 0 else None, n))
        elif k == "If":
            if _contains(n.get("then"), c):
                out.append(("if-then", n))
            elif "else" in n and _contains(n.get("else"), c):
                out.append(("if-else", n))
        elif k == "Loop":
            out.append(("loop", n))
        elif k == "Closure":
            out.append(("closure", n))
        elif k == "Let" and "els" in n and _contains(n["els"], c):
            out.append(("let-else", n))
        child = p
        p = acc[p][1]
    return out


def _contains(root, node):
    if root is None:
        return False
    if root is node:
        return True
    st = [root]
    while st:
        x = st.pop()
        if x is node:
            return True
        if isinstance(x, dict):
            st.extend(v for v in x.values() if isinstance(v, (dict, list)))
        elif isinstance(x, list):
            st.extend(v for v in x if isinstance(v, (dict, list)))
    return False


def method_chain(expr):
    """method names along a receiver chain, outermost last: a.b().c() -> (base expr, [b, c] nodes)"""
    chain = []
    e = expr
    while e.get("k") == "MethodCall":
        chain.append(e)
        e = e["recv"]
    chain.reverse()
    return e, chain


def arm_value(arm):
    """the value an arm evaluates to when it is a plain path/literal/ctor call: ('def', path) | ('lit', v) | None"""
    from facts import norm, lit_value, call_name
    e = arm["body"]
    while e.get("k") in ("BlockExpr", "DropTemps", "Use"):
        if e.get("k") == "BlockExpr":
            if e["b"]["stmts"] or "tail" not in e["b"]:
                return None
            e = e["b"]["tail"]
        else:
            e = e["e"]
    v = lit_value(e)
    if v is not None:
        return ("lit", v)
    if e.get("k") == "Path" and e.get("def"):
        return ("def", norm(e["def"]))
    if e.get("k") == "Call":
        c = call_name(e)
        if c:
            inner = arm_value({"body": e["args"][0]}) if e["args"] else None
            return ("call", c, inner)
    return None


def variant_table(match):
    """{variant name: arm} for a match over an enum (or-patterns expanded); '_' for a catch-all arm"""
    from facts import arm_variants
    out = {}
    for arm in match["arms"]:
        v, catch = arm_variants({"arms": [arm]})
        for x in v:
            out.setdefault(x, arm)
        if catch:
            out.setdefault("_", arm)
    return out


def recursion_discipline(P, R, rule, fns):
    """for directly recursive functions with several parameters of one type: every recursive call passes, in position i,
    something derived from parameter i and from no other same-typed parameter (catches swapped arguments)"""
    from prov import Prov
    from facts import call_name, short
    n = 0
    for f in fns:
        if f.kind not in ("Fn", "AssocFn"):
            continue
        tys = f.sig_inputs
        names = [p.get("name") for p in f.params]
        groups = {}
        for i, t in enumerate(tys):
            groups.setdefault(t, []).append(i)
        same = [g for g in groups.values() if len(g) >= 2]
        if not same:
            continue
        calls = [c for c in f.walk() if c.get("k") in ("Call", "MethodCall") and call_name(c) == f.path]
        if not calls:
            continue
        pv = Prov(f)
        for ci, c in enumerate(calls):
            args = ([c["recv"]] if c.get("k") == "MethodCall" else []) + c["args"]
            if len(args) != len(tys):
                continue
            for g in same:
                for i in g:
                    if names[i] is None:
                        continue
                    a = {x[1] for x in pv.atoms(args[i]) if x[0] == "param"}
                    others = {names[j] for j in g if j != i and names[j]}
                    n += 1
                    ok = names[i] in a and not (a & others)
                    R.check(rule, "recursion:%s#%d:arg%d" % (short(f.path), ci, i), ok,
                            "recursive call passes a component of `%s` in position %d" % (names[i], i),
                            "%s: recursive call #%d passes in position %d (parameter `%s`) a value derived from %s: the arguments "
                            "of the structural recursion are swapped or mixed" % (f.path, ci, i, names[i], sorted(a) or "neither parameter"),
                            loc=f.loc())
    return n


def pat_matches(pat, value):
    """does a pattern match an abstract value? value: a variant name (str) or a tuple of values; wildcards match anything.
    Variant payloads are not inspected (sub-patterns of a variant are assumed irrefutable)."""
    from facts import norm
    k = pat.get("k")
    if k in ("Ref", "Deref", "Box"):
        return pat_matches(pat["p"], value)
    if k in ("Wild",):
        return True
    if k == "Binding":
        return pat_matches(pat["sub"], value) if "sub" in pat else True
    if k == "Or":
        return any(pat_matches(p, value) for p in pat["ps"])
    if k == "Tuple":
        if not isinstance(value, tuple) or len(value) != len(pat["ps"]):
            return False
        return all(pat_matches(p, v) for p, v in zip(pat["ps"], value))
    if k in ("TupleStruct", "Struct", "PatExpr"):
        d = pat.get("ctor_of") or pat.get("def")
        if d is None:
            return False
        return norm(d).split("::")[-1] == value
    return False


def first_match(match, value):
    """index of the first arm (without guard) whose pattern matches the abstract value, or None"""
    for i, arm in enumerate(match["arms"]):
        if "guard" in arm:
            continue
        if pat_matches(arm["pat"], value):
            return i
    return None


def iterator_reuse(P, R, rule, fns):
    """an iterator bound to a local and consumed by more than one partial consumer: the second one only sees what the
    first left over (e.g. `it.any(a) && it.any(b)`)"""
    from facts import short, peel_ty
    partial = {"any", "all", "find", "find_map", "position", "next", "nth", "take", "take_while", "skip_while", "try_fold", "try_for_each"}
    n = 0
    for f in fns:
        uses = {}
        for c in f.walk():
            if c.get("k") == "MethodCall" and c["recv"].get("k") == "Path" and "local" in c["recv"]:
                t = peel_ty(c["recv"].get("t", ""))
                is_iter = "::Iter<" in t or "::IntoIter<" in t or t.startswith(("core::iter::", "core::slice::iter::", "alloc::vec::into_iter")) or "impl Iterator" in t or "impl core::iter" in t
                if is_iter:
                    uses.setdefault((c["recv"]["local"], c["recv"].get("name")), []).append(c["method"])
        for (lid, name), ms in uses.items():
            n += 1
            cons = [m for m in ms if m in partial]
            if len(cons) >= 2 and name not in ("iter",):
                R.violated(rule, "iter-reuse:%s:%s" % (short(f.path), name),
                           "%s consumes the iterator `%s` with %s in sequence: each consumer only sees the elements the previous one "
                           "left, so the result depends on element order" % (f.path, name, cons), loc=f.loc())
    return n


# --------------------------------------------------------------------------------------------- stateful guards
import re as _re
_STATE_TY = _re.compile(r"RefCell<|(?<![A-Za-z])Cell<|Mutex<|RwLock<|Atomic[A-Z]|OnceCell<|OnceLock<|RefMut<|cell::Ref<|MutexGuard<|LocalKey<|&mut ")
_ITER_TY = _re.compile(r"::iter::|IntoIter|Iter<|Chars<|Peekable<|Pairs<")


_SELECTING = ("filter", "filter_map", "take_while", "skip_while", "map_while", "find", "find_map", "retain", "position", "any", "all", "then", "then_some")
_STATEFUL_ADT = {}


def stateful_adt(P, t, depth=0, seen=None):
    """does type string t mention a workspace ADT that (transitively) owns interior-mutable state?"""
    if P is None:
        return False
    seen = seen if seen is not None else set()
    for ap, adt in P.adts.items():
        if ap in t and ap not in seen:
            seen.add(ap)
            key = (id(P), ap)
            if key not in _STATEFUL_ADT:
                _STATEFUL_ADT[key] = False
                for ft in [norm(f["ty"]) for v in adt.variants for f in v["fields"]]:
                    ft = str(ft)
                    if _GLOBAL_STATE_TY.search(ft) or (depth < 3 and stateful_adt(P, ft, depth + 1, seen)):
                        _STATEFUL_ADT[key] = True
                        break
            if _STATEFUL_ADT[key]:
                return True
    return False


_IS_STATE = {}


def _is_state(P, t):
    t = str(t)
    k = (id(P), t)
    if k not in _IS_STATE:
        _IS_STATE[k] = bool(_STATE_TY.search(t) and not _ITER_TY.search(t)) or ("::" in t and stateful_adt(P, t))
    return _IS_STATE[k]


def stateful_guards(fn, P=None, adaptors=False):
    """guards (if conditions, let-else initialisers, match scrutinees outside loop desugaring, predicate closures of selecting
    adaptors) that read interior-mutable or `&mut`-borrowed state (with P: also workspace types wrapping such state):
    [(node index of the guarded construct, guard expr, state type, [guarded blocks])]"""
    out = []
    for i, (x, _) in enumerate(fn.nodes()):
        k = x.get("k")
        if k == "If":
            g, blocks = x["cond"], [x.get("then"), x.get("else")]
        elif k == "Let" and "els" in x:
            g, blocks = x.get("init"), [x["els"]]
        elif k == "Match" and not x.get("x"):
            g, blocks = x["scrut"], [a["body"] for a in x["arms"]]
        elif adaptors and k == "MethodCall" and x.get("method") in _SELECTING and any(a.get("k") == "Closure" for a in x["args"]):
            g, blocks = [a for a in x["args"] if a.get("k") == "Closure"][0]["body"], []
        else:
            continue
        if g is None:
            continue
        for y in subnodes(g):
            t = str(y.get("t", ""))
            if _is_state(P, t):
                out.append((i, g, t, [b for b in blocks if b is not None]))
                break
    return out


PROGRAM_FOR_MEMO = None


def memo_key_gaps(fn, guard, pv):
    """for a stateful guard of the form `state.insert(key)` / `state.contains(key)` / `state.get(key)`: the parameters of `fn`
    (other than the state holder and `&mut` sinks) that the key expression does not derive from"""
    key_params, holder = set(), set()
    for y in subnodes(guard):
        if y.get("k") == "MethodCall" and (y.get("method") in ("insert", "contains", "contains_key", "get", "replace", "entry", "remove", "get_mut", "take",
                                                                 "get_or_insert_with", "get_or_init")
                                           or (PROGRAM_FOR_MEMO is not None and _wrapper_is_memo(PROGRAM_FOR_MEMO, call_name(y)))):
            for a in y["args"]:
                key_params |= {p[1] for p in pv.atoms(a) if p[0] == "param"}
            holder |= {p[1] for p in pv.atoms(y["recv"]) if p[0] == "param"}
    req = []
    for p in fn.params:
        if str(p.get("t", "")).startswith("&mut "):
            continue
        for b in subnodes(p):
            if b.get("k") == "Binding" and pv.params.get(b["local"]) not in holder:
                req.append(pv.params.get(b["local"]))
    return sorted(set(req) - key_params), sorted(key_params), sorted(holder)


def constant_params(P, entry_fn, scope_fns):
    """{fn path: {param index}} of parameters that, at every call site inside `scope_fns`, receive the caller's own constant
    parameter unchanged, or (in the entry) a local bound outside any loop / an entry parameter: values fixed for the whole run
    of the entry function."""
    from facts import call_name
    idx = {f.path: f for f in scope_fns}
    const = {f.path: set(range(len(f.params))) for f in scope_fns}
    const[entry_fn.path] = set(range(len(entry_fn.params)))
    sites = []
    for f in scope_fns:
        plocal = {}
        for i, p in enumerate(f.params):
            if p.get("k") == "Binding":
                plocal[p["local"]] = i
        for j, (x, _) in enumerate(f.nodes()):
            if x.get("k") == "Call" and call_name(x) in idx and call_name(x) != entry_fn.path:
                in_loop = any(c[0] in ("loop", "closure") for c in enclosing_contexts(f, j))
                sites.append((f, plocal, x, in_loop))
    loop_locals = {}
    for f in scope_fns:
        ll = set()
        for j, (x, _) in enumerate(f.nodes()):
            if x.get("k") == "Binding" and any(c[0] in ("loop", "closure", "arm") for c in enclosing_contexts(f, j)):
                ll.add(x["local"])
        loop_locals[f.path] = ll
    changed = True
    while changed:
        changed = False
        for f, plocal, x, in_loop in sites:
            callee = call_name(x)
            for ai, a in enumerate(x["args"]):
                if ai not in const[callee]:
                    continue
                e = a
                while e.get("k") in ("AddrOf", "Unary", "DropTemps", "Cast"):
                    e = e["e"]
                ok = False
                if e.get("k") == "Path" and "local" in e:
                    if e["local"] in plocal:
                        ok = plocal[e["local"]] in const[f.path]
                    elif f.path == entry_fn.path:
                        ok = e["local"] not in loop_locals[f.path]
                if not ok:
                    const[callee].discard(ai)
                    changed = True
    return const


# --------------------------------------------------------------------------------------------- global state
_GLOBAL_STATE_TY = _re.compile(r"RefCell<|(?<![A-Za-z])Cell<|Mutex<|RwLock<|Atomic[A-Z]|OnceCell<|OnceLock<|LazyLock<|LazyCell<|thread_local::")


def global_state_holders(P):
    """{def path: (type, file)} of workspace statics / thread-locals that can hold run-time state: a `thread_local!` key, a
    `static mut`, or a static whose type (or, for workspace ADTs, a field type, transitively) has interior mutability"""
    out = {}

    def stateful(t, depth=0, seen=None):
        seen = seen or set()
        if _GLOBAL_STATE_TY.search(t):
            return True
        if depth > 3:
            return False
        for ap, adt in P.adts.items():
            if ap in t and ap not in seen:
                seen.add(ap)
                for ft in (adt.field_types() or {}).values():
                    if stateful(str(ft), depth + 1, seen):
                        return True
        return False
    for f in P.fns.values():
        if not f.kind.startswith("Static"):
            continue
        t = str(f.body.get("t", ""))
        if "mutability: Mut" in f.kind or stateful(t):
            path = f.path.split("::{constant#")[0]
            out.setdefault(path, (t, f.file))
    return out


def global_state_uses(P, scope_fns, holders):
    """[(fn, holder path, missing params, key params)] for functions in scope that touch a global state holder. `missing` lists
    the non-`&mut` parameters of the function that a keyed access (entry/get/insert/contains_key) to the holder does not derive its
    key from; None when the access is not keyed."""
    from prov import Prov
    out = []
    for f in scope_fns:
        touched = {norm(x.get("def", "")) for x in f.walk() if x.get("k") == "Path" and norm(x.get("def", "")) in holders}
        if not touched:
            continue
        pv = Prov(f)
        for h in sorted(touched):
            keyed = [y for y in f.walk() if y.get("k") == "MethodCall" and y.get("method") in ("entry", "get", "insert", "contains_key", "contains", "get_mut", "get_or_insert_with")
                     and ("def", h) in pv.atoms(y["recv"]) and y["args"]]
            if not keyed:
                # unkeyed memo (OnceCell::get_or_init, Option::get_or_insert_with, Cell::set ...): the stored value must not depend
                # on any parameter, since it is computed once and returned for every later argument
                memo = [y for y in f.walk() if y.get("k") == "MethodCall" and y.get("method") in ("get_or_init", "get_or_try_init", "get_or_insert_with", "get_or_insert", "set", "replace", "call_once", "insert")
                        and ("def", h) in pv.atoms(y["recv"]) and y["args"]]
                if memo:
                    dep = set()
                    for y in memo:
                        a = pv.atoms(y["args"][-1])
                        dep |= {p[1] for p in a if p[0] == "param"}
                        if not dep and any(p[0] in ("call", "field") and not str(p[1]).startswith(("core::option::Option", "core::cell", "std::thread"))
                                           for p in a):
                            # no parameter, but the stored value is computed at run time (read from other ambient state, a field, a
                            # call): the holder carries that value from this call into later ones
                            dep.add("a value computed at run time")
                    out.append((f, h, sorted(dep), []))
                else:
                    out.append((f, h, None, None))
                continue
            key_params = set()
            for y in keyed:
                key_params |= {p[1] for p in pv.atoms(y["args"][0]) if p[0] == "param"}
            req = []
            for p in f.params:
                if str(p.get("t", "")).startswith("&mut "):
                    continue
                for b in subnodes(p):
                    if b.get("k") == "Binding":
                        req.append(pv.params.get(b["local"]))
            out.append((f, h, sorted(set(req) - key_params), sorted(key_params)))
    return out


# ---------------------------------------------------------------------------------------------------- virtual inlining
_INLINED = {}


def inlined(P, fn, depth=3, pred=None):
    """A copy of `fn` in which every statically resolved call of a workspace function of the same crate carries the callee's
    parameters and body under the key "inl" (recursively, up to `depth`, never re-entering a function already on the inline
    stack).  Node walks, enclosing-context queries and provenance (`Prov` binds the callee's parameter patterns to the call's
    arguments) then see through helper functions, so that extracting part of a function into a helper — or splitting a long
    function — leaves a structural rule's verdict unchanged.  `return` inside an inlined body is renamed `InlRet` (it leaves
    the helper, not the function under analysis).  `pred(callee_fn)` can restrict what is inlined."""
    import copy
    from facts import Fn, call_name
    key = (id(P), fn.path, depth, id(pred) if pred else None)
    if key in _INLINED:
        return _INLINED[key]
    crate = fn.path.split("::")[0].lstrip("<")

    def expand(node, stack, d):
        st = [node]
        while st:
            n = st.pop()
            if isinstance(n, list):
                st.extend(n)
                continue
            if not isinstance(n, dict):
                continue
            if n.get("k") in ("Call", "MethodCall") and "inl" not in n and d > 0:
                c = call_name(n)
                g = P.fns.get(c) if c else None
                if (g is not None and not g.derived and g.kind in ("Fn", "AssocFn") and g.path not in stack and g.crate == fn.crate
                        and (pred is None or pred(g))):
                    body = copy.deepcopy(g.body)
                    params = copy.deepcopy(g.params)
                    for x in _all_nodes(body):
                        if x.get("k") == "Ret":
                            x["k"] = "InlRet"
                    expand(body, stack + [g.path], d - 1)
                    n["inl"] = {"fn": g.path, "params": params, "body": body}
            for kk, v in n.items():
                if kk != "inl" and isinstance(v, (dict, list)):
                    st.append(v)

    raw = dict(fn.raw)
    raw["body"] = copy.deepcopy(fn.body)
    raw["params"] = copy.deepcopy(fn.params)
    g = Fn(raw, fn.crate)
    expand(g.body, [fn.path], depth)
    _INLINED[key] = g
    return g


def _all_nodes(root):
    st = [root]
    while st:
        n = st.pop()
        if isinstance(n, list):
            st.extend(n)
        elif isinstance(n, dict):
            if "k" in n:
                yield n
            st.extend(v for v in n.values() if isinstance(v, (dict, list)))


def scope_fns(P, fn, depth=3):
    """`fn` and the workspace functions of its crate it calls (transitively, up to depth): where a rule looks for a construct
    that a refactoring may have moved into a helper"""
    out, seen = [fn], {fn.path}
    frontier = [fn]
    for _ in range(depth):
        nxt = []
        for f in frontier:
            for c in sorted(P.callees_of(f)[0]):
                g = P.fns.get(c)
                if g is not None and c not in seen and g.crate == fn.crate and not g.derived:
                    seen.add(c)
                    out.append(g)
                    nxt.append(g)
        frontier = nxt
    return out


# ------------------------------------------------------------------------------------------- memoisation inventory
_MEMO_METHODS = ("contains", "contains_key", "get", "insert", "entry", "remove", "get_mut", "get_or_insert_with", "get_or_init", "take", "replace")
_MEMO_TABLE = None


def _memo_table():
    global _MEMO_TABLE
    if _MEMO_TABLE is None:
        import json
        import os
        try:
            _MEMO_TABLE = json.load(open(os.path.join(os.path.dirname(os.path.dirname(os.path.abspath(__file__))), "tables", "memo_guards.json")))
        except Exception:
            _MEMO_TABLE = []
    return _MEMO_TABLE


_COLLECTION = _re.compile(r"HashMap<|HashSet<|BTreeMap<|BTreeSet<|IndexMap<|IndexSet<|LruCache<|Vec<|VecDeque<")
_WRAPPER_MEMO = {}


def _wrapper_is_memo(P, callee):
    """a workspace method that consults or records membership in an interior-mutable *collection* of its receiver
    (`self.seen.borrow_mut().insert(k)`, `self.cache.borrow().get(k)`): calling it in a guard is a memo guard"""
    if not callee or callee not in P.fns:
        return False
    key = (id(P), callee)
    if key not in _WRAPPER_MEMO:
        f = P.fns[callee]
        ok = False
        for y in f.walk():
            if y.get("k") == "MethodCall" and y.get("method") in _MEMO_METHODS:
                t = str(y.get("recv_ty", "")) + " " + str(y["recv"].get("t", ""))
                if _COLLECTION.search(t) and _re.search(r"cell::Ref<|RefMut<|RefCell<|MutexGuard<|Mutex<", t):
                    ok = True
                    break
        _WRAPPER_MEMO[key] = ok
    return _WRAPPER_MEMO[key]


def _reports(block):
    """does this block construct a diagnostic / error value (a variant or struct whose path mentions Error, or `Err(..)`)"""
    for y in subnodes(block):
        k = y.get("k")
        if k == "Struct" and "rest" not in y and "Error" in norm(y.get("variant") or y.get("adt") or ""):
            return True
        if k == "Call" and (call_name(y) or "").endswith(("Result::Err", "::Err")):
            return True
        if k == "Path" and "Error" in norm(y.get("def") or "") and str(y.get("dk", "")).startswith("Ctor"):
            return True
    return False


_STORING = ("insert", "or_insert", "or_insert_with", "push", "push_back", "extend", "entry", "replace", "set", "get_or_insert_with")


def _only_stored(fn, pv, pname, state_atoms):
    """every use of parameter `pname` in fn is (inside) an argument of a storing method *of the guarded state itself*"""
    lids = [lid for lid, nm in pv.params.items() if nm == pname]
    if not lids:
        return False
    stored_nodes = set()
    for y in fn.walk():
        if y.get("k") == "MethodCall" and y.get("method") in _STORING:
            ra = {a for a in pv.atoms(y["recv"]) if a[0] in ("param", "field", "def")}
            if not (ra & state_atoms):
                continue
            for a in y["args"]:
                for z in subnodes(a):
                    stored_nodes.add(id(z))
    uses = [y for y in fn.walk() if y.get("k") == "Path" and y.get("local") in lids]
    return bool(uses) and all(id(u) in stored_nodes for u in uses)


def memo_guard_sites(P, prefixes, allow=None):
    """[(fn, signature, gaps, key params, holder params, state type)] for every guard in functions under `prefixes` that consults
    run-time state (a `&mut`-borrowed or interior-mutable collection, a thread-local) through a membership/look-up method.
    signature = (crate, element type of the state, sorted field atoms of the key) — independent of function and local names."""
    from prov import Prov
    out = []
    for p, f in sorted(P.fns.items()):
        if f.derived or "::tests" in p or not (any(p.startswith(x) or p.startswith("<" + x) for x in prefixes) or (allow and p in allow)):
            continue
        gs = stateful_guards(f, P, adaptors=True)
        if not gs:
            continue
        pv = Prov(f)
        for i, g, t, blocks in gs:
            calls = [y for y in subnodes(g) if y.get("k") == "MethodCall" and _is_state(P, str(y.get("recv_ty", "")) + " " + str(y["recv"].get("t", "")))
                     and (y.get("method") in _MEMO_METHODS or _wrapper_is_memo(P, call_name(y)))]
            if not calls:
                continue
            # (1) a duplicate check is not a memo: when "already present" leads to a diagnostic / an Err, nothing is skipped silently
            if any(_reports(b) for b in blocks):
                continue
            gaps, key, holder = memo_key_gaps(f, g, pv)
            # (2) a builder is not a memo: a parameter that is only ever *stored* into the state (insert / or_insert / push / extend
            # argument) defines the entry instead of being an input of skipped work
            state_atoms = set()
            for y in calls:
                state_atoms |= {a for a in pv.atoms(y["recv"]) if a[0] in ("param", "field", "def")}
            gaps = [x for x in gaps if not _only_stored(f, pv, x, state_atoms)]
            kf = set()
            for y in calls:
                for a in y["args"]:
                    kf |= {"%s.%s" % (x[1].split("::")[-1], x[2]) for x in pv.atoms(a) if x[0] == "field"}
            st = norm(str(calls[0].get("recv_ty") or calls[0]["recv"].get("t") or t))
            st = st.replace("&mut ", "").replace("&", "")
            kind = "cache" if any(y["method"] in ("get", "get_mut", "entry", "get_or_insert_with", "get_or_init", "take", "replace") for y in calls) else "seen"
            out.append((f, (f.crate, kind, tuple(sorted(kf)), st), gaps, key, holder, t))
    return out


def memo_rule(P, R, rule, prefixes, what, allow=None):
    """Memoisation / seen-set discipline.  Every guard that skips or reuses work because run-time state says "already done" is a
    place where the answer for one input can be served for another.  The guards of the pinned tree are frozen by signature in
    tables/memo_guards.json (each was read: its key determines the skipped work); a guard with a new signature is a new memo, and
    its key must cover every non-`&mut` parameter of the function (otherwise two calls that differ only in an uncovered parameter
    share an entry).  A covered new memo HOLDS; an uncovered one is VIOLATED; nothing is reported for state that is only
    accumulated."""
    global PROGRAM_FOR_MEMO
    PROGRAM_FOR_MEMO = P
    table = _memo_table()
    sites = memo_guard_sites(P, prefixes, allow)
    n = 0
    for f, sig, gaps, key, holder, t in sites:
        n += 1
        crate, kind, kf, st = sig
        k = "memo:%s:%s:%s" % (kind, st.split("<")[0].split("::")[-1], ",".join(x for x in kf if not x.startswith("Some.")) or "-")
        reviewed = [r for r in table if r["crate"] == crate and r["kind"] == kind and
                    ((r["key_any"] and any(x in kf for x in r["key_any"])) or (r.get("state_any") and any(x in st for x in r["state_any"]))
                     or (not r["key_any"] and not r.get("state_any") and not gaps))]
        if reviewed:
            R.holds(rule, k, "reviewed %s of the pinned tree (%s)" % ("seen-set" if kind == "seen" else "cache", short(f.path)), loc=f.loc())
        elif not gaps:
            R.holds(rule, k + "@new", "new %s in %s: its key covers every input of the function" % (kind, short(f.path)), loc=f.loc())
        else:
            R.violated(rule, k + "@new", "%s now skips or reuses work when run-time state (%s) already has an entry for a key computed from %s only; "
                       "the skipped work also depends on %s, and the state outlives the call — a later call that differs only there is served "
                       "the earlier answer (%s)" % (f.path, st, key or "nothing", gaps, what), loc=f.loc())
    R.count("memo_guards", n)
    return n


# ------------------------------------------------------------------------------------------------ control-guard normal form
# (first written for C13 by a sub-agent; shared here unchanged so that other modules need not import a property module)
def guards_of(fn, idx, stop=None):
    """Guards under which nodes()[idx] is evaluated, innermost first, up to the function root (or the node `stop`), seen through
    inlined helpers.  Each guard is a dict:
      {"kind": "cond", "e": cond, "truth": bool}           an `if`: inside then (True) / else (False), or *after* an `if` whose
                                                           then-branch diverges (False) / whose else-branch diverges (True)
      {"kind": "pat", "e": init, "pat": pat, "truth": b}   `let pat = init else {..}`: after it (True) or inside the else (False)
      {"kind": "arm", "e": scrut, "pat": pat, "arm": arm, "match": m}    inside the body of a source-level match arm, or after
                                                           a `match` statement all of whose other arms diverge
      {"kind": "arg", "e": receiver, "method": name, "call": node}       inside an argument (value or closure) of receiver.method(..)
    `if let` shows up as kind "cond" with e = LetExpr (see `atomic_facts`)."""
    acc = fn.nodes()
    out = []
    child = idx
    p = acc[idx][1]
    while p >= 0:
        n = acc[p][0]
        c = acc[child][0]
        if stop is not None and c is stop:
            break
        k = n.get("k")
        if k == "Arm":
            pp = acc[p][1]
            while pp >= 0 and acc[pp][0].get("k") != "Match":
                pp = acc[pp][1]
            m = acc[pp][0] if pp >= 0 else None
            if m is not None and _guards_within(n.get("body"), c) and m.get("src") == "Normal":
                out.append({"kind": "arm", "e": m["scrut"], "pat": n["pat"], "arm": n, "match": m})
        elif k == "If":
            if _guards_within(n.get("then"), c):
                out.append({"kind": "cond", "e": n["cond"], "truth": True, "node": n})
            elif "else" in n and _guards_within(n.get("else"), c):
                out.append({"kind": "cond", "e": n["cond"], "truth": False, "node": n})
        elif k == "Let" and "els" in n and _guards_within(n["els"], c):
            out.append({"kind": "pat", "e": n.get("init"), "pat": n["pat"], "truth": False, "node": n})
        elif k == "MethodCall" and any(a is c for a in n["args"]):
            # a value (or closure) handed to a method of the receiver: `recv.ok_or_else(|| ..)`, `recv.ok_or(..)`, `recv.filter(|x| ..)`
            out.append({"kind": "arg", "e": n["recv"], "method": n["method"], "call": n, "closure": c.get("k") == "Closure"})
        elif k == "Block":
            for s in n.get("stmts", []):
                if s is c or _guards_within(s, c):
                    break
                if s.get("k") == "Let" and "els" in s:
                    out.append({"kind": "pat", "e": s.get("init"), "pat": s["pat"], "truth": True, "node": s})
                    continue
                e = strip(s.get("e")) if s.get("k") == "Stmt" else None
                if e is not None and e.get("k") == "If":
                    if diverges(e.get("then")) and not diverges(e.get("else")):
                        out.append({"kind": "cond", "e": e["cond"], "truth": False, "node": e})
                    elif "else" in e and diverges(e.get("else")) and not diverges(e.get("then")):
                        out.append({"kind": "cond", "e": e["cond"], "truth": True, "node": e})
                elif e is not None and e.get("k") == "Match" and e.get("src") == "Normal":
                    # `match x { A => {}, B => continue }` as a statement: afterwards the arm that falls through was the one taken
                    through = [a for a in e["arms"] if not diverges(a["body"])]
                    if len(through) == 1 and len(e["arms"]) > 1:
                        out.append({"kind": "arm", "e": e["scrut"], "pat": through[0]["pat"], "arm": through[0], "match": e})
        child = p
        p = acc[p][1]
    return out



def _guards_within(root, node):
    if root is None:
        return False
    st = [root]
    while st:
        x = st.pop()
        if x is node:
            return True
        if isinstance(x, dict):
            st.extend(v for v in x.values() if isinstance(v, (dict, list)))
        elif isinstance(x, list):
            st.extend(v for v in x if isinstance(v, (dict, list)))
    return False



def strip(e):
    """expression without the wrappers that carry no meaning (temporaries scope, parentheses, trivial blocks)"""
    while e is not None:
        k = e.get("k")
        if k in ("DropTemps", "Paren", "Use") and "e" in e:
            e = e["e"]
        elif k == "BlockExpr" and not e["b"].get("stmts") and "tail" in e["b"]:
            e = e["b"]["tail"]
        elif k in ("Call", "MethodCall") and "inl" in e and strip(e["inl"]["body"]) is not e["inl"]["body"]:
            e = e["inl"]["body"]        # an inlined helper whose body is a single expression stands for that expression
        else:
            break
    return e



def diverges(e):
    """does control never fall out of the end of this expression/block (`continue`, `return`, `break`, `panic!` ...)"""
    if e is None:
        return False
    if e.get("t") == "!":
        return True
    k = e.get("k")
    if k in ("Ret", "Continue", "Break"):
        return True
    if k == "BlockExpr":
        return diverges(e["b"])
    if k == "Block":
        for s in e.get("stmts", []):
            x = s.get("e") if s.get("k") == "Stmt" else None
            if x is not None and diverges(x):
                return True
        return diverges(e.get("tail"))
    if k in ("DropTemps", "Paren", "Use"):
        return diverges(e.get("e"))
    return False




def exits_before(fn, idx):
    """statements that precede nodes()[idx] inside its innermost enclosing loop body (or the function body) and can leave that
    body early — they contain a `continue` / `break` / `return` that is not inside a nested loop or closure.  When such a
    statement exists, nodes()[idx] is not evaluated for every iteration: [(stmt node, kind of exit)]"""
    acc = fn.nodes()
    out = []
    child = idx
    p = acc[idx][1]
    while p >= 0:
        n = acc[p][0]
        c = acc[child][0]
        k = n.get("k")
        if k == "Block":
            for st in n.get("stmts", []):
                if st is c or _guards_within(st, c):
                    break
                stack = [st]
                while stack:
                    y = stack.pop()
                    if isinstance(y, list):
                        stack.extend(y)
                        continue
                    if not isinstance(y, dict):
                        continue
                    yk = y.get("k")
                    if yk in ("Closure",) or (yk == "Loop" and y is not st):
                        continue
                    if yk in ("Continue", "Break", "Ret") and not y.get("x"):
                        out.append((st, yk))
                    stack.extend(v for v in y.values() if isinstance(v, (dict, list)))
        elif k in ("Loop", "Closure"):
            break
        child = p
        p = acc[p][1]
    return out
