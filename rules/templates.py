"""Reusable rule templates (DESIGN.md §5)."""
from facts import field_reads, norm, short

POS_TYPES = ("nitrogql_ast::base::Pos",)


def semantic_fields(adt, exempt=()):
    """fields of a struct ADT that carry document content: everything whose type is not a
    source position, minus an explicit exemption list"""
    out = []
    for name, ty in adt.field_types().items():
        if ty in POS_TYPES:
            continue
        if name in exempt:
            continue
        out.append(name)
    return out


def reads_in(P, fn_paths, include_derived=False):
    """union of ADT field reads over a set of function paths -> {(adt,field): [fn paths]}"""
    out = {}
    for p in fn_paths:
        f = P.fns.get(p)
        if f is None:
            continue
        if f.derived and not include_derived:
            continue
        for key in field_reads(f):
            out.setdefault(key, []).append(p)
    return out


def field_coverage(P, R, rule, scope_fns, adt_paths, exempt, what):
    """T1: every semantic field of every listed ADT is read by some function in scope.
    exempt: {(adt_suffix, field): reason}"""
    reads = reads_in(P, scope_fns)
    n = 0
    for ap in adt_paths:
        adt = P.adt(ap)
        ex = {f for (a, f) in exempt if adt.path.endswith(a)}
        for f in semantic_fields(adt, ex):
            n += 1
            key = "%s.%s" % (adt.path.split("::")[-1], f)
            readers = reads.get((adt.path, f), [])
            if readers:
                R.holds(rule, key, "read by %s" % short(readers[0]), loc=P.fns[readers[0]].loc())
            else:
                R.violated(rule, key,
                           "field `%s` of `%s` is read by no function of %s (%d functions in scope): "
                           "the output cannot depend on it, for every input" % (f, adt.path, what, len(scope_fns)),
                           loc="%s:%d" % (adt.file, adt.line),
                           detail={"adt": adt.path, "field": f, "scope_size": len(scope_fns)})
    return n


def enclosing(fn, node_index, kinds):
    """nearest ancestor of nodes()[node_index] whose kind is in `kinds` -> (node, index) or None"""
    acc = fn.nodes()
    p = acc[node_index][1]
    while p >= 0:
        if acc[p][0].get("k") in kinds:
            return acc[p][0], p
        p = acc[p][1]
    return None


def index_of(fn, node):
    for i, (n, _) in enumerate(fn.nodes()):
        if n is node:
            return i
    return -1
