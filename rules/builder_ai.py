"""Abstract interpretation of the pest-pair -> AST builders (DESIGN.md T9, builder side).

Abstract values (class V):
  pair   a Pair: the set of grammar rules it may be a pair of
  opt    Option<Pair> (also Result<Pair, _>)          seq    Pairs / Vec<Pair> / an iterator of pairs (optionally with a position)
  text   the &str text of a pair                       ruleof the Rule of a pair (`p.as_rule()`), remembers which local
  val    any other value                               tuple / closure / fn
Every value carries its *provenance* `m`: {grammar rule -> rules of the pairs that pair was obtained from (ancestors)}, and
`leaf`: the rules of the pairs whose own text / position was read into the value.  The interpreter walks the typed HIR of every
function of the parser crate that handles pairs, flow-sensitively inside a body (branch environments are joined, a diverging
branch is dropped, so `if !p.is_rule(X) { panic!() }`, `let .. else`, `matches!`, `match p.as_rule()` and `if let` all narrow),
evaluates closures where they are applied, `for`/`loop` bodies on a widened environment, joins function parameters (all
positions) over call sites to a fixpoint, evaluates helpers that *return* pairs / text (user-defined primitives), predicates
(`fn is_x(&Pair) -> bool`) and helpers parametrised by a rule or a callback once per call site, and emits obligations:

  parts        L(R) ⊆ slot pattern, exactly            (panic if not accepted, silently dropped child if leftovers)
  only_child   every child sequence of R has length 1
  all_children alphabet(L(R)) ⊆ {X}
  as_rule      a branch on the rule of a pair that panics is taken for no rule the pair may be
  ident        to_ident()/to_keyword() only on name-like rules
  text         a `match` over the text of a pair with a panicking fallback covers the finite text language of its rules

A failed obligation is positive evidence only when the rule set is exact: a value whose rule set went through a construct the
interpreter does not model precisely is marked `fuzzy`, and a failing obligation on it is recorded as *undecided*
(detail["undecided"], "ok" stays True).  Struct literals of nitrogql_ast types record, per field, the provenance of the value
(`fills`), independent of whether the expression is spelled with a local, a closure, a helper function or a loop.
"""
from facts import norm, call_name, subnodes, lit_value, pat_lits
import gram as G

B = "nitrogql_parser::parser::builder"
CRATE = "nitrogql_parser"
RULE = "nitrogql_parser::parser::Rule::"
PAIREXT = "nitrogql_parser::parser::builder::utils::PairExt::"
PAIR_ADT = "pest::iterators::pair::Pair"
PAIR_TY = "pest::iterators::pair::Pair<"
PAIRS_TY = "pest::iterators::pairs::Pairs<"
E = frozenset()

# methods that hand the receiver's elements on unchanged
PASS = {"into_iter", "iter", "iter_mut", "peekable", "by_ref", "rev", "collect", "cloned", "copied", "as_ref", "as_mut", "take",
        "enumerate", "clone", "to_vec", "to_owned", "into_boxed_slice", "as_slice", "fuse", "borrow", "borrow_mut", "ok",
        "as_deref", "as_deref_mut", "into", "unwrap_or_default", "iter_pairs", "drain", "ok_or", "ok_or_else", "flatten"}
# the same elements, but the position in the sequence is lost
PASS_NOPOS = {"skip", "step_by", "rev", "sorted", "chain", "cycle", "flatten", "drain"}
# an element (Option) of the receiver
ELEM = {"next", "peek", "first", "last", "pop", "nth", "next_back", "peek_mut", "pop_front", "pop_back", "get", "min", "max"}
# adaptors whose function argument only selects among the receiver's elements (what the result is)
SELECT = {"filter": "seq", "take_while": "seq", "retain": "seq", "find": "opt", "rfind": "opt", "next_if": "opt", "skip_while": "suffix"}
UNWRAP = {"unwrap", "expect", "unwrap_unchecked", "unwrap_or_else", "unwrap_or"}
GROW = {"push", "push_back", "push_front", "insert", "extend", "append", "push_str", "extend_from_slice"}
PRIMS = {"only_child", "is_rule", "all_children", "to_pos", "to_keyword", "to_ident"}
REORDER = {"sort", "sort_by", "sort_by_key", "sort_unstable", "sort_unstable_by", "sort_unstable_by_key", "sort_by_cached_key", "reverse", "rev",
           "dedup", "dedup_by", "dedup_by_key", "swap", "swap_remove", "rotate_left", "rotate_right", "sorted", "sorted_by", "sorted_by_key",
           "shuffle", "unique", "unique_by"}
ORDER_FREE = {"fold", "try_fold", "reduce", "sum", "product", "find", "rfind", "next_if", "len", "is_empty", "count", "any", "all", "contains", "max_by_key", "min_by_key", "max_by", "min_by",
              "position", "contains_key", "get"}
LEAF_READS = {"to_pos", "to_ident", "to_keyword", "as_str", "line_col", "as_span", "get_input", "to_string"}


def rule_of_path(n):
    d = norm(n.get("def", "")) if isinstance(n, dict) else ""
    return d[len(RULE):] if d.startswith(RULE) else None


def rules_in_pat(pat):
    out = set()
    for x in subnodes(pat):
        r = rule_of_path(x)
        if r:
            out.add(r)
    return out


def arm_rules(pat):
    """rules an arm over `as_rule()` matches; an empty set when the pattern (or one of its alternatives) is a catch-all"""
    alts, out = [pat], set()
    while alts:
        p = alts.pop()
        while p.get("k") in ("Ref", "Deref", "Box") or (p.get("k") == "Binding" and "sub" in p):
            p = p["p"] if "p" in p else p["sub"]
        if p.get("k") == "Or":
            alts.extend(p["ps"])
        elif p.get("k") in ("Wild", "Binding"):
            return set()
        else:
            out |= rules_in_pat(p)
    return out


def is_panic(node):
    for x in subnodes(node):
        if x.get("k") == "Call" and (call_name(x) or "").startswith("core::panicking::"):
            return True
    return False


def peel(n):
    """look through references, temporaries and trivial blocks"""
    while isinstance(n, dict):
        k = n.get("k")
        if k in ("DropTemps", "Use", "AddrOf", "Type"):
            n = n["e"]
        elif k == "Unary" and n.get("op") == "Deref":
            n = n["e"]
        elif k == "BlockExpr" and not n["b"]["stmts"] and "tail" in n["b"] and not n.get("x"):
            n = n["b"]["tail"]
        else:
            break
    return n


def diverges(n):
    """the expression never completes normally (panic, return, break, continue on every path)"""
    if not isinstance(n, dict):
        return False
    if n.get("t") == "!":
        return True
    k = n.get("k")
    if k in ("Ret", "Break", "Continue"):
        return True
    if k == "BlockExpr":
        return diverges(n["b"])
    if k == "Block":
        for s in n["stmts"]:
            if s.get("k") == "Stmt" and diverges(s["e"]):
                return True
            if s.get("k") == "Let" and "init" in s and diverges(s["init"]):
                return True
        return "tail" in n and diverges(n["tail"])
    if k in ("DropTemps", "Use"):
        return diverges(n["e"])
    if k == "If":
        return "else" in n and diverges(n["then"]) and diverges(n["else"])
    if k == "Match":
        return bool(n["arms"]) and all(diverges(a["body"]) for a in n["arms"])
    if k == "Call":
        return (call_name(n) or "").startswith("core::panicking::")
    return False


def _ty(n):
    t = (n.get("t") or "") if isinstance(n, dict) else ""
    while t.startswith("&"):
        t = t[1:].lstrip()
        if t.startswith("mut "):
            t = t[4:]
    return t


def is_pair_ty(t):
    return t.startswith(PAIR_TY)


def has_pair_ty(t):
    return PAIR_TY in t or PAIRS_TY in t


# ---------------------------------------------------------------------------------------------------------- values
class V:
    __slots__ = ("kind", "m", "leaf", "pos", "elems", "node", "of", "fuzzy", "ops", "ctl")

    def __init__(self, kind, m=None, leaf=E, pos=None, elems=None, node=None, of=None, fuzzy=False, ops=E, ctl=E):
        self.kind = kind
        self.m = m or {}
        self.leaf = leaf
        self.pos = pos        # positional seq: (parent value, index of the next child)
        self.elems = elems
        self.node = node
        self.of = of          # ruleof / text: the local the pair lives in
        self.fuzzy = fuzzy
        self.ctl = ctl        # rules in m the value depends on only through control (it was selected by a test on such a pair)
        self.ops = ops        # order-disturbing operations (sort, reverse, dedup, hashed collection) the value went through

    @property
    def rules(self):
        return frozenset(self.m)

    def sig(self):
        return (self.kind, tuple(sorted((r, tuple(sorted(a))) for r, a in self.m.items())), tuple(sorted(self.leaf)), self.fuzzy,
                tuple(e.sig() if e is not None else None for e in self.elems) if self.elems is not None else None,
                (self.pos[1], self.pos[0].sig()) if self.pos else None, tuple(sorted(self.ops)), tuple(sorted(self.ctl)))

    def __repr__(self):
        return "V(%s %s%s%s)" % (self.kind, sorted(self.m), " leaf=%s" % sorted(self.leaf) if self.leaf else "", " fuzzy" if self.fuzzy else "")


PAIRLIKE = ("pair", "opt", "seq")


def m_join(a, b):
    if not b:
        return a
    if not a:
        return b
    out = dict(a)
    for r, an in b.items():
        out[r] = (out[r] | an) if r in out else an
    return out


def prov(v):
    """(m, leaf, fuzzy) of any value"""
    if v is None:
        return {}, E, False
    if v.kind == "tuple":
        m, leaf, fz = {}, E, v.fuzzy
        for e in v.elems:
            a, b, c = prov(e)
            m, leaf, fz = m_join(m, a), leaf | b, fz or c
        return m, leaf, fz
    if v.kind in ("closure", "fn"):
        return {}, E, False
    return v.m, v.leaf, v.fuzzy


def ops_of(v):
    if v is None:
        return E
    if v.kind == "tuple":
        out = v.ops
        for e in v.elems:
            out = out | ops_of(e)
        return out
    return v.ops


def with_ops(v, ops):
    """v, having gone through the operations `ops` as well"""
    if not ops or (v is not None and ops <= v.ops):
        return v
    if v is None:
        return V("val", ops=frozenset(ops))
    return V(v.kind, v.m, v.leaf, v.pos, v.elems, v.node, v.of, v.fuzzy, v.ops | ops, v.ctl)


def ctl_of(*vs):
    """rules that every one of the values that mentions them mentions only as control"""
    ctl, data = set(), set()
    for v in vs:
        if v is None:
            continue
        if v.kind == "tuple":
            c2 = ctl_of(*v.elems)
            m2 = prov(v)[0]
        else:
            c2, m2 = v.ctl, v.m
        ctl |= c2
        data |= set(m2) - c2
    return frozenset(ctl - data)


def mkval(*vs, **kw):
    """a plain value computed from the given values"""
    m, leaf, fz, ops = {}, E, kw.get("fuzzy", False), E
    for v in vs:
        a, b, c = prov(v)
        m, leaf, fz, ops = m_join(m, a), leaf | b, fz or c, ops | ops_of(v)
    if not m and not fz and not ops:
        return None
    return V("val", m, leaf, fuzzy=fz, ops=ops, ctl=ctl_of(*vs))


def join(a, b):
    if a is None:
        return b
    if b is None:
        return a
    if a is b:
        return a
    if a.kind == b.kind:
        k = a.kind
        if k == "tuple":
            if len(a.elems) == len(b.elems):
                return V("tuple", elems=[join(x, y) for x, y in zip(a.elems, b.elems)], fuzzy=a.fuzzy or b.fuzzy, ops=a.ops | b.ops)
            return mkval(a, b, fuzzy=True)
        if k in ("closure", "fn"):
            return a
        pos = None
        if a.pos and b.pos and a.pos[1] == b.pos[1]:
            # the children from index k on of either parent
            pos = a.pos if a.pos[0] is b.pos[0] else (join(a.pos[0], b.pos[0]), a.pos[1])
        of = a.of if a.of == b.of else None
        return V(k, m_join(a.m, b.m), a.leaf | b.leaf, pos=pos, of=of, fuzzy=a.fuzzy or b.fuzzy, ops=a.ops | b.ops, ctl=ctl_of(a, b))
    if a.kind in PAIRLIKE and b.kind in PAIRLIKE:
        if {a.kind, b.kind} == {"pair", "opt"}:
            return V("opt", m_join(a.m, b.m), fuzzy=a.fuzzy or b.fuzzy, ops=a.ops | b.ops)
        return V("seq", m_join(a.m, b.m), fuzzy=True, ops=a.ops | b.ops)
    if a.kind in ("closure", "fn") or b.kind in ("closure", "fn"):
        return a if a.kind in ("closure", "fn") else b
    # an empty Option joined with a plain value (`Some(x.to_ident())` / `None`): no precision is lost
    lossy = not ((a.kind == "opt" and not a.m) or (b.kind == "opt" and not b.m) or
                 (a.kind in ("val", "text", "ruleof") and b.kind in ("val", "text", "ruleof")))
    m, leaf, fz = {}, E, lossy
    for v in (a, b):
        x, y, z = prov(v)
        m, leaf, fz = m_join(m, x), leaf | y, fz or z
    return V("val", m, leaf, fuzzy=fz, ops=ops_of(a) | ops_of(b), ctl=ctl_of(a, b))


def narrowed(v, rs, keep=True):
    """the pair value restricted to (keep) / without (not keep) the rules rs"""
    m = {r: a for r, a in v.m.items() if (r in rs) == keep}
    return V(v.kind, m, v.leaf, pos=None, of=v.of, fuzzy=v.fuzzy)


class BuilderAI:
    def __init__(self, P, grammar):
        self.P = P
        self.g = grammar
        self.fns = {}
        for p, f in P.fns.items():
            if f.crate != CRATE and not p.startswith(CRATE + "::"):
                continue
            if f.derived or "::tests::" in p or f.kind not in ("Fn", "AssocFn"):
                continue
            on_pair = (f.self_ty or "").startswith(PAIR_ADT)
            if f.name in PRIMS and (on_pair or p.startswith(PAIREXT)):
                continue        # the PairExt primitives are modelled, not analysed
            if p.startswith(B) or on_pair or any("pest::iterators" in (t or "") for t in f.sig_inputs):
                self.fns[p] = f
        # the parse entry points: functions of the crate from which `Parser::parse(Rule::X, ..)` is reached; they are evaluated like
        # the builders (their parameters are unknown), so that the pairs flow into the document builders however the call is spelled
        self.roots = set()
        parsers = {p for p, f in P.fns.items() if p.startswith(CRATE + "::") and p not in self.fns and not f.derived and "::tests::" not in p
                   and f.kind in ("Fn", "AssocFn")
                   and any(x.get("k") == "Call" and (call_name(x) or "").endswith("::parse") and PAIRS_TY in _ty(x) for x in f.walk())}
        for _ in range(4):
            more = {p for p, f in P.fns.items() if p.startswith(CRATE + "::") and p not in self.fns and p not in parsers and not f.derived
                    and "::tests::" not in p and f.kind in ("Fn", "AssocFn") and (P.callees_of(f)[0] & parsers)}
            if not more:
                break
            parsers |= more
        for p in parsers:
            self.fns[p] = P.fns[p]
            self.roots.add(p)
        self.pvals = {p: [None] * len(f.params) for p, f in self.fns.items()}   # joined argument values, per position
        self.rets = {}                                          # joined return values
        self.called = set()                                     # functions with at least one call site seen
        self.ident_sites = []                                   # Ident / Keyword literals: where name and position come from
        self.oblig = {}                                         # key -> dict
        self.fills = {}                                         # (adt, field) -> {"m", "leaf", "fuzzy", "fns", "sites"}
        self.text_tables = []                                   # matches over the text of a pair: arms and what they build
        self.rule_tables = []                                   # matches over the rule of a pair whose arms are literals
        self.notes = []
        self.changed = False
        self._sbp = {}
        self._first = {}
        self._loopdepth = 0
        self._quiet = 0         # > 0 while a helper is evaluated for one call site (nothing is recorded)
        self._breaks = []
        self.generic_fns = set()
        self._ctx = []          # the branch / loop / closure bodies under evaluation (a cursor must be consumed where it was made)
        self._cmeth = {}
        self.cursor_adts = set()
        for ap, a in P.adts.items():
            if ap.startswith(CRATE + "::") and a.kind == "Struct" and any(PAIRS_TY in (f.get("ty") or "") for f in a.variants[0]["fields"]):
                self.cursor_adts.add(ap)    # a struct around the children iterator of a pair: a cursor
        self._stack = []        # functions under evaluation

    # ------------------------------------------------------------------ driver
    def run(self):
        # seeds: RawParser::parse(Rule::X, ..) results handed to the document builders (flow-insensitive; the flow-sensitive
        # evaluation of the entry functions adds nothing more precise)
        for f in self.P.fns.values():
            if not f.path.startswith(CRATE + "::") or f.path in self.fns:
                continue
            seed = None
            for n in f.walk():
                if n.get("k") == "Call" and (call_name(n) or "").endswith("::parse") and n["args"]:
                    r = rule_of_path(n["args"][0])
                    if r:
                        seed = r
            if not seed:
                continue
            for n in f.walk():
                if n.get("k") == "Call" and call_name(n) in self.fns:
                    for i, a in enumerate(n["args"]):
                        if PAIRS_TY in _ty(a):
                            self._add_param(call_name(n), i, V("seq", {seed: E}))
                            self.called.add(call_name(n))
        for _ in range(40):
            self.changed = False
            self.oblig = {}
            self.fills = {}
            self.text_tables = []
            self.rule_tables = []
            self.ident_sites = []
            for p, f in self.fns.items():
                if p not in self.generic_fns:
                    self._analyse(f)
            if not self.changed:
                break
        else:
            self.notes.append("fixpoint not reached in 40 rounds")
        # views used by the rules
        self.params, self.pairs_params, self.text_params = {}, {}, {}
        for p, f in self.fns.items():
            self.params[p] = frozenset()
            for i, v in enumerate(self.pvals[p]):
                t = f.sig_inputs[i] if i < len(f.sig_inputs) else ""
                if v is None:
                    continue
                if v.kind == "seq" and PAIRS_TY in t:
                    self.pairs_params[p] = self.pairs_params.get(p, frozenset()) | v.rules
                elif v.kind == "text":
                    self.text_params[p] = self.text_params.get(p, frozenset()) | v.rules
                elif v.kind in PAIRLIKE and not self.params[p]:
                    self.params[p] = v.rules
        return self

    def unreached(self):
        """functions with a pair-typed parameter for which no call site supplied a rule set, or with no call site at all"""
        out = []
        for p, f in self.fns.items():
            if p in self.roots:
                continue
            if any(a in (t or "") for a in self.cursor_adts for t in list(f.sig_inputs[:1]) + [f.sig_output or ""]):
                continue        # the steps of a cursor are modelled where they are used, not analysed
            if f.params and p not in self.called:
                out.append(p)
                continue
            for i, t in enumerate(f.sig_inputs):
                if has_pair_ty(t or "") and (i >= len(self.pvals[p]) or self.pvals[p][i] is None or not self.pvals[p][i].m):
                    out.append(p)
                    break
        return out

    def _add_param(self, callee, i, val):
        if val is None or callee not in self.fns or i >= len(self.pvals[callee]):
            return
        if val.of is not None and val.kind != "rulec":
            val = V(val.kind, val.m, val.leaf, fuzzy=val.fuzzy)
        cur = self.pvals[callee][i]
        new = join(cur, val)
        if cur is None or new.sig() != cur.sig():
            self.pvals[callee][i] = new
            self.changed = True

    # ------------------------------------------------------------------ grammar queries
    def _lang(self, R):
        if R not in self.g.rules:
            return G.EPS
        return self.g.child_lang(R)

    def _by_pos(self, R):
        if R not in self._sbp:
            self._sbp[R] = G.symbols_by_position(self._lang(R))
        return self._sbp[R]

    def _inner(self, parent, k):
        """children of `parent` (a pair value) from child index k on"""
        m = {}
        for R, an in parent.m.items():
            by_pos, rest = self._by_pos(R)
            syms = set(rest)
            for i, ss in enumerate(by_pos):
                if i >= k:
                    syms |= ss
            for c in syms:
                m[c] = m.get(c, E) | an | {R}
        return V("seq", m, pos=(parent, k), fuzzy=parent.fuzzy)

    def _at(self, parent, k):
        m = {}
        for R, an in parent.m.items():
            by_pos, rest = self._by_pos(R)
            for c in (by_pos[k] if k < len(by_pos) else rest):
                m[c] = m.get(c, E) | an | {R}
        return V("opt", m, fuzzy=parent.fuzzy)

    def _child_m(self, parent, sym):
        an = E
        hit = False
        for R, a in parent.m.items():
            if R in self.g.rules and sym in self.g.alphabet(R):
                an, hit = an | a | {R}, True
        if not hit:
            for R, a in parent.m.items():
                an = an | a | {R}
        return an

    def _ob(self, kind, f, node, rule, ok, msg, detail=None, fuzzy=False):
        base = "%s:%s:%s" % (kind, self._rel(f.path), rule)
        n = sum(1 for k in self.oblig if k.startswith(base + "#") and self.oblig[k]["line"] != node["s"][0])
        key = "%s#%d" % (base, n)
        detail = dict(detail or {})
        if fuzzy and not ok:
            # the rule set went through a construct that is not modelled exactly: no positive evidence
            detail["undecided"] = True
            detail["would_fail"] = True
            ok = True
        self.oblig[key] = {"kind": kind, "fn": f.path, "line": node["s"][0], "rule": rule, "ok": ok, "msg": msg,
                           "detail": detail, "loc": "%s:%d" % (f.file, node["s"][0])}
        return key

    @staticmethod
    def _rel(path):
        if path.startswith(B + "::"):
            return path[len(B) + 2:]
        if path.startswith(CRATE + "::"):
            return path[len(CRATE) + 2:]
        return path

    # ------------------------------------------------------------------ analysis of one function
    def _analyse(self, f):
        env = {}
        vals = self.pvals[f.path]
        for i, p in enumerate(f.params):
            v = vals[i] if i < len(vals) else None
            self._bind(p, v, env)
        self.cur = f
        self._rets = []
        self._loopdepth = 0
        self._stack = [f.path]
        out = self._ev(f.body, env)
        if not diverges(f.body):
            self._rets.append(out)
        if has_pair_ty(f.sig_output or "") or f.sig_output in ("&str",):
            r = None
            for v in self._rets:
                r = join(r, v)
            if r is not None:
                if r.of is not None:
                    r = V(r.kind, r.m, r.leaf, fuzzy=r.fuzzy)
                cur = self.rets.get(f.path)
                new = join(cur, r)
                if cur is None or new.sig() != cur.sig():
                    self.rets[f.path] = new
                    self.changed = True

    # ------------------------------------------------------------------ patterns
    def _bind(self, pat, val, env):
        k = pat.get("k")
        if k == "Binding":
            env[pat["local"]] = val
            if "sub" in pat:
                self._bind(pat["sub"], val, env)
        elif k == "Tuple":
            ps = pat["ps"]
            if val is not None and val.kind == "tuple" and len(val.elems) == len(ps) and "ddpos" not in pat:
                for p, v in zip(ps, val.elems):
                    self._bind(p, v, env)
            else:
                # an element of unknown position: every component gets the whole provenance; a pair-typed component of a
                # pair-like value (enumerate(), zip()) keeps its kind
                for p in ps:
                    if val is not None and val.kind in PAIRLIKE and is_pair_ty(_ty(p)):
                        self._bind(p, V("pair", val.m, fuzzy=val.fuzzy), env)
                    elif val is not None and val.kind in PAIRLIKE:
                        self._bind(p, None if not has_pair_ty(_ty(p)) else V(val.kind, val.m, fuzzy=True), env)
                    else:
                        self._bind(p, mkval(val), env)
        elif k in ("TupleStruct", "Struct"):
            d = norm(pat.get("ctor_of") or pat.get("def") or "")
            subs = pat["ps"] if k == "TupleStruct" else [f["p"] for f in pat.get("fields", [])]
            if d.endswith(("Option::Some", "Result::Ok", "ControlFlow::Continue")):
                inner = val
                if val is not None and val.kind == "opt":
                    inner = V("pair", val.m, fuzzy=val.fuzzy)
                for p in subs:
                    self._bind(p, inner, env)
            elif d.endswith(("Result::Err", "ControlFlow::Break")):
                for p in subs:
                    self._bind(p, None, env)
            else:
                for p in subs:
                    self._bind(p, mkval(val), env)
        elif k in ("Ref", "Box", "Deref", "Guard"):
            self._bind(pat["p"], val, env)
        elif k == "Or":
            for p in pat["ps"]:
                self._bind(p, val, env)
        elif k == "Slice":
            elem = V("pair", val.m, fuzzy=val.fuzzy) if val is not None and val.kind == "seq" else mkval(val)
            for p in pat.get("ps", []) + pat.get("post", []):
                self._bind(p, elem, env)
            if "mid" in pat:
                self._bind(pat["mid"], val, env)

    # ------------------------------------------------------------------ environments
    @staticmethod
    def _merge(env, branches):
        """join the values of the locals of `env` over the environments of the branches that complete normally"""
        if not branches:
            return
        for l in list(env):
            vs = [b.get(l) for b in branches]
            if all(v is env[l] for v in vs):
                continue
            out = None
            for v in vs:
                out = join(out, v)
            env[l] = out

    def _widen(self, env):
        for l, v in list(env.items()):
            if v is not None and v.kind == "seq" and v.pos:
                par, k = v.pos
                env[l] = V("seq", self._inner(par, k).m, fuzzy=v.fuzzy)

    # ------------------------------------------------------------------ parts!
    def _is_parts(self, n):
        if n.get("k") != "BlockExpr" or not n.get("x"):
            return False
        blk = n["b"]
        lets = [s for s in blk["stmts"] if s.get("k") == "Let" and "init" in s]
        if not lets or "tail" not in blk:
            return False
        chain = {x["method"] for x in subnodes(lets[0]["init"]) if x.get("k") == "MethodCall"}
        if not {"into_inner", "peekable"} <= chain:
            return False
        tail = blk["tail"]
        elems = tail["es"] if tail.get("k") == "Tup" else [tail]
        return bool(elems) and all(self._slot_rule(e) for e in elems)

    @staticmethod
    def _slot_rule(e):
        for x in subnodes(e):
            if x.get("k") == "Let" and "init" in x and rule_of_path(x["init"]):
                return rule_of_path(x["init"])
        return None

    def _ev_parts(self, n, env):
        blk = n["b"]
        src = None
        for s in blk["stmts"]:
            if s.get("k") != "Let":
                continue
            for x in subnodes(s.get("init", {})):
                if x.get("k") == "MethodCall" and x["method"] == "into_inner" and src is None:
                    src = self._ev(x["recv"], env)
        tail = blk.get("tail")
        elems = tail["es"] if tail and tail.get("k") == "Tup" else ([tail] if tail else [])
        slots = []
        for e in elems:
            opt = _ty(e).startswith("core::option::Option<") if e.get("t") else e.get("k") != "Match"
            slots.append((self._slot_rule(e), opt))
        if src is not None and src.kind == "pair":
            self._parts_ob(n, src, slots)
        vals = []
        for r, o in slots:
            if src is None:
                vals.append(None)       # not reached yet (bottom)
                continue
            an = self._child_m(src, r) if src.kind == "pair" else E
            # the macro hands out a pair only when its rule is the slot's: exact whatever the precision of the parent
            vals.append(V("opt" if o else "pair", {r: an} if r else {}, fuzzy=not r))
        if tail is not None and tail.get("k") != "Tup":
            return vals[0] if vals else None
        return V("tuple", elems=vals)

    def _parts_ob(self, n, src, slots):
        """the children of every rule of `src` are accepted, exactly, by the slot pattern; returns the obligation keys"""
        keys = []
        for R in sorted(src.m):
            bad = G.accepts_outside(self._lang(R), slots)
            pat = " ".join((s or "?") + ("?" if o else "") for s, o in slots)
            words = [" ".join(w) for w in bad]
            leftover = [w for w in bad if self._is_leftover(w, slots)]
            keys.append(self._ob("parts", self.cur, n, R, not bad,
                                 "children of %s = %s ; builder pattern [%s]" % (R, G.show(self._lang(R)), pat),
                                 {"counterexamples": words, "slots": pat, "panics": any(not self._is_leftover(w, slots) for w in bad),
                                  "drops": bool(leftover)}, fuzzy=src.fuzzy))
        return keys

    # ------------------------------------------------------------------ cursors (a sequence acceptor spelled as an object)
    def _cursor_method(self, g):
        """"optional" / "required" for a method `(&mut cursor, Rule) -> Option<Pair> / Pair` that takes at most the next child and only
        when it is of the given rule; None for anything else"""
        if g.path in self._cmeth:
            return self._cmeth[g.path]
        out = None
        so = g.sig_output or ""
        rule_params = [p for p, t in zip(g.params, g.sig_inputs) if (t or "").endswith("parser::Rule") and p.get("k") == "Binding"]
        # Option<Pair> / Result<Pair, _>: the child is handed out only when it matches (nothing consumed otherwise); Pair: it must match
        kind = "optional" if so.startswith(("core::option::Option<" + PAIR_TY, "core::result::Result<" + PAIR_TY)) else \
            ("required" if so.startswith(PAIR_TY) else None)
        if kind and len(rule_params) == 1:
            rl = rule_params[0]["local"]
            skipping = {"find", "rfind", "skip_while", "take_while", "filter", "filter_map", "find_map", "position", "nth", "skip", "last", "for_each",
                        "fold", "collect", "by_ref", "rev", "nth_back", "next_back"}
            body = list(g.walk())
            plain = not any(x.get("k") == "Loop" or (x.get("k") == "MethodCall" and x["method"] in skipping) for x in body)
            tested = False
            for x in body:
                if x.get("k") == "MethodCall" and x["args"] and any(peel(a).get("local") == rl for a in x["args"]):
                    callee = self.P.fns.get(call_name(x) or "")
                    if x["method"] == "is_rule" or (callee is not None and callee.path != g.path and self._cursor_method(callee) == "optional"):
                        tested = True
                elif x.get("k") == "Binary" and x.get("op") in ("==", "!=") and any(peel(y).get("local") == rl for y in (x["l"], x["r"])):
                    tested = True
            if plain and tested and (kind == "optional" or is_panic(g.body)):
                out = kind
        self._cmeth[g.path] = out
        return out

    def _cursor_new(self, n, parent):
        st = {"parent": parent, "slots": [], "site": n, "ctx": tuple(self._ctx), "ok": self._loopdepth == 0, "keys": []}
        return V("cursor", node=st)

    def _cursor_spoil(self, v):
        """the cursor is used in a way this model does not follow: its acceptance is not decided"""
        if v is not None and v.kind == "cursor" and v.node is not None and v.node["ok"]:
            v.node["ok"] = False
            for k in v.node["keys"]:
                self.oblig.pop(k, None)

    def _cursor_take(self, n, cur, kind, rule):
        st = cur.node
        parent = st["parent"] if st else None
        if st is not None:
            if st["ok"] and st["ctx"] == tuple(self._ctx) and rule:
                st["slots"].append((rule, kind == "optional"))
                for k in st["keys"]:
                    self.oblig.pop(k, None)
                st["keys"] = self._parts_ob(st["site"], parent, st["slots"]) if parent.kind == "pair" else []
            else:
                self._cursor_spoil(cur)
        if not rule:
            m = self._inner(parent, 0).m if parent is not None else {}
            return V("opt" if kind == "optional" else "pair", m, fuzzy=True)
        an = self._child_m(parent, rule) if parent is not None else E
        # handed out only when its rule is the requested one: exact whatever else is known
        return V("opt" if kind == "optional" else "pair", {rule: an})

    @staticmethod
    def _is_leftover(word, slots):
        """the slot pattern accepts a proper prefix and extra children remain (silently ignored) rather than a panic"""
        w = [x for x in word if x != "..."]
        i = 0
        for sym in w:
            j = i
            while j < len(slots) and slots[j][0] != sym:
                if not slots[j][1]:
                    return False
                j += 1
            if j >= len(slots):
                return all(s[1] for s in slots[i:])  # remaining required slots missing => panic, else leftover
            i = j + 1
        return False

    # ------------------------------------------------------------------ rule tests
    def _pair_local(self, e, env):
        """(local id, value) when e denotes a pair held in a local"""
        e = peel(e)
        if e.get("k") == "Path" and "local" in e:
            v = env.get(e["local"])
            if v is not None and v.kind == "pair":
                return e["local"], v
        return None, None

    def _rule_subject(self, e, env):
        """e evaluates to the rule of a pair held in a local: `p.as_rule()`, a local bound to it, PairExt::as_rule(&p)"""
        e = peel(e)
        if e.get("k") == "MethodCall" and e["method"] == "as_rule":
            return self._pair_local(e["recv"], env)
        if e.get("k") == "Call" and (call_name(e) or "").endswith("::as_rule") and len(e["args"]) == 1:
            return self._pair_local(e["args"][0], env)
        if e.get("k") == "Path" and "local" in e:
            v = env.get(e["local"])
            if v is not None and v.kind == "ruleof" and v.of is not None:
                w = env.get(v.of)
                if w is not None and w.kind == "pair":
                    return v.of, w
        return None, None

    def _rule_const(self, e, env):
        """the Rule an expression denotes: a `Rule::X` path or a local / parameter known to hold one"""
        e = peel(e)
        r = rule_of_path(e)
        if r:
            return r
        if e.get("k") == "Path" and "local" in e:
            v = env.get(e["local"])
            if v is not None and v.kind == "rulec":
                return v.of
        return None

    def _pred_call(self, g, args, env, depth):
        """a call of a workspace predicate `fn(.., &Pair, .., Rule) -> bool` whose body is itself a recognised rule test"""
        if len(args) != len(g.params) or depth > 3:
            return None
        env2, back = {}, {}
        for i, (p, a) in enumerate(zip(g.params, args)):
            if p.get("k") != "Binding":
                return None
            if a is None:
                continue
            if isinstance(a, V):
                env2[p["local"]] = a
                back[p["local"]] = p["local"]
            else:
                l, v = self._pair_local(a, env)
                if l is not None:
                    env2[p["local"]] = v
                    back[p["local"]] = l
                else:
                    r = self._rule_const(a, env)
                    if r:
                        env2[p["local"]] = V("rulec", of=r)
            if g.path in self.fns and p["local"] in env2 and not self._quiet:
                self.called.add(g.path)
                self._add_param(g.path, i, env2[p["local"]])
        t = self._rule_test(peel(g.body), env2, depth + 1)
        if t is not None and t[0] in back:
            return back[t[0]], t[1], t[2]
        return None

    def _rule_test(self, c, env, depth=0):
        """(local, value, rules for which the test is true) for a recognised boolean test of a pair's rule, else None"""
        c = peel(c)
        k = c.get("k")
        if k == "Unary" and c.get("op") == "Not" and depth > 0:
            t = self._rule_test(c["e"], env, depth)
            return (t[0], t[1], t[1].rules - t[2]) if t is not None else None
        if k == "MethodCall" and c["method"] == "is_rule" and c["args"]:
            l, v = self._pair_local(c["recv"], env)
            r = self._rule_const(c["args"][0], env)
            if l is not None and r:
                return l, v, frozenset({r})
        if k == "Call" and (call_name(c) or "").endswith("::is_rule") and len(c["args"]) == 2:
            l, v = self._pair_local(c["args"][0], env)
            r = self._rule_const(c["args"][1], env)
            if l is not None and r:
                return l, v, frozenset({r})
        if k == "Binary" and c.get("op") in ("==", "!="):
            for a, b in ((c["l"], c["r"]), (c["r"], c["l"])):
                l, v = self._rule_subject(a, env)
                r = self._rule_const(b, env)
                if l is not None and r:
                    rs = frozenset({r})
                    return l, v, (rs if c["op"] == "==" else v.rules - rs)
        if k in ("Call", "MethodCall"):
            g = self.P.fns.get(call_name(c) or "")
            if g is not None and g.sig_output == "bool" and g.kind in ("Fn", "AssocFn") and not g.derived:
                t = self._pred_call(g, ([c["recv"]] if k == "MethodCall" else []) + c["args"], env, depth)
                if t is not None:
                    return t
        if k == "Match" and len(c["arms"]) >= 1:
            # matches!(p.as_rule(), Rule::A | Rule::B)
            l, v = self._rule_subject(c["scrut"], env)
            if l is not None and all("guard" not in a and lit_value(a["body"]) in (True, False) for a in c["arms"]):
                yes, seen = set(), set()
                for a in c["arms"]:
                    rs = arm_rules(a["pat"])
                    reach = (v.rules & rs) - seen if rs else v.rules - seen
                    seen |= reach
                    if lit_value(a["body"]) is True:
                        yes |= reach
                return l, v, frozenset(yes)
        return None

    def _mentions_pair(self, c, env):
        """locals holding a pair that an expression inspects in a way this model does not follow: a test on them may be a rule test
        in disguise (a helper predicate, a comparison of texts, ..)"""
        out = set()
        for x in subnodes(c):
            if x.get("k") == "Path" and "local" in x:
                v = env.get(x["local"])
                if v is None:
                    continue
                if v.kind == "pair":
                    out.add(x["local"])
                elif v.kind in ("ruleof", "text") and v.of is not None:
                    w = env.get(v.of)
                    if w is not None and w.kind == "pair":
                        out.add(v.of)
        return out

    @staticmethod
    def _narrow(env, l, nv):
        """the pair in local l is now nv: what was read from that very pair before (its text, its rule, its position) narrows with it"""
        env[l] = nv
        keep = nv.rules
        for k2, w in list(env.items()):
            if w is not None and w is not nv and w.of == l and w.kind in ("text", "ruleof", "val") and not (w.rules <= keep):
                env[k2] = V(w.kind, {r: a for r, a in w.m.items() if r in keep}, w.leaf & keep, of=l, fuzzy=w.fuzzy or nv.fuzzy)

    @staticmethod
    def _fuzz(env, locals_):
        for l in locals_:
            v = env.get(l)
            if v is not None and not v.fuzzy:
                env[l] = V(v.kind, v.m, v.leaf, pos=v.pos, of=v.of, fuzzy=True)

    @staticmethod
    def _unfuzz(env, before, all_live):
        """after a construct whose branches all complete: a local whose rule set is what it was before is as exact as before"""
        if not all_live:
            return
        for l, b in before.items():
            v = env.get(l)
            if v is not None and b is not None and v is not b and v.fuzzy and not b.fuzzy and v.kind == b.kind and v.m == b.m:
                env[l] = b

    def _cond(self, c, env):
        """evaluate a condition: (environment when true, environment when false)"""
        c0 = c
        c = peel(c)
        k = c.get("k")
        if k == "Unary" and c.get("op") == "Not":
            t, e = self._cond(c["e"], env)
            return e, t
        if k == "Binary" and c.get("op") == "&&":
            t1, e1 = self._cond(c["l"], env)
            t2, e2 = self._cond(c["r"], t1)
            ee = dict(env)
            self._merge(ee, [e1, e2])
            return t2, ee
        if k == "Binary" and c.get("op") == "||":
            t1, e1 = self._cond(c["l"], env)
            t2, e2 = self._cond(c["r"], e1)
            tt = dict(env)
            self._merge(tt, [t1, t2])
            return tt, e2
        if k == "LetExpr":
            l, v = self._rule_subject(c["init"], env)
            rs = rules_in_pat(c["pat"])
            t, e = dict(env), dict(env)
            if l is not None and rs and not any(x.get("k") == "Binding" for x in subnodes(c["pat"])):
                self._narrow(t, l, narrowed(v, rs))
                self._narrow(e, l, narrowed(v, rs, False))
                return t, e
            val = self._ev(c["init"], env)
            t, e = dict(env), dict(env)
            if val is None or val.kind in ("val", "ruleof", "text", "tuple"):
                fz = self._mentions_pair(c["init"], env)     # a refutable pattern on something computed from pairs
                self._fuzz(t, fz)
                self._fuzz(e, fz)
            self._bind(c["pat"], val, t)
            return t, e
        tst = self._rule_test(c, env)
        if tst is not None:
            l, v, yes = tst
            t, e = dict(env), dict(env)
            self._narrow(t, l, narrowed(v, yes))
            self._narrow(e, l, narrowed(v, yes, False))
            return t, e
        fz = self._mentions_pair(c, env)
        self._ev(c0, env)
        t, e = dict(env), dict(env)
        self._fuzz(t, fz)
        self._fuzz(e, fz)
        return t, e

    def _guard_ob(self, node, local, before, reach, what):
        """a panicking branch is taken when the pair in `local` is one of `reach`"""
        S = before.rules
        self._ob("as_rule", self.cur, node, "{%s}" % ",".join(sorted(S)) if len(S) > 3 else ",".join(sorted(S)), not reach, what,
                 {"unhandled": sorted(reach)}, fuzzy=before.fuzzy)

    # ------------------------------------------------------------------ expressions
    def _ev(self, n, env):
        if n is None or not isinstance(n, dict):
            return None
        k = n.get("k")
        if k == "BlockExpr":
            if self._is_parts(n):
                return self._ev_parts(n, env)
            return self._ev(n["b"], env)
        if k == "Block":
            for s in n["stmts"]:
                if s.get("k") == "Let":
                    v = self._ev(s["init"], env) if "init" in s else None
                    if "els" in s:
                        self._ev(s["els"], dict(env))
                        self._let_else_test(s, env)
                        if (v is None or v.kind in ("val", "text", "tuple")) and "init" in s:
                            self._fuzz(env, self._mentions_pair(s["init"], env))   # a refutable pattern on something computed from pairs
                    self._bind(s["pat"], v, env)
                elif s.get("k") == "Stmt":
                    self._ev(s["e"], env)
                else:
                    self._ev(s, env)
            return self._ev(n["tail"], env) if "tail" in n else None
        if k == "Path":
            if "local" in n:
                return env.get(n["local"])
            d = norm(n.get("def", "") or "")
            if d.endswith("Option::None"):
                return V("opt")
            if d.startswith(RULE):
                return V("rulec", of=d[len(RULE):])
            if n.get("dk") in ("Fn", "AssocFn"):
                return V("fn", of=norm(n.get("rd") or n["def"]))
            return None
        if k in ("DropTemps", "Use", "AddrOf", "Cast", "Type"):
            return self._ev(n["e"], env)
        if k == "Unary":
            v = self._ev(n["e"], env)
            return v if n.get("op") == "Deref" else mkval(v)
        if k == "Closure":
            return V("closure", node=n)
        if k == "Ret":
            v = self._ev(n.get("e"), env)
            self._rets.append(v)
            return None
        if k in ("Break", "Continue"):
            v = self._ev(n.get("e"), env)
            if k == "Break" and "e" in n and self._breaks:
                self._breaks[-1].append(v)      # `break value`: the value of the enclosing loop
            return None
        if k == "If":
            return self._ev_if(n, env)
        if k == "Match":
            return self._ev_match(n, env)
        if k == "Struct" and "rest" not in n:
            adt = norm(n.get("variant") or n.get("adt") or "")
            vals = []
            for fld in n["fields"]:
                v = self._ev(fld["e"], env)
                vals.append(v)
                if adt.startswith("nitrogql_ast::"):
                    m, leaf, fz = prov(v)
                    rec = self.fills.setdefault((adt, fld["name"]), {"m": {}, "leaf": E, "fuzzy": False, "fns": set(), "sites": 0, "ops": {}})
                    rec["m"], rec["leaf"], rec["fuzzy"] = m_join(rec["m"], m), rec["leaf"] | leaf, rec["fuzzy"] or fz
                    if not m and any(x.get("k") == "Path" and "local" in x and (env.get(x["local"]) is None or not prov(env.get(x["local"]))[0])
                                     for x in subnodes(fld["e"])):
                        rec["unknown"] = True       # built from a local whose origin the interpreter did not follow
                    for op in ops_of(v):
                        rec["ops"].setdefault(op, "%s:%d" % (self.cur.file, n["s"][0]))
                    c2 = ctl_of(v)
                    rec["data"] = rec.get("data", set()) | (set(m) - c2)
                    rec["fns"].add(self.cur.path)
                    rec["sites"] += 1
            if "base" in n and isinstance(n["base"], dict):
                vals.append(self._ev(n["base"], env))
            if adt in self.cursor_adts:
                seqs = [v for v in vals if v is not None and v.kind == "seq" and v.pos and v.pos[1] == 0]
                return self._cursor_new(n, seqs[0].pos[0]) if len(seqs) == 1 else (None if any(v is None for v in vals) else V("cursor"))
            if adt in ("nitrogql_ast::base::Ident", "nitrogql_ast::base::Keyword"):
                by = {fld["name"]: prov(v) for fld, v in zip(n["fields"], vals)}
                self.ident_sites.append({"fn": self.cur.path, "loc": "%s:%d" % (self.cur.file, n["s"][0]), "adt": adt.split("::")[-1], "by": by})
            return mkval(*vals)
        if k == "MethodCall":
            return self._ev_method(n, n["method"], n["recv"], n["args"], env)
        if k == "Call":
            return self._ev_call(n, env)
        if k == "Tup":
            return V("tuple", elems=[self._ev(x, env) for x in n["es"]])
        if k == "Field":
            v = self._ev(n["e"], env)
            if v is not None and v.kind == "tuple" and str(n.get("field", "")).isdigit() and int(n["field"]) < len(v.elems):
                return v.elems[int(n["field"])]
            return mkval(v)
        if k == "Loop":
            self._widen(env)
            self._loopdepth += 1
            self._ctx.append(id(n))
            self._breaks.append([])
            for _ in range(2):
                e2 = dict(env)
                self._ev(n["body"], e2)
                self._merge(env, [env, e2])
                self._widen(env)
            self._loopdepth -= 1
            self._ctx.pop()
            out = None
            for v in self._breaks.pop():
                out = join(out, v)
            return out
        if k in ("Assign", "AssignOp"):
            v = self._ev(n["r"], env)
            base = n["l"]
            projected = False
            while base.get("k") in ("Field", "Index", "Unary"):
                projected = projected or base.get("k") != "Unary"
                base = base["e"]
            if base.get("k") == "Path" and "local" in base:
                l = base["local"]
                if k == "Assign" and not projected:
                    env[l] = v
                else:
                    env[l] = join(env.get(l), mkval(v))
            else:
                self._ev(n["l"], env)
            return None
        if k == "Lit":
            return None
        # generic: evaluate the children; the value derives from all of them
        vals = []
        for key, v in n.items():
            if isinstance(v, dict) and "k" in v:
                vals.append(self._ev(v, env))
            elif isinstance(v, list):
                for x in v:
                    if isinstance(x, dict) and "k" in x:
                        vals.append(self._ev(x, env))
                    elif isinstance(x, dict) and "e" in x:
                        vals.append(self._ev(x["e"], env))
        return mkval(*vals)

    def _let_else_test(self, s, env):
        """`let Rule::X = p.as_rule() else { panic!() }` narrows p"""
        l, v = self._rule_subject(s["init"], env) if "init" in s else (None, None)
        rs = rules_in_pat(s["pat"])
        if l is not None and rs:
            if is_panic(s["els"]):
                self._guard_ob(s, l, v, v.rules - rs, "`let %s = as_rule() else panic`" % "|".join(sorted(rs)))
            self._narrow(env, l, narrowed(v, rs))

    def _ev_if(self, n, env):
        c = n["cond"]
        before = dict(env)
        tst = self._rule_test(self._strip_not(c)[0], env) if peel(c).get("k") != "LetExpr" else None
        then_env, else_env = self._cond(c, env)
        if tst is not None:
            l, v, _ = tst
            if diverges(n["then"]) and is_panic(n["then"]):
                self._guard_ob(n, l, v, then_env[l].rules, "guard: the branch for %s panics" % sorted(then_env[l].rules))
            elif "else" in n and diverges(n["else"]) and is_panic(n["else"]):
                self._guard_ob(n, l, v, else_env[l].rules, "guard: the branch for %s panics" % sorted(else_env[l].rules))
            elif diverges(n["then"]) or ("else" in n and diverges(n["else"])):
                # the rule of the pair is checked and the other case leaves without a panic (an error is returned): nothing to prove
                self._guard_ob(n, l, v, frozenset(), "guard: the other rules leave the function without a panic")
        self._ctx.append(id(n["then"]))
        a = self._ev(n["then"], then_env)
        self._ctx[-1] = id(n)
        b = self._ev(n["else"], else_env) if "else" in n else None
        self._ctx.pop()
        live = []
        if not diverges(n["then"]):
            live.append(then_env)
        if "else" not in n or not diverges(n["else"]):
            live.append(else_env)
        self._merge(env, live)
        self._unfuzz(env, before, len(live) == 2)
        out = None
        if not diverges(n["then"]):
            out = a
        if "else" in n and not diverges(n["else"]):
            out = join(out, b)
        return self._with_control(out, self._cond_prov(c, env))

    @staticmethod
    def _strip_not(c):
        neg = False
        c = peel(c)
        while c.get("k") == "Unary" and c.get("op") == "Not":
            neg = not neg
            c = peel(c["e"])
        return c, neg

    def _cond_prov(self, c, env):
        """provenance of the pairs a condition inspects (control dependence, structural)"""
        vs = []
        for x in subnodes(c):
            if x.get("k") == "Path" and "local" in x:
                v = env.get(x["local"])
                if v is not None and v.kind in ("pair", "opt", "seq", "text", "ruleof", "val"):
                    vs.append(v)
        return vs

    @staticmethod
    def _with_control(out, ctl):
        """a value selected by a test on pairs also depends (structurally) on those pairs; pair-like values keep their kind"""
        m, fz = {}, False
        for v in ctl:
            if v is not None:
                m, fz = m_join(m, v.m), fz or v.fuzzy
        if not m and not fz:
            return out
        if out is None:
            return V("val", m, fuzzy=fz, ctl=frozenset(m))
        if out.kind in ("val", "text", "ruleof"):
            return V("val", m_join(out.m, m), out.leaf, fuzzy=out.fuzzy or fz, ops=out.ops,
                     ctl=frozenset(out.ctl | (set(m) - (set(out.m) - out.ctl))))
        return out

    def _ev_match(self, n, env):
        sc = n["scrut"]
        f = self.cur
        l, v = self._rule_subject(sc, env)
        tmp = None
        psc = peel(sc)
        if l is None and psc.get("k") == "MethodCall" and psc["method"] == "as_rule" and not any("guard" in a for a in n["arms"]):
            # the rule of a temporary: `match pair.only_child().as_rule() { .. }`
            rvv = self._ev(psc["recv"], env)
            if rvv is not None and rvv.kind == "pair":
                tmp = l = ("tmp", id(n))
                env[l] = v = rvv
        if l is not None and not any("guard" in a for a in n["arms"]):
            # match p.as_rule() { Rule::A => .., rule => panic!(..) }
            seen = set()
            live, out = [], None
            table = {}
            ctors = {}
            panicking = set()
            handled = set()
            has_panic = False
            for arm in n["arms"]:
                rs = arm_rules(arm["pat"])
                reach = (v.rules & rs) - seen if rs else v.rules - seen
                seen |= reach
                e2 = dict(env)
                self._narrow(e2, l, narrowed(v, reach))
                if not rs:
                    self._bind(arm["pat"], V("ruleof", e2[l].m, of=l, fuzzy=v.fuzzy), e2)
                dv = diverges(arm["body"])
                if dv and is_panic(arm["body"]):
                    has_panic = True
                    panicking |= reach
                else:
                    handled |= rs if rs else reach
                self._ctx.append(id(arm))
                val = self._ev(arm["body"], e2)
                self._ctx.pop()
                lv = lit_value(arm["body"])
                if lv is not None:
                    for r in (rs or reach):
                        table[r] = lv
                else:
                    b = peel(arm["body"])
                    if b.get("k") == "Path" and str(b.get("dk", "")).startswith("Ctor") and rs:
                        for r in rs:
                            ctors[r] = norm(b.get("def", ""))
                if not dv:
                    live.append(e2)
                    out = join(out, val)
            if has_panic:
                self._guard_ob(n, l, v, panicking, "match over as_rule() handles %s" % sorted(handled))
            if table or ctors:
                self.rule_tables.append({"fn": f.path, "loc": "%s:%d" % (f.file, n["s"][0]), "table": table, "ctors": ctors, "subject": sorted(v.rules)})
            if tmp is not None:
                for e3 in live:
                    e3.pop(tmp, None)
                env.pop(tmp, None)
            self._merge(env, live)
            return self._with_control(out, [v])
        val = self._ev(sc, env)
        if val is not None and val.kind == "text":
            self._text_match(n, env, val)
        before = dict(env)
        fz = set()
        if l is not None:
            fz.add(l)       # guarded arms over the rule of a pair: not modelled exactly
        if val is None or val.kind in ("val", "ruleof", "text", "tuple"):
            # the arms are selected by something computed from pairs: inside them the pairs may be narrower than this model knows
            fz |= self._mentions_pair(sc, env)
        live, out = [], None
        for arm in n["arms"]:
            e2 = dict(env)
            self._fuzz(e2, fz)
            self._bind(arm["pat"], val, e2)
            if "guard" in arm:
                t, _ = self._cond(arm["guard"], e2)
                e2 = t
            self._ctx.append(id(arm))
            r = self._ev(arm["body"], e2)
            self._ctx.pop()
            if not diverges(arm["body"]):
                live.append(e2)
                out = join(out, r)
        self._merge(env, live)
        self._unfuzz(env, before, len(live) == len(n["arms"]) and not any("guard" in a for a in n["arms"]))
        if n.get("src") in (None, "Normal") and val is not None and val.kind in ("opt", "text", "ruleof", "val", "pair"):
            return self._with_control(out, [val])
        return out

    def _text_match(self, n, env, v):
        lits = set()
        fallback_panics = False
        arms = {}
        for arm in n["arms"]:
            ls = pat_lits(arm["pat"])
            if ls:
                lits |= set(ls)
                made = [norm(x.get("def", "")) for x in subnodes(arm["body"]) if x.get("k") == "Path" and str(x.get("dk", "")).startswith("Ctor")]
                for l in ls:
                    arms[l] = {"lit": lit_value(arm["body"]), "ctor": made[0] if made else None}
            elif is_panic(arm["body"]):
                fallback_panics = True
        self.text_tables.append({"fn": self.cur.path, "loc": "%s:%d" % (self.cur.file, n["s"][0]), "rules": sorted(v.rules), "arms": arms,
                                 "fallback_panics": fallback_panics, "fuzzy": v.fuzzy})
        if fallback_panics:
            for R in sorted(v.rules):
                tl = self.g.text_lang(R) if R in self.g.rules else None
                if tl is None:
                    self._ob("text", self.cur, n, R, True, "text language of %s is not finite: not decided" % R, {"undecided": True})
                else:
                    self._ob("text", self.cur, n, R, tl <= lits, "texts of %s = %s ; arms = %s" % (R, sorted(tl), sorted(lits)),
                             {"unhandled": sorted(tl - lits), "dead": sorted(lits - tl)}, fuzzy=v.fuzzy)

    # ------------------------------------------------------------------ calls
    def _apply(self, fval, argvals, env):
        """apply a closure value / fn item to argument values"""
        if fval is None:
            return None
        if fval.kind == "closure":
            c = fval.node
            e2 = dict(env)
            for i, p in enumerate(c["params"]):
                self._bind(p, argvals[i] if i < len(argvals) else None, e2)
            saved, self._rets = self._rets, []
            self._ctx.append(id(c))
            out = self._ev(c["body"], e2)
            self._ctx.pop()
            for r in self._rets:        # `return` inside a closure leaves the closure
                out = join(out, r)
            self._rets = saved
            for p in c["params"]:
                for x in subnodes(p):
                    if x.get("k") == "Binding":
                        e2.pop(x["local"], None)
            self._merge(env, [env, e2])
            return out
        if fval.kind == "fn":
            return self._call_fn(fval.of, argvals)
        return None

    def _call_fn(self, callee, argvals):
        if callee in self.fns:
            if not self._quiet:
                self.called.add(callee)
                for i, v in enumerate(argvals):
                    self._add_param(callee, i, v)
            f = self.fns[callee]
            pairish = has_pair_ty(f.sig_output or "") or f.sig_output in ("&str",)
            # a helper parametrised by a rule or a function (`build_list(pair, Rule::X, build_x)`): joined over its call sites these
            # parameters mean nothing, so its body is evaluated, and recorded, once per call site
            generic = any(v is not None and v.kind in ("fn", "closure", "rulec") for v in argvals)
            if pairish or generic:
                # a helper that yields pairs / text is a user-defined primitive: evaluated for *this* call's arguments, so that a
                # helper shared by many callers does not blur their rule sets
                if callee not in self._stack and len(self._stack) < 4:
                    if generic and not self._quiet:
                        self.generic_fns.add(callee)    # recorded per call site; its own (joined) analysis would only blur it
                    r = self._eval_in_context(f, argvals, quiet=not generic or bool(self._quiet))
                    return r if pairish else mkval(*argvals)
                if not pairish:
                    return mkval(*argvals)
                r = self.rets.get(callee)          # recursion: the summary joined over all call sites, None until it exists
                return V(r.kind, r.m, r.leaf, elems=r.elems, fuzzy=True) if r is not None else None
            return mkval(*argvals)
        return mkval(*argvals)

    def _eval_in_context(self, f, argvals, quiet=True):
        """the value `f` returns for these argument values; when quiet nothing is recorded (f's own analysis records its obligations)"""
        saved = (self.cur, self._rets, self._loopdepth, self.oblig, self.fills, self.text_tables, self.rule_tables, self.ident_sites)
        if quiet:
            self.oblig, self.fills, self.text_tables, self.rule_tables, self.ident_sites = {}, {}, [], [], []
            self._quiet += 1
        self._stack.append(f.path)
        try:
            env = {}
            for i, p in enumerate(f.params):
                self._bind(p, argvals[i] if i < len(argvals) else None, env)
            self.cur, self._rets, self._loopdepth = f, [], 0
            out = self._ev(f.body, env)
            if not diverges(f.body):
                self._rets.append(out)
            r = None
            for v in self._rets:
                r = join(r, v)
            if r is not None and r.of is not None:
                r = V(r.kind, r.m, r.leaf, pos=r.pos, fuzzy=r.fuzzy)
            return r
        finally:
            self._stack.pop()
            if quiet:
                self._quiet -= 1
                (self.cur, self._rets, self._loopdepth, self.oblig, self.fills, self.text_tables, self.rule_tables, self.ident_sites) = saved
            else:
                self.cur, self._rets, self._loopdepth = saved[:3]

    def _out_params(self, args, vals, env):
        """a local handed to a call by `&mut` may be filled from the other arguments (out-parameter) or advanced (an iterator)"""
        for v in vals:
            self._cursor_spoil(v)       # a cursor handed to other code: what that code consumes is not followed
        for i, a in enumerate(args):
            if not (isinstance(a, dict) and a.get("k") == "AddrOf" and a.get("mut")):
                continue
            b = peel(a)
            if b.get("k") != "Path" or "local" not in b:
                continue
            cur = env.get(b["local"])
            others = [v for j, v in enumerate(vals) if j != i]
            if cur is not None and cur.kind in PAIRLIKE:
                if cur.pos:
                    env[b["local"]] = V(cur.kind, cur.m, fuzzy=cur.fuzzy)
            else:
                new = mkval(cur, *others)
                if new is not None:
                    env[b["local"]] = new

    def _elem(self, rv):
        if rv is not None and rv.kind in ("seq", "opt"):
            return V("pair", rv.m, fuzzy=rv.fuzzy)
        if rv is not None and rv.kind == "pair":
            return rv
        out = mkval(rv)
        if out is not None and out.ops:
            # an element of a re-ordered collection is not itself re-ordered (the collection built from the elements is)
            out = V(out.kind, out.m, out.leaf, fuzzy=out.fuzzy) if (out.m or out.fuzzy) else None
        return out

    def _closure_args(self, fn_arg, elem, acc=None):
        """argument values for a closure / fn item applied by an adaptor: pair-typed parameters receive the element"""
        if fn_arg.get("k") == "Closure":
            ps = fn_arg["params"]
            if len(ps) <= 1:
                return [elem]
            if not any(has_pair_ty(_ty(p)) for p in ps):
                # fold(init, |acc, item| ..) over built values: the element is the last parameter, the accumulator comes first
                return [join(acc, elem) if i < len(ps) - 1 else elem for i, p in enumerate(ps)]
            out = []
            for p in ps:
                out.append(elem if has_pair_ty(_ty(p)) else acc)
            return out
        return [elem]

    def _select(self, m, rv, args, env):
        """the elements of rv a selecting adaptor keeps, as a pair value: narrowed by a recognised predicate, else marked fuzzy"""
        elem = self._elem(rv)
        c = args[0]
        if c.get("k") == "Closure" and c["params"] and SELECT[m] != "suffix":
            e2 = dict(env)
            self._bind(c["params"][0], elem, e2)
            pl = [x["local"] for x in subnodes(c["params"][0]) if x.get("k") == "Binding"]
            body = peel(c["body"])
            if body.get("k") == "BlockExpr" and "tail" in body["b"]:
                # statements before the final test (an all_children-style check)
                for st in body["b"]["stmts"]:
                    self._ev({"k": "Block", "stmts": [st], "s": st.get("s")}, e2)
                body = body["b"]["tail"]
            t, _ = self._cond(body, e2)
            kept = t.get(pl[0]) if len(pl) == 1 else None
            self._merge(env, [env, {k2: v2 for k2, v2 in e2.items() if k2 not in pl}])
            for a in args[1:]:
                self._ev(a, env)
            if kept is not None and kept.kind == "pair":
                return V("pair", kept.m, fuzzy=kept.fuzzy or rv.fuzzy)
            return V("pair", rv.m, fuzzy=True)
        kept = None
        for i, a in enumerate(args):
            if a.get("k") == "Closure":
                self._apply(V("closure", node=a), [elem], env)
            else:
                fv = self._ev(a, env)
                if fv is not None and fv.kind in ("fn", "closure"):
                    self._apply(fv, [elem], env)
                if i == 0 and fv is not None and fv.kind == "fn" and SELECT[m] != "suffix" and elem is not None and elem.kind == "pair":
                    g = self.P.fns.get(fv.of)
                    if g is not None and g.sig_output == "bool" and len(g.params) == 1:
                        t = self._pred_call(g, [elem], env, 0)
                        if t is not None:
                            kept = narrowed(elem, t[2])
        if kept is not None:
            return V("pair", kept.m, fuzzy=kept.fuzzy or rv.fuzzy)
        return V("pair", rv.m, fuzzy=rv.fuzzy or len(rv.m) > 1)

    def _ev_method(self, n, m, recv, args, env):
        rv = self._ev(recv, env)
        out = self._ev_method1(n, m, recv, rv, args, env)
        if m == "partition" and out is not None and out.kind != "tuple":
            # the two halves of a content-based split: each remembers which split it came from
            pid = "partition:%s:%d" % (self._rel(self.cur.path), n["s"][0])
            base = with_ops(out, ops_of(rv))
            return V("tuple", elems=[with_ops(base, frozenset({pid + ":0"})), with_ops(base, frozenset({pid + ":1"}))])
        ops = ops_of(rv)
        if m in ELEM or m in ORDER_FREE:
            # one element / a count / a folded value: the order of the collection it came from no longer matters
            if out is not None and ops and (out.ops & ops):
                out = V(out.kind, out.m, out.leaf, out.pos, out.elems, out.node, out.of, out.fuzzy, out.ops - ops, out.ctl)
            ops = E
        rl = peel(recv)
        op = self._reorder_op(n, m, args, rv)
        if op:
            if op == "rev" and "rev" in ops:
                ops = ops - {"rev"}         # reversed twice
                out = V(out.kind, out.m, out.leaf, out.pos, out.elems, out.node, out.of, out.fuzzy, out.ops - {"rev"}, out.ctl) if out is not None else None
            else:
                ops = ops | {op}
            if rl.get("k") == "Path" and "local" in rl and _ty(n) in ("()", ""):
                # in place: the local itself is re-ordered
                env[rl["local"]] = with_ops(env.get(rl["local"]), frozenset({op}))
                return out
        return with_ops(out, ops) if (out is not None or _ty(n) not in ("()", "")) else out

    @staticmethod
    def _reorder_op(n, m, args, rv):
        """the name of the order-disturbing operation a method call performs on a collection / iterator, if any"""
        if m in REORDER:
            if m.startswith("sort") and args and args[-1].get("k") == "Closure":
                # sorting by the position in the text restores the text order
                body = args[-1]["body"]
                if any((x.get("k") == "Field" and x.get("field") in ("position", "pos")) or
                       (x.get("k") == "MethodCall" and x["method"] in ("to_pos", "line_col", "position", "pos")) for x in subnodes(body)):
                    return None
            return m
        t = _ty(n)
        if m in ("collect", "from_iter", "into_group_map", "into_grouping_map") and any(w in t for w in ("HashMap<", "HashSet<", "BTreeMap<", "BTreeSet<")):
            return "collect into " + t.split("<")[0].split("::")[-1]
        if m == "insert" and len(args) == 2 and lit_value(args[0]) in ("0", 0) and "Vec" in (n.get("recv_ty") or ""):
            return "insert(0, ..)"
        if m == "push_front":
            return "push_front"
        return None

    def _ev_method1(self, n, m, recv, rv, args, env):
        if (rv is not None and rv.kind == "cursor") or (rv is None and _ty(recv).split("<")[0] in self.cursor_adts):
            g = self.P.fns.get(call_name(n) or "")
            vals = [self._ev(a, env) for a in args]
            if rv is None:
                return None         # not reached yet (bottom)
            if g is not None and g.path in self.fns and not self._quiet:
                self.called.add(g.path)
            kind = self._cursor_method(g) if g is not None else None
            if kind:
                rule = None
                for a in args:
                    rule = rule or self._rule_const(a, env)
                return self._cursor_take(n, rv, kind, rule)
            self._cursor_spoil(rv)
            if has_pair_ty(_ty(n)) and rv.node is not None:
                k2 = "pair" if is_pair_ty(_ty(n)) else ("opt" if _ty(n).startswith("core::option::Option<") else "seq")
                return V(k2, self._inner(rv.node["parent"], 0).m, fuzzy=True)
            return mkval(*vals)
        if call_name(n) in self.fns:
            # a builder written as a method
            vals = [self._ev(a, env) for a in args]
            self._out_params(args, vals, env)
            return self._call_fn(call_name(n), [rv] + vals)
        recv_is_pair = (n.get("recv_adt") or n.get("self_adt") or "") == PAIR_ADT or is_pair_ty(_ty(recv)) or \
            norm(n.get("callee") or "").startswith((PAIREXT, PAIR_ADT + "::"))
        if recv_is_pair and not (call_name(n) in self.fns):
            return self._ev_pair_method(n, m, recv, rv, args, env)
        rl = peel(recv)
        rlocal = rl["local"] if rl.get("k") == "Path" and "local" in rl else None
        # ---- iterator / option plumbing
        if m in ELEM:
            for a in args:
                self._ev(a, env)
            if rv is not None and rv.kind == "seq":
                if rv.pos and m == "next" and self._loopdepth == 0:
                    par, k = rv.pos
                    if rlocal is not None:
                        env[rlocal] = self._inner(par, k + 1)
                    return self._at(par, k)
                if rv.pos and m == "peek" and self._loopdepth == 0:
                    return self._at(rv.pos[0], rv.pos[1])
                if rv.pos and rlocal is not None and m not in ("peek", "first", "last", "get", "peek_mut"):
                    env[rlocal] = V("seq", rv.m, fuzzy=rv.fuzzy)
                # some element of the sequence: which of several rules can stand at this place is not known, unless every element is
                # visited (the loop idiom)
                return V("opt", rv.m, fuzzy=rv.fuzzy or (len(rv.m) > 1 and self._loopdepth == 0))
            if rv is not None and rv.kind == "opt":
                return rv
            return mkval(rv)
        if m in UNWRAP:
            others = [self._ev(a, env) for a in args if a.get("k") != "Closure"]
            for a in args:
                if a.get("k") == "Closure":
                    others.append(self._apply(V("closure", node=a), [], env))
            if rv is not None and rv.kind == "opt":
                out = V("pair", rv.m, fuzzy=rv.fuzzy)
                for o in others:
                    if o is not None and o.kind == "pair":
                        out = join(out, o)
                return out
            return rv if not others else (rv if all(o is None for o in others) else mkval(rv, *others))
        if m in SELECT and args:
            if rv is not None and rv.kind in ("seq", "opt"):
                kept = self._select(m, rv, args, env)
                kind = "opt" if (SELECT[m] == "opt" or rv.kind == "opt") else "seq"
                if m == "next_if" and rlocal is not None and rv.pos:
                    env[rlocal] = V("seq", rv.m, fuzzy=rv.fuzzy)      # advanced or not: the position is no longer known
                if m == "retain" and rlocal is not None:
                    env[rlocal] = V("seq", kept.m, fuzzy=kept.fuzzy)
                    return None
                return V(kind, kept.m, fuzzy=kept.fuzzy)
            vals = [self._ev(a, env) for a in args if a.get("k") != "Closure"]
            for a in args:
                if a.get("k") == "Closure":
                    vals.append(self._apply(V("closure", node=a), [self._elem(rv)], env))
            return mkval(rv, *vals)
        if m in GROW and rlocal is not None:
            vals = [self._ev(a, env) for a in args]
            cur = env.get(rlocal)
            item = None
            for v in vals:
                item = join(item, v) if item is None or v is None or item.kind == v.kind else mkval(item, v)
            if item is not None and item.kind in ("pair", "seq", "opt") and (cur is None or cur.kind == "seq" or not cur.m):
                env[rlocal] = join(V("seq", cur.m if cur is not None else {}, fuzzy=bool(cur is not None and cur.fuzzy)),
                                   V("seq", item.m, fuzzy=item.fuzzy))
            else:
                env[rlocal] = join(mkval(cur), mkval(item)) if (cur is not None or item is not None) else None
            return None
        fn_args = [a for a in args if a.get("k") == "Closure" or (peel(a).get("k") == "Path" and peel(a).get("dk") in ("Fn", "AssocFn"))
                   or (peel(a).get("k") == "Path" and "local" in peel(a) and (env.get(peel(a)["local"]) is not None)
                       and env.get(peel(a)["local"]).kind in ("closure", "fn"))]
        if fn_args:
            elem = self._elem(rv)
            if rv is not None and rv.kind == "seq" and _ty(recv).startswith(("core::result::Result<", "core::option::Option<")):
                elem = V("seq", rv.m, fuzzy=rv.fuzzy)       # Result<Pairs>::map(f): f receives the whole sequence
            fids = {id(a) for a in fn_args}
            others = [self._ev(a, env) for a in args if id(a) not in fids]
            acc = mkval(*others)
            results = []
            for a in fn_args:
                fv = self._ev(a, env)
                results.append(self._apply(fv, self._closure_args(a, elem, acc), env))
            res = None
            for r in results:
                res = join(res, r)
            if m in ("for_each", "inspect", "any", "all", "position", "max_by_key", "min_by_key", "max_by", "min_by", "sort_by_key", "sort_by",
                     "is_some_and", "is_none_or", "partition", "dedup_by_key"):
                if m in ("max_by_key", "min_by_key", "max_by", "min_by", "inspect") and rv is not None and rv.kind in ("seq", "opt"):
                    return V(rv.kind if m == "inspect" else "opt", rv.m, fuzzy=rv.fuzzy or (m != "inspect" and len(rv.m) > 1))
                return mkval(rv, res)
            if res is not None and res.kind in PAIRLIKE and rv is not None and rv.kind in ("seq", "opt"):
                # map(|p| p.only_child()) / filter_map / flat_map(|p| p.into_inner()) / and_then
                kind = "seq" if (rv.kind == "seq" or res.kind == "seq") else "opt"
                out = V(kind, res.m, fuzzy=res.fuzzy or rv.fuzzy)
                for o in others:
                    if o is not None and o.kind in PAIRLIKE:
                        out = V(kind, m_join(out.m, o.m), fuzzy=out.fuzzy or o.fuzzy)
                return out
            return mkval(rv, res, *others)
        vals = [self._ev(a, env) for a in args]
        if m in PASS or m in PASS_NOPOS:
            if rv is not None and rv.kind == "seq":
                out = rv if (m in PASS and m not in PASS_NOPOS) else V("seq", rv.m, fuzzy=rv.fuzzy)
                for v in vals:
                    if v is not None and v.kind in ("seq", "opt", "pair") and m in ("chain",):
                        out = V("seq", m_join(out.m, v.m), fuzzy=out.fuzzy or v.fuzzy)
                return out
            if rv is not None and rv.kind in ("opt", "pair", "text", "tuple"):
                return rv
            return mkval(rv, *vals)
        self._out_params(args, vals, env)
        out = mkval(rv, *vals)
        if rlocal is not None and (n.get("recv_ty") or "").startswith("&mut") and _ty(n) in ("()", ""):
            # an unknown mutator: the receiver now also derives from the arguments
            cur = env.get(rlocal)
            if cur is None or cur.kind not in PAIRLIKE:
                new = mkval(cur, *vals)
                if new is not None:
                    env[rlocal] = new
            elif cur.pos:
                env[rlocal] = V(cur.kind, cur.m, fuzzy=cur.fuzzy)
        if rv is not None and rv.kind in ("seq", "opt") and has_pair_ty(_ty(n)):
            # an adaptor this model does not know that still yields pairs: at most the receiver's (and the arguments') elements
            mm = rv.m
            for v in vals:
                if v is not None and v.kind in PAIRLIKE:
                    mm = m_join(mm, v.m)
            kind = "pair" if is_pair_ty(_ty(n)) else ("opt" if _ty(n).startswith("core::option::Option<") else "seq")
            return V(kind, mm, fuzzy=True)
        return out

    def _ev_pair_method(self, n, m, recv, rv, args, env):
        f = self.cur
        rl = peel(recv)
        rlocal = rl["local"] if rl.get("k") == "Path" and "local" in rl else None
        if rv is not None and rv.kind == "opt":
            rv = V("pair", rv.m, fuzzy=True)
        S = rv if (rv is not None and rv.kind == "pair") else None
        vals = [self._ev(a, env) for a in args]
        if rv is None:
            return None     # not reached yet (bottom)
        if m == "only_child":
            if S is None:
                return mkval(rv, fuzzy=True)
            out = {}
            for R in sorted(S.m):
                L = self._lang(R)
                ls = G.lengths(L)
                self._ob("only_child", f, n, R, ls == {1}, "children of %s = %s" % (R, G.show(L)), {"lengths": sorted(ls)}, fuzzy=S.fuzzy)
                if R not in self._first:
                    self._first[R] = G.first_symbols(L)
                for c in self._first[R]:
                    out[c] = out.get(c, E) | S.m[R] | {R}
            return V("pair", out, fuzzy=S.fuzzy)
        if m == "all_children":
            r = self._rule_const(args[0], env) if args else None
            if S is not None and r:
                for R in sorted(S.m):
                    al = self.g.alphabet(R) if R in self.g.rules else set()
                    self._ob("all_children", f, n, R, al <= {r}, "children of %s = %s ; expected only %s" % (R, G.show(self._lang(R)), r),
                             {"others": sorted(al - {r})}, fuzzy=S.fuzzy)
                return V("seq", {r: self._child_m(S, r)})     # checked at run time: exact whatever the precision of the parent
            if S is not None:
                inner = self._inner(S, 0)
                return V("seq", inner.m, fuzzy=True)
            return mkval(rv, fuzzy=True)
        if m == "into_inner":
            if S is not None:
                return self._inner(S, 0)
            return mkval(rv, fuzzy=True)
        if m == "as_rule":
            if S is not None:
                return V("ruleof", S.m, of=rlocal, fuzzy=S.fuzzy)
            return mkval(rv)
        if m in ("to_ident", "to_keyword") and S is not None:
            for R in sorted(S.m):
                self._ob("ident", f, n, R, R in self.g.rules and self.g.is_name_like(R), "%s() on a %s pair" % (m, R), {"rule": R}, fuzzy=S.fuzzy)
        if m == "as_str" and S is not None:
            return V("text", S.m, S.rules, of=rlocal, fuzzy=S.fuzzy)
        if m in LEAF_READS:
            if S is not None:
                return V("val", S.m, S.rules, of=rlocal, fuzzy=S.fuzzy)
            mm, leaf, fz = prov(rv)
            return V("val", mm, frozenset(mm), fuzzy=True) if mm else None
        if m in ("clone", "to_owned", "borrow", "as_ref"):
            return rv
        if m == "is_rule":
            return mkval(rv)
        # a Pair method this model does not know
        if has_pair_ty(_ty(n)):
            if S is not None:
                inner = self._inner(S, 0)
                kind = "pair" if is_pair_ty(_ty(n)) else ("opt" if _ty(n).startswith("core::option::Option<") else "seq")
                return V(kind, m_join(S.m, inner.m), fuzzy=True)
            return mkval(rv, *vals, fuzzy=True)
        mm, leaf, fz = prov(rv)
        out = mkval(rv, *vals)
        if out is not None:
            out = V("val", out.m, out.leaf | frozenset(mm), fuzzy=out.fuzzy)
        return out

    def _ev_call(self, n, env):
        c = call_name(n) or ""
        fnode = n.get("f", {})
        args = n["args"]
        if c.startswith("core::panicking::"):
            return None
        # a closure / fn item held in a local
        if fnode.get("k") == "Path" and "local" in fnode:
            fv = env.get(fnode["local"])
            vals = [self._ev(a, env) for a in args]
            if fv is not None and fv.kind in ("closure", "fn"):
                return self._apply(fv, vals, env)
            return mkval(*vals)
        last = c.split("::")[-1]
        # RawParser::parse(Rule::X, text)
        if last == "parse" and args and PAIRS_TY in _ty(n):
            for a in args[1:]:
                self._ev(a, env)
            r = self._rule_const(args[0], env)
            return V("seq", {r: E}) if r else None
        g = self.P.fns.get(c)
        if g is not None and (g.sig_output or "").split("<")[0] in self.cursor_adts:
            # a cursor over the children of a pair is made
            vals = [self._ev(a, env) for a in args]
            if c in self.fns and not self._quiet:
                self.called.add(c)
                for i, v in enumerate(vals):
                    self._add_param(c, i, v)
            pairs = [v for v in vals if v is not None and v.kind == "pair"]
            if len(pairs) == 1:
                return self._cursor_new(n, pairs[0])
            return None if any(v is None for v in vals) else V("cursor")
        if fnode.get("dk") == "AssocFn" and args and _ty(args[0]).split("<")[0] in self.cursor_adts:
            return self._ev_method({"k": "MethodCall", "method": last, "recv": args[0], "args": args[1:], "callee": n.get("callee"), "rd": fnode.get("rd"),
                                    "s": n["s"], "t": n.get("t")}, last, args[0], args[1:], env)
        if c in self.fns:
            vals = [self._ev(a, env) for a in args]
            self._out_params(args, vals, env)
            return self._call_fn(c, vals)
        if str(fnode.get("dk", "")).startswith("Ctor"):
            vals = [self._ev(a, env) for a in args]
            if c.endswith(("Option::Some", "Result::Ok")) and len(vals) == 1:
                v = vals[0]
                if v is not None and v.kind == "pair":
                    return V("opt", v.m, fuzzy=v.fuzzy)
                return v
            return mkval(*vals)
        if c.endswith(("Try::branch", "IntoIterator::into_iter", "Box::new", "convert::From::from", "convert::Into::into", "Rc::new", "Arc::new",
                       "mem::take", "convert::identity", "iter::once", "Some", "Iterator::peekable", "Iterator::by_ref")) and len(args) == 1:
            return self._ev(args[0], env)
        # UFCS spelling of a method this model knows: Trait::method(recv, args..)
        if fnode.get("dk") == "AssocFn" and args and (is_pair_ty(_ty(args[0])) or has_pair_ty(_ty(args[0])) or "Option<" in _ty(args[0]) or
                                                     "Iterator" in c or "iter::" in c):
            fake = {"k": "MethodCall", "method": last, "recv": args[0], "args": args[1:], "callee": n.get("callee"), "s": n["s"], "t": n.get("t"),
                    "recv_adt": PAIR_ADT if is_pair_ty(_ty(args[0])) else None}
            return self._ev_method(fake, last, args[0], args[1:], env)
        vals = [self._ev(a, env) for a in args]
        self._out_params(args, vals, env)
        out = mkval(*vals)
        if has_pair_ty(_ty(n)) and out is not None:
            # an unknown function that yields pairs
            pl = [v for v in vals if v is not None and v.kind in PAIRLIKE]
            if len(pl) == 1 and len([v for v in vals if v is not None]) == 1:
                kind = "pair" if is_pair_ty(_ty(n)) else ("opt" if _ty(n).startswith("core::option::Option<") else "seq")
                p = pl[0]
                mm = p.m
                if p.kind == "pair":
                    mm = m_join(mm, self._inner(p, 0).m)
                return V(kind, mm, fuzzy=True)
            return V("val", out.m, out.leaf, fuzzy=True)
        return out
