"""Abstract interpretation of the pest-pair -> AST builders (DESIGN.md T9, builder side).

Abstract values:  ("pair", rules) | ("opt", rules) | ("seq", rules) | ("tuple", [values]) | None
A `Pair` expression denotes the set of grammar rules it may be a pair of. The interpreter walks the typed HIR of every
function in parser::builder (flow-sensitively inside a body, with narrowing on `match p.as_rule()` / `is_rule`), joins
function parameters over call sites to a fixpoint, and emits obligations:

  parts        L(R) ⊆ slot pattern, exactly            (panic if not accepted, silently dropped child if leftovers)
  only_child   every child sequence of R has length 1
  all_children alphabet(L(R)) ⊆ {X}
  as_rule      a `match p.as_rule()` with a panicking fallback covers every rule p may be
  text         a `match p.as_str()` with a panicking fallback covers the finite text language of p's rules
"""
from facts import norm, call_name, subnodes, lit_value, pat_lits
import gram as G

B = "nitrogql_parser::parser::builder"
RULE = "nitrogql_parser::parser::Rule::"
PAIREXT = "nitrogql_parser::parser::builder::utils::PairExt::"
PRIMS = ("<pest::iterators::pair::Pair<nitrogql_parser::parser::Rule> as nitrogql_parser::parser::builder::utils::PairExt>::",)


def rule_of_path(n):
    d = norm(n.get("def", "")) if isinstance(n, dict) else ""
    return d[len(RULE):] if d.startswith(RULE) else None


def rules_in_pat(pat):
    out = set()
    for x in subnodes(pat):
        r = rule_of_path(x)
        if r:
            out.add(r)
    return out


def is_panic(node):
    for x in subnodes(node):
        if x.get("k") == "Call" and (call_name(x) or "").startswith("core::panicking::"):
            return True
    return False


def join(a, b):
    if a is None:
        return b
    if b is None:
        return a
    if a[0] == b[0] and a[0] in ("pair", "opt", "seq"):
        return (a[0], frozenset(a[1]) | frozenset(b[1]))
    if a[0] == "tuple" and b[0] == "tuple" and len(a[1]) == len(b[1]):
        return ("tuple", [join(x, y) for x, y in zip(a[1], b[1])])
    return a


class BuilderAI:
    def __init__(self, P, grammar):
        self.P = P
        self.g = grammar
        self.fns = {p: f for p, f in P.fns.items() if p.startswith(B) and not p.startswith(B + "::utils") and not f.derived}
        self.params = {p: frozenset() for p in self.fns}     # rules of the first Pair parameter
        self.pairs_params = {}                                  # for fns taking Pairs: element rules
        self.text_params = {}                                   # for fns taking the &str text of a pair
        self.oblig = {}                                         # key -> dict
        self.fills = {}                                         # (adt, field) -> set of source rules
        self.notes = []
        self.changed = False

    # ------------------------------------------------------------------ driver
    def run(self):
        # seeds: RawParser::parse(Rule::X, ..) results handed to the document builders
        for f in self.P.fns.values():
            if not f.path.startswith("nitrogql_parser::parser::parse_"):
                continue
            seeds = {}
            for n in f.walk():
                if n.get("k") == "Call" and (call_name(n) or "").endswith("::parse") and n["args"]:
                    r = rule_of_path(n["args"][0])
                    if r:
                        seeds["rule"] = r
            for n in f.walk():
                if n.get("k") == "Call" and call_name(n) in self.fns and "rule" in seeds:
                    self._add_param(call_name(n), ("seq", frozenset({seeds["rule"]})))
        for _ in range(12):
            self.changed = False
            self.oblig = {}
            self.fills = {}
            for p, f in self.fns.items():
                self._analyse(f)
            if not self.changed:
                break
        return self

    def _add_param(self, callee, val):
        if val is None or callee not in self.fns:
            return
        if val[0] == "seq" and self._takes_pairs(callee):
            cur = self.pairs_params.get(callee, frozenset())
            new = cur | val[1]
            if new != cur:
                self.pairs_params[callee] = new
                self.changed = True
            return
        if val[0] == "text":
            cur = self.text_params.get(callee, frozenset())
            new = cur | val[1]
            if new != cur:
                self.text_params[callee] = new
                self.changed = True
            return
        if val[0] in ("pair", "opt", "seq"):
            cur = self.params[callee]
            new = cur | val[1]
            if new != cur:
                self.params[callee] = new
                self.changed = True

    def _inner(self, S, k):
        """children of a pair of one of the rules S, from child index k on: ("seq", symbols, S, k)"""
        syms = set()
        for R in S:
            by_pos, rest = G.symbols_by_position(self.g.child_lang(R))
            for i, ss in enumerate(by_pos):
                if i >= k:
                    syms |= ss
            syms |= rest
        return ("seq", frozenset(syms), S, k)

    def _at(self, S, k):
        syms = set()
        for R in S:
            by_pos, rest = G.symbols_by_position(self.g.child_lang(R))
            syms |= by_pos[k] if k < len(by_pos) else rest
        return frozenset(syms)

    def _takes_pairs(self, callee):
        f = self.fns[callee]
        return bool(f.sig_inputs) and "pest::iterators::pairs::Pairs" in f.sig_inputs[0]

    def _ob(self, kind, f, node, rule, ok, msg, detail=None):
        key = "%s:%s:%s#%s" % (kind, f.path[len(B) + 2:], rule, node["s"][0])
        # keys must not depend on line numbers: replace by ordinal of this kind within the function
        base = "%s:%s:%s" % (kind, f.path[len(B) + 2:], rule)
        n = sum(1 for k in self.oblig if k.startswith(base + "#") and self.oblig[k]["line"] != node["s"][0])
        key = "%s#%d" % (base, n)
        self.oblig[key] = {"kind": kind, "fn": f.path, "line": node["s"][0], "rule": rule, "ok": ok, "msg": msg,
                           "detail": detail, "loc": "%s:%d" % (f.file, node["s"][0])}

    # ------------------------------------------------------------------ analysis of one function
    def _analyse(self, f):
        env = {}
        if f.params:
            p0 = f.params[0]
            if p0.get("k") == "Binding":
                if self._takes_pairs(f.path):
                    env[p0["local"]] = ("seq", self.pairs_params.get(f.path, frozenset()))
                elif f.sig_inputs and "pest::iterators::pair::Pair" in f.sig_inputs[0]:
                    env[p0["local"]] = ("pair", self.params[f.path])
                elif f.sig_inputs and f.sig_inputs[0] == "&str" and f.path in self.text_params:
                    env[p0["local"]] = ("text", self.text_params[f.path])
        self.cur = f
        self._ev(f.body, env)

    def _bind(self, pat, val, env):
        k = pat.get("k")
        if k == "Binding":
            env[pat["local"]] = val
            if "sub" in pat:
                self._bind(pat["sub"], val, env)
        elif k == "Tuple":
            vals = val[1] if val and val[0] == "tuple" else [None] * len(pat["ps"])
            for p, v in zip(pat["ps"], vals + [None] * (len(pat["ps"]) - len(vals))):
                self._bind(p, v, env)
        elif k == "TupleStruct":
            d = norm(pat.get("ctor_of") or pat.get("def") or "")
            if d.endswith("Option::Some") and val and val[0] == "opt":
                for p in pat["ps"]:
                    self._bind(p, ("pair", val[1]), env)
            elif d.endswith(("Result::Ok", "Result::Err")):
                for p in pat["ps"]:
                    self._bind(p, val, env)
            else:
                for p in pat["ps"]:
                    self._bind(p, None, env)
        elif k in ("Ref", "Box", "Deref"):
            self._bind(pat["p"], val, env)
        elif k == "Or":
            for p in pat["ps"]:
                self._bind(p, val, env)

    def _is_parts(self, n):
        return n.get("k") == "BlockExpr" and n.get("x") == "parts"

    def _ev_parts(self, n, env):
        blk = n["b"]
        lets = [s for s in blk["stmts"] if s.get("k") == "Let"]
        src = None
        for s in lets:
            for x in subnodes(s.get("init", {})):
                if x.get("k") == "MethodCall" and x["method"] == "into_inner":
                    src = self._ev(x["recv"], env)
        tail = blk.get("tail")
        elems = tail["es"] if tail and tail.get("k") == "Tup" else ([tail] if tail else [])
        slots = []
        for e in elems:
            opt = not (e.get("k") == "Match")
            r = None
            for x in subnodes(e):
                if x.get("k") == "Let" and x["pat"].get("name") == "rule" and "init" in x:
                    r = rule_of_path(x["init"])
                    break
            slots.append((r, opt))
        f = self.cur
        if src and src[0] in ("pair",):
            for R in sorted(src[1]):
                bad = G.accepts_outside(self.g.child_lang(R), slots)
                pat = " ".join((s or "?") + ("?" if o else "") for s, o in slots)
                words = [" ".join(w) for w in bad]
                leftover = [w for w in bad if self._is_leftover(w, slots)]
                self._ob("parts", f, n, R, not bad,
                         "children of %s = %s ; builder pattern [%s]" % (R, G.show(self.g.child_lang(R)), pat),
                         {"counterexamples": words, "slots": pat, "panics": any(not self._is_leftover(w, slots) for w in bad),
                          "drops": bool(leftover)})
        vals = [("opt", frozenset({r})) if o else ("pair", frozenset({r})) for r, o in slots]
        if tail is not None and tail.get("k") != "Tup":
            return vals[0] if vals else None
        return ("tuple", vals)

    @staticmethod
    def _is_leftover(word, slots):
        """the slot pattern accepts a proper prefix and extra children remain (silently ignored) rather than a panic"""
        w = [x for x in word if x != "..."]
        i = 0
        for sym in w:
            j = i
            while j < len(slots) and slots[j][0] != sym:
                if not slots[j][1]:
                    return False
                j += 1
            if j >= len(slots):
                return all(s[1] for s in slots[i:])  # remaining required slots missing => panic, else leftover
            i = j + 1
        return False

    def _narrow_match(self, n, env):
        """match X.as_rule() { Rule::A => .., rule => panic!(..) }"""
        scrut = n["scrut"]
        base = scrut["recv"]
        if base.get("k") != "Path" or "local" not in base:
            return False
        val = env.get(base["local"])
        if not val or val[0] != "pair":
            S = None
        else:
            S = set(val[1])
        covered = set()
        f = self.cur
        for arm in n["arms"]:
            rs = rules_in_pat(arm["pat"])
            e2 = dict(env)
            if rs:
                if S is not None:
                    e2[base["local"]] = ("pair", frozenset(S & rs))
                covered |= rs
                self._ev(arm["body"], e2)
            else:
                rest = frozenset((S or set()) - covered)
                if S is not None:
                    e2[base["local"]] = ("pair", rest)
                self._bind(arm["pat"], None, e2)
                if is_panic(arm["body"]):
                    if S is not None:
                        self._ob("as_rule", f, n, "{%s}" % ",".join(sorted(S)) if len(S) > 3 else ",".join(sorted(S)), not rest,
                                 "match over as_rule() handles %s" % sorted(covered), {"unhandled": sorted(rest)})
                else:
                    self._ev(arm["body"], e2)
        return True

    def _ev(self, n, env):
        if n is None:
            return None
        k = n.get("k")
        if k == "BlockExpr":
            if self._is_parts(n):
                return self._ev_parts(n, env)
            return self._ev(n["b"], env)
        if k == "Block":
            for s in n["stmts"]:
                if s.get("k") == "Let":
                    v = self._ev(s["init"], env) if "init" in s else None
                    if v is None and "init" in s:
                        srcs = self._sources(s["init"], env)
                        if srcs:
                            v = ("val", frozenset(srcs))
                    self._bind(s["pat"], v, env)
                    if "els" in s:
                        self._ev(s["els"], dict(env))
                elif s.get("k") == "Stmt":
                    self._ev(s["e"], env)
            return self._ev(n["tail"], env) if "tail" in n else None
        if k == "Path":
            return env.get(n["local"]) if "local" in n else None
        if k in ("DropTemps", "Use", "AddrOf", "Cast", "Type"):
            return self._ev(n["e"], env)
        if k == "Unary":
            return self._ev(n["e"], env)
        if k == "Closure":
            return ("closure", n)
        if k == "Ret":
            return self._ev(n.get("e"), env)
        if k == "If":
            return self._ev_if(n, env)
        if k == "Match":
            sc = n["scrut"]
            if sc.get("k") == "MethodCall" and sc["method"] == "as_rule":
                if self._narrow_match(n, env):
                    return None
            if sc.get("k") == "MethodCall" and sc["method"] == "as_str":
                self._text_match(n, env, self._ev(sc["recv"], env))
            elif sc.get("k") == "Path" and "local" in sc and (env.get(sc["local"]) or (None,))[0] == "text":
                v = env[sc["local"]]
                self._text_match(n, env, ("pair", v[1]))
            v = self._ev(sc, env)
            out = None
            for arm in n["arms"]:
                e2 = dict(env)
                self._bind(arm["pat"], v, e2)
                out = join(out, self._ev(arm["body"], e2))
            return out
        if k == "Struct" and "rest" not in n:
            adt = norm(n.get("variant") or n.get("adt") or "")
            for fld in n["fields"]:
                self._ev(fld["e"], env)
                srcs = self._sources(fld["e"], env)
                if adt.startswith("nitrogql_ast::"):
                    self.fills.setdefault((adt, fld["name"]), set()).update(srcs)
            return None
        if k == "MethodCall":
            return self._ev_method(n, env)
        if k == "Call":
            return self._ev_call(n, env)
        if k in ("Tup", "Array"):
            vals = [self._ev(x, env) for x in n["es"]]
            return ("tuple", vals) if k == "Tup" else None
        if k == "Loop":
            self._ev(n["body"], env)
            return None
        # generic: evaluate children for their obligations
        for key, v in n.items():
            if isinstance(v, dict) and "k" in v:
                self._ev(v, env)
            elif isinstance(v, list):
                for x in v:
                    if isinstance(x, dict) and "k" in x:
                        self._ev(x, env)
                    elif isinstance(x, dict) and "e" in x:
                        self._ev(x["e"], env)
        return None

    def _ev_if(self, n, env):
        c = n["cond"]
        while c.get("k") == "DropTemps":
            c = c["e"]
        then_env, else_env = dict(env), dict(env)
        if c.get("k") == "LetExpr":
            v = self._ev(c["init"], env)
            self._bind(c["pat"], v, then_env)
            a = self._ev(n["then"], then_env)
            b = self._ev(n["else"], else_env) if "else" in n else None
            return join(a, b)
        # p.is_rule(Rule::X)
        if c.get("k") == "MethodCall" and c["method"] == "is_rule" and c["recv"].get("k") == "Path" and "local" in c["recv"]:
            r = rule_of_path(c["args"][0]) if c["args"] else None
            v = env.get(c["recv"]["local"])
            if r and v and v[0] == "pair":
                then_env[c["recv"]["local"]] = ("pair", v[1] & {r})
                else_env[c["recv"]["local"]] = ("pair", v[1] - {r})
        # p.as_rule() != Rule::X { panic }
        if c.get("k") == "Binary" and c.get("op") in ("!=", "==") and c["l"].get("k") == "MethodCall" and c["l"]["method"] == "as_rule":
            base = c["l"]["recv"]
            r = rule_of_path(c["r"])
            if base.get("k") == "Path" and "local" in base and r:
                v = env.get(base["local"])
                if v and v[0] == "pair" and c["op"] == "!=" and is_panic(n["then"]):
                    rest = v[1] - {r}
                    self._ob("as_rule", self.cur, n, ",".join(sorted(v[1])), not rest, "guard `as_rule() != %s => panic`" % r, {"unhandled": sorted(rest)})
                    env[base["local"]] = ("pair", v[1] & {r})
                    else_env = env
        else:
            self._ev(c, env)
        a = self._ev(n["then"], then_env)
        b = self._ev(n["else"], else_env) if "else" in n else None
        return join(a, b)

    def _text_match(self, n, env, v):
        lits = set()
        fallback_panics = False
        for arm in n["arms"]:
            ls = pat_lits(arm["pat"])
            if ls:
                lits |= set(ls)
            elif is_panic(arm["body"]):
                fallback_panics = True
        if v and v[0] == "pair" and fallback_panics:
            for R in sorted(v[1]):
                tl = self.g.text_lang(R)
                if tl is None:
                    self._ob("text", self.cur, n, R, True, "text language of %s is not finite: not decided" % R, {"undecided": True})
                else:
                    self._ob("text", self.cur, n, R, tl <= lits, "texts of %s = %s ; arms = %s" % (R, sorted(tl), sorted(lits)),
                             {"unhandled": sorted(tl - lits), "dead": sorted(lits - tl)})

    def _apply(self, fval, argval, env):
        """apply a closure value / fn path to an element value"""
        if fval and fval[0] == "closure":
            c = fval[1]
            e2 = dict(env)
            if c["params"]:
                self._bind(c["params"][0], argval, e2)
            return self._ev(c["body"], e2)
        return None

    def _ev_method(self, n, env):
        m = n["method"]
        recv = n["recv"]
        callee = norm(n.get("callee") or "")
        f = self.cur
        rv = self._ev(recv, env)
        args = n["args"]
        if callee.startswith(PAIREXT) or callee.startswith("pest::iterators::pair::Pair::"):
            S = rv[1] if rv and rv[0] == "pair" else None
            if m == "only_child":
                out = set()
                if S is not None:
                    for R in sorted(S):
                        L = self.g.child_lang(R)
                        ls = G.lengths(L)
                        ok = ls == {1}
                        self._ob("only_child", f, n, R, ok, "children of %s = %s" % (R, G.show(L)), {"lengths": sorted(ls)})
                        out |= G.first_symbols(L)
                    return ("pair", frozenset(out))
                return None
            if m == "all_children":
                r = rule_of_path(args[0]) if args else None
                if S is not None and r:
                    for R in sorted(S):
                        al = self.g.alphabet(R)
                        self._ob("all_children", f, n, R, al <= {r}, "children of %s = %s ; expected only %s" % (R, G.show(self.g.child_lang(R)), r),
                                 {"others": sorted(al - {r})})
                return ("seq", frozenset({r})) if r else None
            if m == "into_inner":
                if S is not None:
                    return self._inner(frozenset(S), 0)
                return None
            if m in ("to_ident", "to_keyword") and S is not None:
                for R in sorted(S):
                    self._ob("ident", f, n, R, self.g.is_name_like(R), "%s() on a %s pair" % (m, R), {"rule": R})
            if m == "as_str" and S is not None:
                return ("text", frozenset(S))
            return None  # as_rule, to_ident, to_pos, to_keyword, is_rule, line_col ...
        # generic iterator / option plumbing
        if m in ("into_iter", "iter", "peekable", "by_ref", "rev", "collect", "cloned", "as_ref", "take", "skip", "enumerate"):
            return rv
        if m in ("next", "peek", "first", "last", "pop"):
            if rv and rv[0] == "seq" and len(rv) == 4 and m == "next":
                S, k = rv[2], rv[3]
                if recv.get("k") == "Path" and "local" in recv:
                    env[recv["local"]] = self._inner(S, k + 1)
                return ("opt", self._at(S, k))
            return ("opt", rv[1]) if rv and rv[0] == "seq" else None
        if m in ("unwrap", "expect"):
            return ("pair", rv[1]) if rv and rv[0] == "opt" else rv
        if m == "filter" and args:
            cv = self._ev(args[0], env)
            if rv and rv[0] == "seq" and cv and cv[0] == "closure":
                body = cv[1]["body"]
                # |pair| pair.is_rule(Rule::X)
                for x in subnodes(body):
                    if x.get("k") == "MethodCall" and x["method"] == "is_rule" and x["args"]:
                        r = rule_of_path(x["args"][0])
                        if r:
                            return ("seq", frozenset(rv[1]) & {r})
            return rv
        if m in ("map", "map_or", "map_or_else", "flat_map", "filter_map", "for_each", "and_then", "find", "any", "all"):
            fn_arg = args[-1] if args else None
            if fn_arg is None:
                return None
            elem = None
            if rv and rv[0] in ("seq", "opt"):
                elem = ("pair", rv[1])
            for a in args[:-1]:
                self._ev(a, env)
            if fn_arg.get("k") == "Closure":
                self._apply(("closure", fn_arg), elem, env)
            elif fn_arg.get("k") == "Path" and fn_arg.get("dk") in ("Fn", "AssocFn"):
                self._add_param(norm(fn_arg["def"]), elem)
            else:
                self._ev(fn_arg, env)
            return None
        for a in args:
            self._ev(a, env)
        return None

    def _ev_call(self, n, env):
        c = call_name(n)
        vals = [self._ev(a, env) for a in n["args"]]
        if c in self.fns and vals:
            self._add_param(c, vals[0])
            return None
        if c and (c.endswith("Option::Some") or c.endswith("Result::Ok")) and vals:
            v = vals[0]
            return ("opt", v[1]) if v and v[0] == "pair" else v
        if c and c.endswith("IntoIterator::into_iter") and vals:
            return vals[0]
        return None

    def _sources(self, e, env):
        out = set()
        for x in subnodes(e):
            if x.get("k") == "Path" and "local" in x:
                v = env.get(x["local"])
                if v and v[0] in ("pair", "opt", "seq", "val", "text"):
                    out |= set(v[1])
        return out
