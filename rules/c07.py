"""C07 — Parsing yields exactly the document the text denotes, with true positions (grammar/builder agreement)."""
import json
import os
import harness
from facts import (norm, call_name, short, subnodes, lit_value, matches_on_type, lit_table, pat_lits, str_lits_in, field_reads)
from prov import Prov, has_field, has_call
import gram as G
from builder_ai import BuilderAI, RULE

GRAMMAR = os.path.join(harness.REPO, "crates/parser/src/parser/grammar.pest")
if os.environ.get("VERIF_FACTS_DIR") and os.path.exists(os.path.join(os.environ["VERIF_FACTS_DIR"], "_raw", "grammar.pest")):
    # regression tooling: the grammar of the scratch tree the facts were extracted from
    GRAMMAR = os.path.join(os.environ["VERIF_FACTS_DIR"], "_raw", "grammar.pest")
B = "nitrogql_parser::parser::builder"
TABLE = os.path.join(harness.VERIF, "tables", "field_fill.json")

_cache = {}


def model(P):
    if "ai" not in _cache:
        g = G.Grammar(GRAMMAR)
        _cache["g"] = g
        _cache["ai"] = BuilderAI(P, g).run()
    return _cache["g"], _cache["ai"]


def r07a(P, R):
    g, ai = model(P)
    R.count("grammar_rules", len(g.rules))
    R.count("builder_functions", len(ai.fns))
    counts = {}
    for key, o in sorted(ai.oblig.items()):
        counts[o["kind"]] = counts.get(o["kind"], 0) + 1
        if o["kind"] == "text":
            continue
        if o["ok"]:
            R.holds("R07-a", key, o["msg"], loc=o["loc"])
        else:
            d = o["detail"] or {}
            if o["kind"] == "parts":
                how = []
                if d.get("panics"):
                    how.append("the builder panics")
                if d.get("drops"):
                    how.append("children are silently ignored")
                msg = "the grammar lets a %s pair have children [%s], which the builder pattern [%s] does not accept exactly: %s" % (
                    o["rule"], "; ".join(d.get("counterexamples", [])), d.get("slots"), " / ".join(how) or "mismatch")
            elif o["kind"] == "only_child":
                msg = "only_child() is applied to a %s pair, whose child sequences have lengths %s (%s)" % (o["rule"], d.get("lengths"), o["msg"])
            elif o["kind"] == "all_children":
                msg = "all_children() expects one child kind but a %s pair can also contain %s" % (o["rule"], d.get("others"))
            elif o["kind"] == "ident":
                msg = "an identifier/keyword is built from the whole text of a %s pair, which is not a single name token (its text includes " \
                      "punctuation or trivia): the AST name differs from the name in the text" % o["rule"]
            else:
                msg = "a match over as_rule() with a panicking fallback does not handle %s (%s)" % (d.get("unhandled"), o["msg"])
            R.violated("R07-a", key, msg, loc=o["loc"], detail=d)
    for kind, floor in (("parts", 32), ("only_child", 23), ("all_children", 15), ("as_rule", 15)):
        R.floor("R07-a", "%s sites" % kind, counts.get(kind, 0), floor)
    unreached = [p for p, s in ai.params.items() if not s and not ai.pairs_params.get(p) and not ai.text_params.get(p)]
    R.check("R07-a", "builders-reached", not unreached, "every builder function is reached with a known rule set",
            "builder functions never reached from the parse entry points (their preconditions are not analysed): %s" % [u[len(B) + 2:] for u in unreached])
    # entry: EOI and the top rule
    for name, top in (("build_operation_document", "ExecutableDocument"), ("build_type_system_or_extension_document", "TypeSystemExtensionDocument")):
        f = P.fn(B + "::" + name)
        R.check("R07-a", "entry:" + name, ai.pairs_params.get(f.path) == frozenset({top}), "entered with the %s pair" % top,
                "%s is entered with %s" % (name, sorted(ai.pairs_params.get(f.path, []))), loc=f.loc())


def r07b(P, R):
    g, ai = model(P)
    n = 0
    for key, o in sorted(ai.oblig.items()):
        if o["kind"] != "text":
            continue
        n += 1
        d = o["detail"] or {}
        if d.get("undecided"):
            R.undecided("R07-b", key, o["msg"], loc=o["loc"])
        else:
            R.check("R07-b", key, o["ok"] and not d.get("dead"), o["msg"],
                    "texts the grammar can produce for %s and the string arms that consume them differ: unhandled %s, dead arms %s"
                    % (o["rule"], d.get("unhandled"), d.get("dead")), loc=o["loc"])
    R.floor("R07-b", "text matches", n, 2)
    # escape values (spec: \\b U+0008, \\f U+000C, \\n U+000A, \\r U+000D, \\t U+0009, \\" \\\\ \\/ themselves)
    f = P.fn(B + "::value::build_string_value")
    want = {'\\"': '"', "\\\\": "\\", "\\/": "/", "\\b": "\u0008", "\\f": "\u000c", "\\n": "\n", "\\r": "\r", "\\t": "\t"}
    found = {}
    for m in matches_on_type(f, "str"):
        for lits, guard, catch, arm in lit_table(m):
            for l in lits:
                body = arm["body"]
                v = lit_value(body)
                found[l] = v
    for esc, ch in sorted(want.items()):
        R.check("R07-b", "escape:%r" % esc, found.get(esc) == ch, "%s -> U+%04X" % (esc, ord(ch)),
                "escape sequence %s decodes to %r (spec: U+%04X)" % (esc, found.get(esc), ord(ch)), loc=f.loc())
    ot = P.fn(B + "::operation::str_to_operation_type")
    wanto = {"query": "Query", "mutation": "Mutation", "subscription": "Subscription"}
    for m in matches_on_type(ot, "str"):
        for lits, guard, catch, arm in lit_table(m):
            for l in lits:
                made = [norm(x.get("def", "")).split("::")[-1] for x in subnodes(arm["body"]) if x.get("k") == "Path" and "OperationType::" in norm(x.get("def", ""))]
                R.check("R07-b", "operation-type:" + l, made[:1] == [wanto.get(l)], "%s -> %s" % (l, wanto.get(l)), "keyword `%s` builds OperationType::%s" % (l, made[:1]), loc=ot.loc())
    bv = P.fn(B + "::value::build_value")
    for x in bv.walk():
        if x.get("k") == "Match" and x["scrut"].get("k") == "MethodCall" and x["scrut"]["method"] == "as_rule":
            for arm in x["arms"]:
                rs = [norm(p.get("def", ""))[len(RULE):] for p in subnodes(arm["pat"]) if norm(p.get("def", "")).startswith(RULE)]
                v = lit_value(arm["body"])
                if rs == ["KEYWORD_true"]:
                    R.check("R07-b", "boolean:true", v is True, "true -> true", "KEYWORD_true builds %r" % v, loc=bv.loc())
                if rs == ["KEYWORD_false"]:
                    R.check("R07-b", "boolean:false", v is False, "false -> false", "KEYWORD_false builds %r" % v, loc=bv.loc())


def r07c(P, R):
    g, ai = model(P)
    want = json.load(open(TABLE))
    got = {"%s.%s" % (adt.replace("nitrogql_ast::", ""), fld): sorted(srcs) for (adt, fld), srcs in ai.fills.items()}
    R.floor("R07-c", "AST fields filled by the builders", len(got), 150)
    for key in sorted(set(want) | set(got)):
        w, gt = want.get(key), got.get(key)
        if w is None:
            R.undecided("R07-c", "fill:" + key, "new AST field filled from %s has no row in tables/field_fill.json" % gt)
            continue
        if gt is None:
            R.violated("R07-c", "fill:" + key, "kind=anchor-missing: no builder fills `%s` any more (table row: %s)" % (key, w))
            continue
        R.check("R07-c", "fill:" + key, set(gt) == set(w), "<- %s" % ",".join(gt),
                "AST field `%s` is built from grammar part(s) %s; the GraphQL grammar assigns it %s" % (key, gt, w))
    # no struct-update syntax in builders (a `..base` would fill fields from elsewhere)
    for p, f in ai.fns.items():
        for n in f.walk():
            if n.get("k") == "Struct" and "rest" not in n and ("base" in n or n.get("default_tail")):
                R.violated("R07-c", "no-base:" + short(p), "%s builds an AST node with `..base`" % p, loc=f.loc())


def r07d(P, R):
    """lexical conformance of selected productions (GraphQL spec, Appendix B lexical grammar)"""
    g, ai = model(P)
    rules = g.rules

    def body(n):
        return rules[n][1]

    def flat_choice(e):
        return e[1] if e[0] == "choice" else [e]
    # ignored tokens
    ws = {x[1] if x[0] == "str" else "<" + x[1] + ">" for x in flat_choice(body("WHITESPACE"))}
    R.check("R07-d", "ignored-set", ws == {"﻿", "\t", " ", "<NEWLINE>", ","} and rules["WHITESPACE"][0] == "_",
            "ignored: BOM, tab, space, line terminators, comma", "WHITESPACE is %s" % sorted(ws))
    # comments: `#` ... up to a line terminator or the end of input
    c = body("COMMENT")
    last = c[1][-1] if c[0] == "seq" else c
    ends = {x[1] for x in flat_choice(last) if x[0] == "id"}
    R.check("R07-d", "comment-terminator", {"NEWLINE", "EOI"} <= ends, "a comment ends at a line terminator or at end of input",
            "COMMENT must be followed by %s: a comment on the last line without trailing newline is a syntax error" % sorted(ends))
    # numbers
    ep = body("ExponentPart")
    first = ep[1][0]
    ok = first == ("insens", "e") or (first[0] == "choice" and {x[1] for x in first[1]} == {"e", "E"})
    R.check("R07-d", "exponent-indicator", ok, "ExponentIndicator: e | E", "ExponentPart starts with %r: `1E5` is not a FloatValue" % (first,))
    R.check("R07-d", "exponent-sign-digits", ep[0] == "seq" and ep[1][1][0] == "opt" and ep[1][2] == ("plus", ("id", "ASCII_DIGIT")),
            "Sign? Digit+", "ExponentPart is %r" % (ep,))
    ip = body("IntegerPart")
    ok = ip[0] == "seq" and ip[1][0] == ("opt", ("str", "-")) and ip[1][1][0] == "choice" and ip[1][1][1][0] == ("str", "0")
    R.check("R07-d", "integer-part", ok, "-? (0 | NonZeroDigit Digit*)", "IntegerPart is %r" % (ip,))
    for n in ("IntValue", "FloatValue"):
        negs = [x for x in _walk(body(n)) if x[0] == "neg"]
        ok = bool(negs) and all({y[1] for y in flat_choice(x[1])} >= {".", "NameStart"} for x in negs)
        R.check("R07-d", "number-lookahead:" + n, ok, "not followed by `.` or NameStart", "%s lacks the `!(. | NameStart)` lookahead" % n)
    # ordered choice: no alternative is shadowed by an earlier one that is its prefix (PEG commits to the first success)
    dead = g.dead_alternatives()
    R.floor("R07-d", "ordered choices analysed", g.choice_count(), 40)
    for rule, i, j, rest, verdict, why in dead:
        msg = "%s: alternative %d begins with all of alternative %d, so it is never taken; %s" % (rule, j + 1, i + 1, why)
        if verdict == "lost":
            R.violated("R07-d", "peg-shadowed-alternative:%s" % rule, msg + " — inputs of that form are rejected")
        else:
            R.undecided("R07-d", "peg-dead-alternative:%s" % rule, msg)
    if not dead:
        R.holds("R07-d", "peg-ordered-choice", "no alternative of the %d ordered choices starts with a complete earlier alternative" % g.choice_count())
    pcg = G.Grammar(None, text='T = @{ A ~ (B | C | (B ~ C)) ~ !("e" | "E" | "x") }\nA = { "1" }\nB = { "." }\nC = { ^"e" }\n')
    pc = pcg.dead_alternatives()
    R.check("R07-pc", "peg-shadow-detector", len(pc) == 1 and pc[0][4] == "lost", "the shadowed-alternative detector fires on its control grammar",
            "control grammar not reported: %r" % (pc,))
    ns = {x[1] for x in flat_choice(body("NameStart"))}
    nc = {x[1] for x in flat_choice(body("NameContinue"))}
    R.check("R07-d", "name", ns == {"ASCII_ALPHA", "_"} and nc == {"ASCII_ALPHANUMERIC", "_"}, "Name: [_A-Za-z][_0-9A-Za-z]*", "NameStart %s / NameContinue %s" % (ns, nc))
    # strings
    R.check("R07-d", "string-forbidden-raw", g.forbids_raw("NormalStringCharacter") == {'"', "\\", "<NEWLINE>"}, "raw string characters exclude \", \\ and line terminators",
            "NormalStringCharacter excludes %s" % sorted(g.forbids_raw("NormalStringCharacter")))
    R.check("R07-d", "escaped-characters", g.text_lang("EscapedCharacter") == {'\\"', "\\\\", "\\/", "\\b", "\\f", "\\n", "\\r", "\\t"},
            "EscapedCharacter: one of \" \\ / b f n r t", "EscapedCharacter texts are %s" % sorted(g.text_lang("EscapedCharacter") or []))
    u4 = body("EscapedUnicode4")
    ok = u4[0] == "seq" and u4[1][0] == ("str", "\\u") and u4[1][1] == ("rep", ("id", "ASCII_HEX_DIGIT"), 4, 4)
    R.check("R07-d", "unicode-escape-4", ok, "\\uXXXX with exactly four hex digits", "EscapedUnicode4 is %r" % (u4,))
    bs = body("BlockStringValue")
    ok = bs[0] == "seq" and bs[1][0] == ("str", '"""') and bs[1][-1] == ("str", '"""')
    R.check("R07-d", "block-string-delimiters", ok, '""" ... """', "BlockStringValue is %r" % (bs,))
    bc = body("BlockStringCharacter")
    R.check("R07-d", "block-string-escape", any(x == ("str", '\\"""') for x in _walk(bc)), 'block strings allow the \\""" escape', "BlockStringCharacter is %r" % (bc,))
    # keywords are guarded against longer names
    kws = [n for n in g.order if n.startswith(("KEYWORD_", "ext_KEYWORD_"))]
    for n in kws:
        b = body(n)
        word = n.split("KEYWORD_")[1]
        ok = b[0] == "seq" and b[1][0] == ("str", word) and b[1][1] == ("neg", ("id", "NameContinue")) and rules[n][0] == "@"
        R.check("R07-d", "keyword:" + word, ok, "`%s` not followed by a name character" % word, "%s is %r" % (n, b))
    R.floor("R07-d", "keywords", len(kws), 21)
    # directive locations
    ex = g.text_lang("ExecutableDirectiveLocation")
    ty = g.text_lang("TypeSystemDirectiveLocation")
    R.check("R07-d", "executable-locations", ex == {"QUERY", "MUTATION", "SUBSCRIPTION", "FIELD", "FRAGMENT_DEFINITION", "FRAGMENT_SPREAD", "INLINE_FRAGMENT", "VARIABLE_DEFINITION"},
            "8 executable directive locations", "ExecutableDirectiveLocation = %s" % sorted(ex or []))
    R.check("R07-d", "type-system-locations", ty == {"SCHEMA", "SCALAR", "OBJECT", "FIELD_DEFINITION", "ARGUMENT_DEFINITION", "INTERFACE", "UNION", "ENUM", "ENUM_VALUE",
                                                       "INPUT_OBJECT", "INPUT_FIELD_DEFINITION"}, "11 type-system directive locations", "TypeSystemDirectiveLocation = %s" % sorted(ty or []))
    # PEG ordering: a location that is a prefix of another must come after it (or the longer one is unreachable)
    for n in ("ExecutableDirectiveLocation", "TypeSystemDirectiveLocation"):
        alts = [x[1] for x in _walk(body(n)) if x[0] == "str"]
        bad = [(a, b) for i, a in enumerate(alts) for b in alts[i + 1:] if b.startswith(a) and b != a]
        # `("A" | "AB") ~ !NameContinue` backtracks into the choice only for the whole group; pest retries alternatives, so order is
        # harmless with the trailing lookahead *inside the same sequence*; flag only when the lookahead is missing
        has_guard = any(x == ("neg", ("id", "NameContinue")) for x in _walk(body(n)))
        R.check("R07-d", "location-prefix-order:" + n, has_guard or not bad, "prefix alternatives are disambiguated by the !NameContinue guard",
                "alternatives %s shadow longer ones and no lookahead guards them" % bad)
    # value alternatives and the shorthand query
    vals = {x[1] for x in flat_choice(body("Value"))}
    R.check("R07-d", "value-kinds", vals == {"Variable", "IntValue", "FloatValue", "StringValue", "BooleanValue", "NullValue", "EnumValue", "ListValue", "ObjectValue"},
            "nine value kinds", "Value alternatives: %s" % sorted(vals))
    od = G.show(g.child_lang("OperationDefinition"))
    R.check("R07-d", "query-shorthand", "| SelectionSet" in od, "OperationDefinition admits the shorthand `{ ... }`", "the grammar lost the query shorthand: %s" % od)
    ev = body("EnumValue")
    negs = [x for x in _walk(ev) if x[0] == "neg"]
    ok = bool(negs) and {y[1] for y in flat_choice(negs[0][1])} == {"KEYWORD_true", "KEYWORD_false", "KEYWORD_null"}
    R.check("R07-d", "enum-value-exclusions", ok, "EnumValue: Name but not true/false/null", "EnumValue is %r" % (ev,))
    # optional leading separators
    for n, sep in (("ImplementsInterfaces", "&"), ("UnionMemberTypes", "|"), ("DirectiveLocations", "|")):
        ok = any(x == ("opt", ("str", sep)) for x in _walk(body(n)))
        R.check("R07-d", "leading-separator:" + n, ok, "optional leading `%s`" % sep, "%s does not allow a leading `%s`" % (n, sep))
    # block strings must go through the spec's BlockStringValue() routine
    f = P.fn(B + "::value::build_string_value")
    pv = Prov(f)
    blk = None
    for x in f.walk():
        if x.get("k") == "Match" and x["scrut"].get("k") == "MethodCall" and x["scrut"]["method"] == "as_rule":
            for arm in x["arms"]:
                rs = [norm(p.get("def", ""))[len(RULE):] for p in subnodes(arm["pat"]) if norm(p.get("def", "")).startswith(RULE)]
                if rs == ["BlockStringValue"]:
                    blk = arm
    if blk is None:
        R.violated("R07-d", "block-string-value", "kind=anchor-missing: no BlockStringValue arm in build_string_value", loc=f.loc())
    else:
        calls = {x[1].split("::")[-1] for x in pv.atoms(blk["body"]) if x[0] == "call"}
        raw_only = calls <= {"as_str", "split_at", "len", "into", "to_pos", "to_owned", "to_string", "from", "only_child"}
        R.check("R07-d", "block-string-value", not raw_only, "block string contents pass through a BlockStringValue() routine",
                "build_string_value returns the raw text between the `\"\"\"` delimiters (only %s are applied): the common indentation is not "
                "removed, leading/trailing blank lines are kept and `\\\"\"\"` is not unescaped, so the parsed value differs from the value the "
                "text denotes (spec §2.9.4 BlockStringValue)" % sorted(calls), loc=f.loc())


def _walk(e):
    out = [e]
    if e[0] in ("seq", "choice"):
        for x in e[1]:
            out.extend(_walk(x))
    elif e[0] in ("opt", "star", "plus", "neg", "pos", "rep"):
        out.extend(_walk(e[1]))
    return out


def r07e(P, R):
    """positions: 1-based pest line/col -> 0-based Pos; every position in the AST derives from a pair"""
    g, ai = model(P)
    tp = P.fn("<pest::iterators::pair::Pair<nitrogql_parser::parser::Rule> as " + B + "::utils::PairExt>::to_pos")
    pv = Prov(tp)
    calls = [c for c in tp.walk() if c.get("k") == "Call" and (call_name(c) or "").endswith("base::Pos::new")]
    ok = False
    if calls:
        a0, a1 = calls[0]["args"]

        def minus_one(e, name):
            return e.get("k") == "Binary" and e.get("op") == "-" and lit_value(e["r"]) == "1" and e["l"].get("k") == "Path" and e["l"].get("name") == name
        ok = minus_one(a0, "line") and minus_one(a1, "column") and any(c.get("k") == "MethodCall" and c["method"] == "line_col" for c in tp.walk())
    R.check("R07-e", "to_pos", ok, "Pos::new(line - 1, column - 1) from pair.line_col()", "to_pos does not convert pest's 1-based (line, column) to 0-based in that order", loc=tp.loc())
    n = 0
    for (adt, fld), srcs in sorted(ai.fills.items()):
        if fld in ("position", "pos"):
            n += 1
            R.check("R07-e", "position-source:" + adt.split("::")[-1], bool(srcs), "position taken from a pair (%s)" % ",".join(sorted(srcs)[:3]),
                    "%s.%s is not derived from a parsed pair" % (adt, fld))
    R.floor("R07-e", "position fields", n, 35)
    bad = []
    for p, f in ai.fns.items():
        for c in f.walk():
            if c.get("k") == "Call" and (call_name(c) or "").endswith(("Pos::builtin", "Pos::default", "Default::default")):
                bad.append(short(p))
    R.check("R07-e", "no-builtin-positions", not bad, "no builder uses a builtin/default position", "builders that use builtin positions: %s" % bad)
    for name, fields in (("to_ident", ("position", "name")), ("to_keyword", ("position", "name"))):
        f = P.fn("<pest::iterators::pair::Pair<nitrogql_parser::parser::Rule> as " + B + "::utils::PairExt>::" + name)
        calls = {c["method"] for c in f.walk() if c.get("k") == "MethodCall"}
        R.check("R07-e", name, {"to_pos", "as_str"} <= calls, "%s = (to_pos(), as_str())" % name, "%s is not built from to_pos()/as_str()" % name, loc=f.loc())


RULES = [("R07-a", r07a), ("R07-b", r07b), ("R07-c", r07c), ("R07-d", r07d), ("R07-e", r07e)]
EXPLANATION = (
    "Grammar/builder agreement decided by language inclusion, for every input text: (R07-a) for every builder site, the regular language "
    "of child-token sequences the pest grammar can emit for the rules reaching that site (pest's emission semantics: atomic/compound/"
    "silent rules, lookaheads, EOI) is included, exactly, in what the site consumes — parts! slot patterns, only_child, all_children, "
    "matches over as_rule() with a panicking fallback, the manual loop of ImplementsInterfaces; rule sets of Pair values are computed "
    "by abstract interpretation of the builders over the typed HIR, joined over call sites to a fixpoint; exact acceptance means no "
    "panic and no silently ignored child; (R07-b) finite text languages (operation types, escapes with their code points, booleans) "
    "equal the string arms consuming them; (R07-c) each AST field is filled from the grammar part the GraphQL grammar assigns to it "
    "(reviewed table tables/field_fill.json); (R07-d) lexical conformance of selected productions with the spec, and block strings "
    "must pass through a BlockStringValue() routine; (R07-e) 1-based to 0-based position conversion, every position derived from a "
    "pair. Not decided: parse(render(A)) = A for all renderings; column units for non-BMP text.")
ASSUMPTIONS = ["pest 2.7 token-emission semantics as modelled in rules/gram.py (atomicity, silent rules, implicit trivia emits no tokens)",
               "ordered choice over-approximated by union", "tables/field_fill.json reviewed by hand against the GraphQL grammar"]


def main(tier):
    return harness.run_property("C07", RULES, "other", EXPLANATION, ASSUMPTIONS, tier)
