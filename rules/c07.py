"""C07 — Parsing yields exactly the document the text denotes, with true positions (grammar/builder agreement)."""
import json
import os
import harness
from facts import norm, call_name, short, subnodes, lit_value
from prov import Prov
import gram as G
from builder_ai import BuilderAI, RULE

GRAMMAR = os.path.join(harness.REPO, "crates/parser/src/parser/grammar.pest")
if os.environ.get("VERIF_FACTS_DIR") and os.path.exists(os.path.join(os.environ["VERIF_FACTS_DIR"], "_raw", "grammar.pest")):
    # regression tooling: the grammar of the scratch tree the facts were extracted from
    GRAMMAR = os.path.join(os.environ["VERIF_FACTS_DIR"], "_raw", "grammar.pest")
B = "nitrogql_parser::parser::builder"
PAIRS = "pest::iterators::pairs::Pairs<"
TABLE = os.path.join(harness.VERIF, "tables", "field_fill.json")

_cache = {}


def model(P):
    if "ai" not in _cache:
        g = G.Grammar(GRAMMAR)
        _cache["g"] = g
        _cache["ai"] = BuilderAI(P, g).run()
    return _cache["g"], _cache["ai"]


def r07a(P, R):
    g, ai = model(P)
    R.count("grammar_rules", len(g.rules))
    R.count("builder_functions", len(ai.fns))
    counts, covered = {}, {}
    for key, o in sorted(ai.oblig.items()):
        counts[o["kind"]] = counts.get(o["kind"], 0) + 1
        covered.setdefault(o["kind"], set()).update(o["rule"].strip("{}").split(",") if o["kind"] == "as_rule" else [o["rule"]])
        if o["kind"] == "text":
            continue
        d = o["detail"] or {}
        if d.get("undecided"):
            # the rule set of the pair went through a construct the interpreter does not model exactly: no positive evidence
            R.undecided("R07-a", key, "not decided (the rule set of the pair is over-approximated here): %s" % o["msg"], loc=o["loc"], detail=d)
        elif o["ok"]:
            R.holds("R07-a", key, o["msg"], loc=o["loc"])
        else:
            if o["kind"] == "parts":
                how = []
                if d.get("panics"):
                    how.append("the builder panics")
                if d.get("drops"):
                    how.append("children are silently ignored")
                msg = "the grammar lets a %s pair have children [%s], which the builder pattern [%s] does not accept exactly: %s" % (
                    o["rule"], "; ".join(d.get("counterexamples", [])), d.get("slots"), " / ".join(how) or "mismatch")
            elif o["kind"] == "only_child":
                msg = "only_child() is applied to a %s pair, whose child sequences have lengths %s (%s)" % (o["rule"], d.get("lengths"), o["msg"])
            elif o["kind"] == "all_children":
                msg = "all_children() expects one child kind but a %s pair can also contain %s" % (o["rule"], d.get("others"))
            elif o["kind"] == "ident":
                msg = "an identifier/keyword is built from the whole text of a %s pair, which is not a single name token (its text includes " \
                      "punctuation or trivia): the AST name differs from the name in the text" % o["rule"]
            else:
                msg = "a branch on as_rule() that panics is reached for %s (%s)" % (d.get("unhandled"), o["msg"])
            R.violated("R07-a", key, msg, loc=o["loc"], detail=d)
    # floors count the grammar rules under an obligation, not the sites: merging two identical sites into one helper, or
    # splitting one, leaves them unchanged
    for kind, floor in (("parts", 30), ("only_child", 21), ("all_children", 13), ("as_rule", 49)):
        R.floor("R07-a", "grammar rules under %s obligations" % kind, len(covered.get(kind, ())), floor)
    unreached = ai.unreached()
    if unreached:
        R.undecided("R07-a", "builders-reached", "builder functions for which no call site supplies a rule set (their bodies are not decided): %s"
                    % [ai._rel(u) for u in unreached])
    else:
        R.holds("R07-a", "builders-reached", "every builder function is reached with a known rule set")
    # entry: the builder of each document type (anchored by the AST type it returns) is entered with that document's top rule
    for name, ret, top in (("build_operation_document", "nitrogql_ast::operation_ext::OperationDocumentExt", "ExecutableDocument"),
                           ("build_type_system_or_extension_document", "nitrogql_ast::type_system::TypeSystemOrExtensionDocument", "TypeSystemExtensionDocument")):
        cands = [f for f in ai.fns.values() if ((f.sig_output or "").split("<")[0] == ret or ("<" + ret) in (f.sig_output or "").replace(" ", ""))
                 and any(PAIRS in (t or "") for t in f.sig_inputs)]
        if len(cands) != 1:
            R.undecided("R07-a", "entry:" + name, "kind=anchor-missing: %d builder functions take pairs and return %s" % (len(cands), ret.split("::")[-1]))
            continue
        f = cands[0]
        got = ai.pairs_params.get(f.path) or ai.params.get(f.path)
        if not got:
            R.undecided("R07-a", "entry:" + name, "no parse entry point hands a parse result to %s" % f.name, loc=f.loc())
            continue
        R.check("R07-a", "entry:" + name, got == frozenset({top}), "entered with the %s pair" % top,
                "%s is entered with %s" % (f.name, sorted(got)), loc=f.loc())


def r07b(P, R):
    g, ai = model(P)
    n = 0
    for key, o in sorted(ai.oblig.items()):
        if o["kind"] != "text":
            continue
        n += 1
        d = o["detail"] or {}
        if d.get("undecided"):
            R.undecided("R07-b", key, o["msg"], loc=o["loc"])
        else:
            R.check("R07-b", key, o["ok"] and not d.get("dead"), o["msg"],
                    "texts the grammar can produce for %s and the string arms that consume them differ: unhandled %s, dead arms %s"
                    % (o["rule"], d.get("unhandled"), d.get("dead")), loc=o["loc"])
    # a finite keyword language may equally be consumed rule-wise (`match kw.as_rule() { Rule::KEYWORD_x => Variant, .. }`)
    R.floor("R07-b", "text matches", n + sum(1 for t in ai.rule_tables if t.get("ctors")), 2)

    def tables_for(rule):
        """the matches that consume the text of a pair of `rule`, wherever they live (anchored by what they consume)"""
        return [t for t in ai.text_tables if rule in t["rules"]]
    # escape values (spec: \\b U+0008, \\f U+000C, \\n U+000A, \\r U+000D, \\t U+0009, \\" \\\\ \\/ themselves)
    want = {'\\"': '"', "\\\\": "\\", "\\/": "/", "\\b": "\u0008", "\\f": "\u000c", "\\n": "\n", "\\r": "\r", "\\t": "\t"}
    tabs = tables_for("EscapedCharacter")
    for esc, ch in sorted(want.items()):
        key = "escape:%r" % esc
        arms = [(t, t["arms"][esc]) for t in tabs if esc in t["arms"]]
        if not arms:
            R.undecided("R07-b", key, "no `match` over the text of an EscapedCharacter pair has an arm for %s: how the escape is decoded is not decided" % esc)
            continue
        wrong = [(t, a) for t, a in arms if a["lit"] is not None and a["lit"] != ch]
        unknown = [(t, a) for t, a in arms if a["lit"] is None]
        if wrong:
            R.violated("R07-b", key, "escape sequence %s decodes to %r (spec: U+%04X)" % (esc, wrong[0][1]["lit"], ord(ch)), loc=wrong[0][0]["loc"])
        elif unknown:
            R.undecided("R07-b", key, "the arm for %s does not yield a literal character: not decided" % esc, loc=unknown[0][0]["loc"])
        else:
            R.holds("R07-b", key, "%s -> U+%04X" % (esc, ord(ch)), loc=arms[0][0]["loc"])
    wanto = {"query": "Query", "mutation": "Mutation", "subscription": "Subscription"}
    tabs = tables_for("OperationType")
    # the same mapping spelled over the keyword *rules* (`match kw.as_rule() { Rule::KEYWORD_query => OperationType::Query, .. }`)
    by_rule = [t for t in ai.rule_tables if any("OperationType::" in (v or "") for v in t.get("ctors", {}).values())]
    for t in by_rule:
        for r, ctor in sorted(t["ctors"].items()):
            if "OperationType::" in ctor and "KEYWORD_" in r:
                word = r.split("KEYWORD_")[1]
                made = ctor.split("::")[-1]
                R.check("R07-b", "operation-type:" + word, made == wanto.get(word), "%s -> %s" % (word, wanto.get(word)),
                        "keyword `%s` builds OperationType::%s" % (word, made), loc=t["loc"])
    if not tabs and not by_rule:
        R.undecided("R07-b", "operation-type", "no `match` over the text (or the keyword rule) of an OperationType pair found: the keyword -> OperationType "
                    "mapping is not decided")
    for t in tabs:
        for l, a in sorted(t["arms"].items()):
            made = (a["ctor"] or "").split("::")[-1] if a["ctor"] and "OperationType::" in a["ctor"] else None
            if made is None:
                R.undecided("R07-b", "operation-type:" + l, "the arm for `%s` does not name an OperationType variant: not decided" % l, loc=t["loc"])
            else:
                R.check("R07-b", "operation-type:" + l, made == wanto.get(l), "%s -> %s" % (l, wanto.get(l)), "keyword `%s` builds OperationType::%s" % (l, made), loc=t["loc"])
    seen = set()
    for t in ai.rule_tables:
        for kw, val in (("KEYWORD_true", True), ("KEYWORD_false", False)):
            if kw in t["table"] and isinstance(t["table"][kw], bool):
                seen.add(kw)
                word = kw.split("_")[1]
                R.check("R07-b", "boolean:" + word, t["table"][kw] is val, "%s -> %s" % (word, word), "%s builds %r" % (kw, t["table"][kw]), loc=t["loc"])
    for kw in ("KEYWORD_true", "KEYWORD_false"):
        if kw not in seen:
            R.undecided("R07-b", "boolean:" + kw.split("_")[1], "no `match` over the rule of a pair maps %s to a boolean literal: not decided" % kw)


# Rows of tables/field_fill.json that recorded an artefact of the former, purely syntactic source computation (the rules of the locals
# an expression happened to mention) rather than the grammar part:
#  * the block-string arm of the StringValue builder takes the text of the BlockStringValue pair (lost in a tuple pattern);
#  * three list fields were recorded by the rule of their elements because the code names a local for `pair.all_children(..)` /
#    `pair.into_inner()`; the part the grammar assigns is the enclosing pair whose children they are.
TABLE_AMEND = {"value::StringValue.value": ["BlockStringValue", "NormalStringValue", "StringCharacter"],
               "variable::VariablesDefinition.definitions": ["VariableDefinition", "VariablesDefinition"],
               "type_system::ArgumentsDefinition.input_values": ["ArgumentsDefinition", "InputValueDefinition"]}


def r07c(P, R):
    g, ai = model(P)
    want = json.load(open(TABLE))
    want.update(TABLE_AMEND)
    got = {"%s.%s" % (adt.replace("nitrogql_ast::", ""), fld): rec for (adt, fld), rec in ai.fills.items()}
    R.floor("R07-c", "AST fields filled by the builders", len(got), 150)
    unreached = set(ai.unreached())
    for key in sorted(set(want) | set(got)):
        w, rec = want.get(key), got.get(key)
        if w is None:
            if key.startswith(("base::Ident.", "base::Keyword.")):
                continue        # hand-built identifiers are decided by R07-e ident-coherent
            R.undecided("R07-c", "fill:" + key, "new AST field filled from %s has no row in tables/field_fill.json" % sorted(rec["m"]))
            continue
        if rec is None:
            R.undecided("R07-c", "fill:" + key, "kind=anchor-missing: no struct literal in the builders fills `%s` any more (table row: %s); how the "
                        "field is built is not decided" % (key, w))
            continue
        w = set(w)
        m, leaf = rec["m"], rec["leaf"]
        if not m:
            if rec["fuzzy"] or rec.get("unknown") or (rec["fns"] & unreached):
                R.undecided("R07-c", "fill:" + key, "the source of `%s` is not decided (%s)" % (key, "filled in a function that is not reached"
                                                                                                  if rec["fns"] & unreached else
                                                                                                  "it is built from a local whose origin is not followed"))
            else:
                R.violated("R07-c", "fill:" + key, "AST field `%s` is built from no grammar part at all; the GraphQL grammar assigns it %s" % (key, sorted(w)))
            continue
        # a source is justified when it is an assigned part, or a pair obtained from inside an assigned part
        # (a rule the value depends on only because it was selected by a test on such a pair is not a source of its content)
        data = rec.get("data", set(m))
        unjust = sorted(x for x in m if x in data and x not in w and not (m[x] & w))
        if not unjust:
            inner = sorted(x for x in m if x not in w and x in leaf)
            if key.endswith((".position", ".pos")) and inner:
                # the start of a sub-part need not be the start of the part
                R.undecided("R07-c", "fill:" + key, "the position `%s` is read from %s, a sub-part of the assigned part %s: whether both start at the same "
                            "place is not decided" % (key, inner, sorted(w)))
            else:
                R.holds("R07-c", "fill:" + key, "<- %s" % ",".join(sorted(m)))
            continue
        coarse = [x for x in unjust if x in g.rules and (g.descendants(x) & w)]        # encloses an assigned part
        foreign = [x for x in unjust if x not in coarse]
        read = [x for x in coarse if x in leaf]
        if (foreign or read) and not rec["fuzzy"]:
            what = []
            if foreign:
                what.append("it also derives from %s, which is neither an assigned part nor inside one" % foreign)
            if read:
                what.append("it reads the text/position of the enclosing %s pair instead of the assigned part" % read)
            R.violated("R07-c", "fill:" + key, "AST field `%s` is built from grammar part(s) %s; the GraphQL grammar assigns it %s: %s"
                       % (key, sorted(m), sorted(w), "; ".join(what)))
        elif rec["fuzzy"]:
            R.undecided("R07-c", "fill:" + key, "AST field `%s` is built from %s (table: %s), but the rule set of the source pair is over-approximated "
                        "there: not decided" % (key, sorted(m), sorted(w)))
        else:
            R.undecided("R07-c", "fill:" + key, "AST field `%s` is built from %s, of which %s enclose(s) the assigned part %s without its own text being "
                        "read: same part at a coarser granularity, not decided" % (key, sorted(m), coarse or unjust, sorted(w)))
    # order: the lists of the AST are in the order of the text — on the way from the parsed pairs to a field no value may pass through a
    # sort (other than by position), a reversal, a de-duplication or a hashed / ordered-by-key collection
    moved = 0
    for key, rec in sorted(got.items()):
        ops = dict(rec.get("ops", {}))
        halves = {}
        for op in list(ops):
            if op.startswith("partition:"):
                halves.setdefault(op.rsplit(":", 1)[0], []).append((op, ops.pop(op)))
        for pid, hs in sorted(halves.items()):
            moved += 1
            if len(hs) >= 2:
                R.violated("R07-c", "order:" + key, "`%s` is re-assembled from both halves of a `partition` of the built elements: the elements are "
                           "regrouped by content, so they are no longer in the order in which the text lists them" % key, loc=hs[0][1])
            else:
                R.undecided("R07-c", "order:" + key, "`%s` receives one half of a `partition` of the built elements: whether the other half is "
                            "kept elsewhere is not decided" % key, loc=hs[0][1])
        for op, loc in sorted(ops.items()):
            moved += 1
            R.violated("R07-c", "order:" + key, "`%s` passes through `%s` on its way from the parsed pairs: its elements are no longer (all) in the order "
                       "in which the text lists them, so the document the parser yields is not the one the text denotes" % (key, op), loc=loc)
    if not moved:
        R.holds("R07-c", "order", "no AST field passes through a re-ordering or de-duplicating operation")
    for p, f in ai.fns.items():
        for n in f.walk():
            if n.get("k") == "Struct" and "rest" not in n and ("base" in n or n.get("default_tail")) \
                    and norm(n.get("variant") or n.get("adt") or "").startswith("nitrogql_ast::"):
                R.undecided("R07-c", "no-base:" + short(p), "%s builds an AST node with `..base`: the fields it takes from the base value are not decided" % p,
                            loc=f.loc())


def r07d(P, R):
    """lexical conformance of selected productions (GraphQL spec, Appendix B lexical grammar)"""
    g, ai = model(P)
    rules = g.rules

    def body(n):
        return rules[n][1]

    def flat_choice(e):
        return e[1] if e[0] == "choice" else [e]
    # ignored tokens
    ws = {x[1] if x[0] == "str" else "<" + x[1] + ">" for x in flat_choice(body("WHITESPACE"))}
    R.check("R07-d", "ignored-set", ws == {"﻿", "\t", " ", "<NEWLINE>", ","} and rules["WHITESPACE"][0] == "_",
            "ignored: BOM, tab, space, line terminators, comma", "WHITESPACE is %s" % sorted(ws))
    # comments: `#` ... up to a line terminator or the end of input
    c = body("COMMENT")
    last = c[1][-1] if c[0] == "seq" else c
    ends = {x[1] for x in flat_choice(last) if x[0] == "id"}
    R.check("R07-d", "comment-terminator", {"NEWLINE", "EOI"} <= ends, "a comment ends at a line terminator or at end of input",
            "COMMENT must be followed by %s: a comment on the last line without trailing newline is a syntax error" % sorted(ends))
    # CommentChar :: SourceCharacter but not LineTerminator (LF, CR LF, CR): the loop that consumes the body of a comment must stop at
    # a line feed and at a carriage return
    loops = [x for x in _walk(c) if x[0] in ("star", "plus") and "\x00" in g.first(x[1])[0]]
    if not loops:
        R.undecided("R07-d", "comment-body", "kind=anchor-missing: COMMENT has no repetition that consumes arbitrary characters")
    for x in loops[:1]:
        sure, maybe = g.lead_excluded(x[1])
        miss = [ch for ch in ("\n", "\r") if ch not in sure]
        if not miss:
            R.holds("R07-d", "comment-body", "a comment stops at LF and at CR")
        elif all(ch in maybe for ch in miss):
            R.undecided("R07-d", "comment-body", "whether a comment stops at %s is not decided" % _chars(miss))
        else:
            R.violated("R07-d", "comment-body", "the body of a comment does not stop at %s, which the spec defines as a line terminator: a comment on a "
                       "line that ends in it swallows the following tokens up to the next line feed" % _chars([ch for ch in miss if ch not in maybe]))
    # numbers
    ep = body("ExponentPart")
    first = ep[1][0]
    ok = first == ("insens", "e") or (first[0] == "choice" and {x[1] for x in first[1]} == {"e", "E"})
    R.check("R07-d", "exponent-indicator", ok, "ExponentIndicator: e | E", "ExponentPart starts with %r: `1E5` is not a FloatValue" % (first,))
    R.check("R07-d", "exponent-sign-digits", ep[0] == "seq" and ep[1][1][0] == "opt" and ep[1][2] == ("plus", ("id", "ASCII_DIGIT")),
            "Sign? Digit+", "ExponentPart is %r" % (ep,))
    ip = body("IntegerPart")
    ok = ip[0] == "seq" and ip[1][0] == ("opt", ("str", "-")) and ip[1][1][0] == "choice" and ip[1][1][1][0] == ("str", "0")
    R.check("R07-d", "integer-part", ok, "-? (0 | NonZeroDigit Digit*)", "IntegerPart is %r" % (ip,))
    # every way a number token can end is closed by a negative look-ahead over `.` and the characters that start a name — decided on what
    # the rule accepts (per path, look-aheads expanded through sub-rules), not on how the alternatives are factored
    name_start = g._sure_start(("id", "NameStart"))[0] if "NameStart" in rules else set("_")
    need = {"."} | name_start
    for n in ("IntValue", "FloatValue"):
        ends = g.trailing_excluded(body(n))
        open_ = sorted({c for s_, m_, z in ends for c in need - s_ - m_})
        unsure = sorted({c for s_, m_, z in ends for c in (need - s_) & m_})
        if open_:
            R.violated("R07-d", "number-lookahead:" + n, "%s can end directly before %s: `1.x`/`1abc` style input lexes as a number followed by another "
                       "token instead of being rejected" % (n, _chars(open_)))
        elif unsure:
            R.undecided("R07-d", "number-lookahead:" + n, "whether %s may be followed by %s is not decided (multi-character look-ahead)" % (n, _chars(unsure)))
        else:
            R.holds("R07-d", "number-lookahead:" + n, "on every path not followed by `.` or a name start")
    # ordered choice: no alternative is shadowed by an earlier one that is its prefix (PEG commits to the first success)
    dead = g.dead_alternatives()
    R.floor("R07-d", "ordered choices analysed", g.choice_count(), 40)
    for rule, i, j, rest, verdict, why in dead:
        msg = "%s: alternative %d begins with all of alternative %d, so it is never taken; %s" % (rule, j + 1, i + 1, why)
        if verdict == "lost":
            R.violated("R07-d", "peg-shadowed-alternative:%s" % rule, msg + " — inputs of that form are rejected")
        else:
            R.undecided("R07-d", "peg-dead-alternative:%s" % rule, msg)
    if not dead:
        R.holds("R07-d", "peg-ordered-choice", "no alternative of the %d ordered choices starts with a complete earlier alternative" % g.choice_count())
    pcg = G.Grammar(None, text='T = @{ A ~ (B | C | (B ~ C)) ~ !("e" | "E" | "x") }\nA = { "1" }\nB = { "." }\nC = { ^"e" }\n')
    pc = pcg.dead_alternatives()
    R.check("R07-pc", "peg-shadow-detector", len(pc) == 1 and pc[0][4] == "lost", "the shadowed-alternative detector fires on its control grammar",
            "control grammar not reported: %r" % (pc,))
    ns = {x[1] for x in flat_choice(body("NameStart"))}
    nc = {x[1] for x in flat_choice(body("NameContinue"))}
    R.check("R07-d", "name", ns == {"ASCII_ALPHA", "_"} and nc == {"ASCII_ALPHANUMERIC", "_"}, "Name: [_A-Za-z][_0-9A-Za-z]*", "NameStart %s / NameContinue %s" % (ns, nc))
    # strings
    sure, maybe = g.lead_excluded(body("NormalStringCharacter"))
    want_x = {'"', "\\", "\n", "\r"}
    if sure == want_x and not maybe:
        R.holds("R07-d", "string-forbidden-raw", "raw string characters exclude \", \\ and line terminators")
    elif (want_x - sure - maybe) or (sure - want_x):
        R.violated("R07-d", "string-forbidden-raw", "NormalStringCharacter excludes %s; the spec excludes exactly \", \\, LF and CR" % _chars(sorted(sure)))
    else:
        R.undecided("R07-d", "string-forbidden-raw", "NormalStringCharacter surely excludes %s, possibly %s: not decided" % (_chars(sorted(sure)), _chars(sorted(maybe))))
    R.check("R07-d", "escaped-characters", g.text_lang("EscapedCharacter") == {'\\"', "\\\\", "\\/", "\\b", "\\f", "\\n", "\\r", "\\t"},
            "EscapedCharacter: one of \" \\ / b f n r t", "EscapedCharacter texts are %s" % sorted(g.text_lang("EscapedCharacter") or []))
    u4 = body("EscapedUnicode4")
    ok = u4[0] == "seq" and u4[1][0] == ("str", "\\u") and u4[1][1] == ("rep", ("id", "ASCII_HEX_DIGIT"), 4, 4)
    R.check("R07-d", "unicode-escape-4", ok, "\\uXXXX with exactly four hex digits", "EscapedUnicode4 is %r" % (u4,))
    bs = body("BlockStringValue")
    ok = bs[0] == "seq" and bs[1][0] == ("str", '"""') and bs[1][-1] == ("str", '"""')
    R.check("R07-d", "block-string-delimiters", ok, '""" ... """', "BlockStringValue is %r" % (bs,))
    bc = body("BlockStringCharacter")
    R.check("R07-d", "block-string-escape", any(x == ("str", '\\"""') for x in _walk(bc)), 'block strings allow the \\""" escape', "BlockStringCharacter is %r" % (bc,))
    # keywords are guarded against longer names
    kws = [n for n in g.order if n.startswith(("KEYWORD_", "ext_KEYWORD_"))]
    for n in kws:
        b = body(n)
        word = n.split("KEYWORD_")[1]
        ok = b[0] == "seq" and b[1][0] == ("str", word) and b[1][1] == ("neg", ("id", "NameContinue")) and rules[n][0] == "@"
        R.check("R07-d", "keyword:" + word, ok, "`%s` not followed by a name character" % word, "%s is %r" % (n, b))
    R.floor("R07-d", "keywords", len(kws), 21)
    # a negative look-ahead placed in front of a name (`!(true | false | null) ~ Name`, `!from ~ Name`) must exclude whole words only:
    # every alternative that can match the beginning of a name has to end with the name-continuation guard, or it also rejects every
    # name that merely starts with the word — decided on what the alternative accepts (its trailing look-aheads), not on its spelling
    name_start = g._sure_start(("id", "NameStart"))[0] if "NameStart" in rules else set("_")
    name_cont = g._sure_start(("id", "NameContinue"))[0] if "NameContinue" in rules else set("_")
    seen_guard = 0
    for rn in g.order:
        for sq in [x for x in _walk(body(rn)) if x[0] == "seq"]:
            items = sq[1]
            for i, x in enumerate(items):
                if x[0] != "neg":
                    continue
                nxt = [y for y in items[i + 1:] if y[0] not in ("neg", "pos")]
                if not nxt or not (g.first(nxt[0])[0] and g.first(nxt[0])[0] <= name_start):
                    continue
                for alt in flat_choice(x[1]):
                    if not (g.first(alt)[0] & name_start):
                        continue
                    seen_guard += 1
                    ends = [e3 for e3 in g.trailing_excluded(alt) if not e3[2]]
                    open_ = sorted({ch for s_, m_, z in ends for ch in name_cont - s_ - m_})
                    unsure = sorted({ch for s_, m_, z in ends for ch in (name_cont - s_) & m_})
                    key = "word-lookahead:%s:%s" % (rn, alt[1] if alt[0] in ("id", "str") else "alt%d" % seen_guard)
                    if open_:
                        R.violated("R07-d", key, "in %s the look-ahead `!%s` in front of a name is not closed by the name-continuation guard: a name "
                                   "that merely starts with that word (e.g. the word followed by %s) is rejected there, so valid input is parsed "
                                   "differently (the alternative is skipped or the enclosing rule fails)" % (rn, alt[1] if alt[0] in ("id", "str") else "…",
                                                                                                          _chars(open_[:3])))
                    elif unsure:
                        R.undecided("R07-d", key, "whether the look-ahead in %s excludes whole words only is not decided" % rn)
                    else:
                        R.holds("R07-d", key, "excludes the whole word only")
    R.floor("R07-d", "word look-aheads in front of names", seen_guard, 4)
    # a greedy repetition whose items can begin with an arbitrary name swallows any keyword that may legitimately come right after it
    # (PEG never backtracks into a repetition): every keyword in the FOLLOW set of the repetition must be excluded by a look-ahead of
    # the item — `(!from ~ Name)+ ~ from`, a name list at the end of a definition vs. the keyword that starts the next definition
    nrep, per_rule = 0, {}
    for rn, node, fw in g.repetition_follows():
        if node[0] not in ("star", "plus") or not fw:
            continue
        guards = g.name_start_guards(node[1])
        if not guards:
            continue
        nrep += 1
        per_rule[rn] = per_rule.get(rn, 0) + 1
        missing = sorted(set().union(*[fw - k for k in guards]))
        R.check("R07-d", "name-repetition-follow:%s#%d" % (rn, per_rule[rn] - 1), not missing,
                "the names repeated in %s stop before %s" % (rn, sorted(fw)),
                "the repetition of names in %s can be followed by the keyword(s) %s, which its items do not exclude: the keyword is consumed as one "
                "more name, so a valid text in which it follows (e.g. the next definition starting with it) is rejected or absorbed into this "
                "construct" % (rn, missing))
    R.floor("R07-d", "name repetitions followed by a keyword", nrep, 1)
    # directive locations
    ex = g.text_lang("ExecutableDirectiveLocation")
    ty = g.text_lang("TypeSystemDirectiveLocation")
    R.check("R07-d", "executable-locations", ex == {"QUERY", "MUTATION", "SUBSCRIPTION", "FIELD", "FRAGMENT_DEFINITION", "FRAGMENT_SPREAD", "INLINE_FRAGMENT", "VARIABLE_DEFINITION"},
            "8 executable directive locations", "ExecutableDirectiveLocation = %s" % sorted(ex or []))
    R.check("R07-d", "type-system-locations", ty == {"SCHEMA", "SCALAR", "OBJECT", "FIELD_DEFINITION", "ARGUMENT_DEFINITION", "INTERFACE", "UNION", "ENUM", "ENUM_VALUE",
                                                       "INPUT_OBJECT", "INPUT_FIELD_DEFINITION"}, "11 type-system directive locations", "TypeSystemDirectiveLocation = %s" % sorted(ty or []))
    # PEG ordering: a location that is a prefix of another must come after it (or the longer one is unreachable)
    for n in ("ExecutableDirectiveLocation", "TypeSystemDirectiveLocation"):
        alts = [x[1] for x in _walk(body(n)) if x[0] == "str"]
        bad = [(a, b) for i, a in enumerate(alts) for b in alts[i + 1:] if b.startswith(a) and b != a]
        # `("A" | "AB") ~ !NameContinue` backtracks into the choice only for the whole group; pest retries alternatives, so order is
        # harmless with the trailing lookahead *inside the same sequence*; flag only when the lookahead is missing
        has_guard = any(x == ("neg", ("id", "NameContinue")) for x in _walk(body(n)))
        R.check("R07-d", "location-prefix-order:" + n, has_guard or not bad, "prefix alternatives are disambiguated by the !NameContinue guard",
                "alternatives %s shadow longer ones and no lookahead guards them" % bad)
    # value alternatives and the shorthand query
    vals = {x[1] for x in flat_choice(body("Value"))}
    R.check("R07-d", "value-kinds", vals == {"Variable", "IntValue", "FloatValue", "StringValue", "BooleanValue", "NullValue", "EnumValue", "ListValue", "ObjectValue"},
            "nine value kinds", "Value alternatives: %s" % sorted(vals))
    od = G.show(g.child_lang("OperationDefinition"))
    R.check("R07-d", "query-shorthand", "| SelectionSet" in od, "OperationDefinition admits the shorthand `{ ... }`", "the grammar lost the query shorthand: %s" % od)
    ev = body("EnumValue")
    negs = [x for x in _walk(ev) if x[0] == "neg"]
    ok = bool(negs) and {y[1] for y in flat_choice(negs[0][1])} == {"KEYWORD_true", "KEYWORD_false", "KEYWORD_null"}
    R.check("R07-d", "enum-value-exclusions", ok, "EnumValue: Name but not true/false/null", "EnumValue is %r" % (ev,))
    # optional leading separators
    for n, sep in (("ImplementsInterfaces", "&"), ("UnionMemberTypes", "|"), ("DirectiveLocations", "|")):
        ok = any(x == ("opt", ("str", sep)) for x in _walk(body(n)))
        R.check("R07-d", "leading-separator:" + n, ok, "optional leading `%s`" % sep, "%s does not allow a leading `%s`" % (n, sep))
    # block strings must go through the spec's BlockStringValue() routine.  Anchor: the builder of nitrogql_ast StringValue (the
    # function that narrows a pair to BlockStringValue), with its helpers virtually inlined.
    from templates import inlined
    RAW = {"as_str", "split_at", "into", "to_owned", "to_string", "from", "trim_start_matches", "trim_end_matches", "strip_prefix", "strip_suffix",
           "unwrap", "expect", "unwrap_or", "unwrap_or_default", "get", "clone", "as_ref", "deref", "borrow", "new", "index", "as_span", "split_at_checked"}
    if "pred" not in _cache:
        _cache["pred"] = lambda fn: fn.path in ai.fns       # helpers of the builders are inlined, the PairExt primitives are not
    found = []
    for p, f0 in sorted(ai.fns.items()):
        if not any(rule_of_node(x) == "BlockStringValue" for x in f0.walk()):
            continue
        f = inlined(P, f0, pred=_cache["pred"])
        pv = Prov(f)
        for x in f.walk():
            if x.get("k") == "Match":
                for arm in x["arms"]:
                    rs = [norm(q.get("def", ""))[len(RULE):] for q in subnodes(arm["pat"]) if norm(q.get("def", "")).startswith(RULE)]
                    if rs == ["BlockStringValue"]:
                        found.append((f0, pv, arm["body"]))
            elif x.get("k") == "If":
                tests = [q for q in subnodes(x["cond"]) if rule_of_node(q) == "BlockStringValue"]
                others = [q for q in subnodes(x["cond"]) if rule_of_node(q) not in (None, "BlockStringValue")]
                neg = any(q.get("k") == "Unary" and q.get("op") == "Not" for q in subnodes(x["cond"])) or \
                    any(q.get("k") == "Binary" and q.get("op") == "!=" for q in subnodes(x["cond"]))
                if tests and not others and not neg:
                    found.append((f0, pv, x["then"]))
    # what flows into StringValue.value on that branch
    sites = []
    for f0, pv, body in found:
        for x in subnodes(body):
            if x.get("k") == "Struct" and "rest" not in x and norm(x.get("variant") or x.get("adt") or "").endswith("value::StringValue"):
                for fld in x["fields"]:
                    if fld["name"] == "value":
                        sites.append((f0, pv, fld["e"]))
    if not sites:
        # the branch computes the text and the StringValue is assembled after it (`let value = match .. { BlockStringValue => .. }`): the
        # branch is on the data path of some StringValue.value
        for f0, pv, body in found:
            f = pv.fn
            for x in f.walk():
                if x.get("k") == "Struct" and "rest" not in x and norm(x.get("variant") or x.get("adt") or "").endswith("value::StringValue"):
                    for fld in x["fields"]:
                        if fld["name"] == "value" and any(y is body for y in _data_path_nodes(pv, fld["e"])):
                            sites.append((f0, pv, body))
    if not sites:
        R.undecided("R07-d", "block-string-value", "kind=anchor-missing: no branch of the builders taken exactly for a BlockStringValue pair builds a "
                    "StringValue; whether block strings pass through a BlockStringValue() routine is not decided")
    else:
        f0, pv, e = sites[0]
        # the string-valued operations on the data path from the pair's text to StringValue.value (how the pair itself was obtained,
        # positions and panics are not text operations)
        calls = set()
        for x in _data_path_calls(pv, e):
            t = x.get("t") or ""
            if "inl" in x or "Pair<" in t or not any(w in t for w in ("str", "String", "char")):
                continue
            calls.add(x["method"] if x.get("k") == "MethodCall" else (call_name(x) or "?").split("::")[-1])
        linewise = calls & {"lines", "split", "split_terminator", "split_inclusive", "char_indices", "chars", "bytes", "find", "replace"}
        if calls <= RAW:
            R.violated("R07-d", "block-string-value", "%s returns the raw text between the `\"\"\"` delimiters (only %s are applied): the common "
                       "indentation is not removed, leading/trailing blank lines are kept and `\\\"\"\"` is not unescaped, so the parsed value differs "
                       "from the value the text denotes (spec §2.9.4 BlockStringValue)" % (f0.name, sorted(calls)), loc=f0.loc())
        elif linewise:
            R.holds("R07-d", "block-string-value", "block string contents are processed line/character-wise (%s)" % sorted(linewise), loc=f0.loc())
        else:
            R.undecided("R07-d", "block-string-value", "block string contents pass through %s: whether that is the BlockStringValue() routine is not "
                        "decided" % sorted(calls - RAW), loc=f0.loc())


def _data_path_nodes(pv, e):
    """every node on the data path of expression e (below e and below the sources of the locals it mentions)"""
    out, seen, stack = [], set(), [e]
    while stack:
        n = stack.pop()
        for x in subnodes(n):
            out.append(x)
            if x.get("k") == "Path" and "local" in x and x["local"] not in seen:
                seen.add(x["local"])
                for src, extra in pv.src.get(x["local"], []):
                    if src is not None:
                        stack.append(src)
    return out


def _data_path_calls(pv, e):
    """Call / MethodCall nodes on the data path of expression e: below e and below the sources of every local it mentions"""
    out, seen, stack = [], set(), [e]
    while stack:
        n = stack.pop()
        for x in subnodes(n):
            if x.get("k") in ("Call", "MethodCall"):
                out.append(x)
            elif x.get("k") == "Path" and "local" in x and x["local"] not in seen:
                seen.add(x["local"])
                for src, extra in pv.src.get(x["local"], []):
                    if src is not None:
                        stack.append(src)
    return out


def rule_of_node(n):
    d = norm(n.get("def", "")) if isinstance(n, dict) else ""
    return d[len(RULE):] if d.startswith(RULE) else None


def _chars(cs):
    cs = list(cs)
    letters = [c for c in cs if c.isalpha()]
    rest = [c for c in cs if not c.isalpha()]
    out = [repr(c) for c in rest]
    if len(letters) > 6:
        out.append("letters")
    else:
        out.extend(repr(c) for c in letters)
    return ", ".join(out)


def _walk(e):
    out = [e]
    if e[0] in ("seq", "choice"):
        for x in e[1]:
            out.extend(_walk(x))
    elif e[0] in ("opt", "star", "plus", "neg", "pos", "rep"):
        out.extend(_walk(e[1]))
    return out


def _pair_prim(P, name):
    """the PairExt-style primitive `name` implemented for pest's Pair (anchored by receiver type and name, wherever the trait lives)"""
    hits = [f for f in P.fns.values() if f.name == name and (f.self_ty or "").startswith("pest::iterators::pair::Pair") and not f.derived]
    return hits[0] if len(hits) == 1 else None


def _unit_evidence(used):
    """the column of a Pos is a character column (pest's line_col()); message when it is computed from byte offsets only"""
    byteish = used & {"start", "end", "len", "rfind", "find", "as_bytes", "bytes", "pos", "start_pos", "end_pos", "offset", "byte_offset",
                      "match_indices", "rmatch_indices"}
    charish = used & {"line_col", "chars", "char_indices", "graphemes", "width", "encode_utf16"}
    if byteish and not charish:
        return ("to_pos computes the column from byte offsets (%s) instead of pest's line_col(): for a token preceded on its line by a "
                "non-ASCII character the column counts UTF-8 bytes, not characters, so the position is not the true one" % sorted(byteish))
    return None


def _pos_conversion(P, tp):
    """("ok" | "bad" | "unknown", message) for the 1-based -> 0-based conversion in to_pos"""
    def strip(e):
        while isinstance(e, dict) and e.get("k") in ("DropTemps", "Use", "AddrOf", "Cast", "Type"):
            e = e["e"]
        return e
    comps, tuples = {}, set()

    def scan_lets(fn):
        for n in fn.walk():
            if n.get("k") == "Let" and "init" in n:
                init = strip(n["init"])
                if init.get("k") == "MethodCall" and init["method"] == "line_col":
                    pat = n["pat"]
                    if pat.get("k") == "Tuple" and len(pat["ps"]) == 2 and all(p.get("k") == "Binding" for p in pat["ps"]):
                        comps[pat["ps"][0]["local"]], comps[pat["ps"][1]["local"]] = 0, 1
                    elif pat.get("k") == "Binding":
                        tuples.add(pat["local"])

    def comp(e):
        e = strip(e)
        if e.get("k") == "Path" and e.get("local") in comps:
            return comps[e["local"]]
        if e.get("k") == "Field" and str(e.get("field")) in ("0", "1"):
            b = strip(e["e"])
            if (b.get("k") == "Path" and b.get("local") in tuples) or (b.get("k") == "MethodCall" and b["method"] == "line_col"):
                return int(e["field"])
        return None
    scan_lets(tp)
    calls = [c for c in tp.walk() if c.get("k") == "Call" and (call_name(c) or "").endswith("base::Pos::new")]
    if not calls:
        # the conversion lives in a helper (`Pos::from_one_based(self.line_col())`, `Pos::from_one_based(line, column)`): its parameters
        # stand for the components (or the whole result) of line_col() the call passes
        for c in tp.walk():
            g = P.fns.get(call_name(c) or "") if c.get("k") == "Call" else None
            if g is None or len(c["args"]) != len(g.params) or not (g.sig_output or "").endswith("base::Pos"):
                continue
            bound = False
            for pat, a in zip(g.params, c["args"]):
                whole = strip(a).get("k") == "MethodCall" and strip(a)["method"] == "line_col"
                whole = whole or (strip(a).get("k") == "Path" and strip(a).get("local") in tuples)
                if whole and pat.get("k") == "Tuple" and len(pat["ps"]) == 2 and all(p.get("k") == "Binding" for p in pat["ps"]):
                    comps[pat["ps"][0]["local"]], comps[pat["ps"][1]["local"]] = 0, 1
                    bound = True
                elif whole and pat.get("k") == "Binding":
                    tuples.add(pat["local"])
                    bound = True
                elif pat.get("k") == "Binding" and comp(a) is not None:
                    comps[pat["local"]] = comp(a)
                    bound = True
            if bound:
                tp = g
                scan_lets(tp)
                calls = [x for x in tp.walk() if x.get("k") == "Call" and (call_name(x) or "").endswith("base::Pos::new")]
                break
    if not calls:
        # neither line_col() components nor a Pos::new here: the position is assembled by a helper from other quantities.  Follow the
        # helper's column expression back to the arguments of this call and look at the unit they are measured in
        from prov import canon_params
        for c in tp.walk():
            g = P.fns.get(call_name(c) or "") if c.get("k") == "Call" else None
            if g is None or len(c["args"]) != len(g.params) or not (g.sig_output or "").endswith("base::Pos"):
                continue
            inner = [x for x in g.walk() if x.get("k") == "Call" and (call_name(x) or "").endswith("base::Pos::new")]
            if len(inner) != 1 or len(inner[0]["args"]) != 2:
                continue
            pg = Prov(g)
            col = pg.atoms(inner[0]["args"][1])
            names = canon_params(g)
            feeds = [i for i, nm in enumerate(names) if ("param", nm) in col]
            used = {a[1].split("::")[-1] for a in col if a[0] == "call"}
            pv = Prov(tp)
            for i in feeds:
                used |= {a[1].split("::")[-1] for a in pv.atoms(c["args"][i]) if a[0] == "call"}
            verdict = _unit_evidence(used)
            if verdict:
                return "bad", verdict
    if len(calls) != 1 or len(calls[0]["args"]) != 2:
        return "unknown", "to_pos does not build its result with one Pos::new(line, column) call"

    def arg(e):
        e = strip(e)
        if e.get("k") == "Binary" and e.get("op") == "-" and comp(e["l"]) is not None and lit_value(e["r"]) is not None:
            return comp(e["l"]), str(lit_value(e["r"]))
        if comp(e) is not None:
            return comp(e), "0"
        return None
    a0, a1 = arg(calls[0]["args"][0]), arg(calls[0]["args"][1])
    if a0 is None or a1 is None:
        # not the line_col() shape.  The column of a Pos is a character column (pest's line_col()); a distance between byte offsets
        # (span.start(), str::len(), find/rfind indices) is a different unit as soon as a non-ASCII character precedes the token on its line
        pv = Prov(tp)
        used = {a[1].split("::")[-1] for a in pv.atoms(calls[0]["args"][1]) if a[0] == "call"}
        verdict = _unit_evidence(used)
        if verdict:
            return "bad", verdict
        return "unknown", "the arguments of Pos::new in to_pos are not `component - literal` of pair.line_col()"
    if a0 == (0, "1") and a1 == (1, "1"):
        return "ok", "Pos::new(line - 1, column - 1) from pair.line_col()"
    names = ("line", "column")
    return "bad", "to_pos builds Pos::new(%s - %s, %s - %s) from pest's 1-based (line, column): the AST wants 0-based (line, column)" % (
        names[a0[0]], a0[1], names[a1[0]], a1[1])


def r07e(P, R):
    """positions: 1-based pest line/col -> 0-based Pos; every position in the AST derives from a pair"""
    from templates import inlined
    g, ai = model(P)
    tp = _pair_prim(P, "to_pos")
    if tp is None:
        R.undecided("R07-e", "to_pos", "kind=anchor-missing: no unique `to_pos` implemented for pest's Pair")
    else:
        verdict, msg = _pos_conversion(P, tp)
        if verdict == "unknown":
            R.undecided("R07-e", "to_pos", msg, loc=tp.loc())
        else:
            R.check("R07-e", "to_pos", verdict == "ok", msg, msg, loc=tp.loc())
    n = 0
    unreached = set(ai.unreached())
    for (adt, fld), rec in sorted(ai.fills.items()):
        if fld in ("position", "pos"):
            n += 1
            key = "position-source:" + adt.split("::")[-1]
            if rec["m"]:
                R.holds("R07-e", key, "position taken from a pair (%s)" % ",".join(sorted(rec["m"])[:3]))
            elif rec["fuzzy"] or rec.get("unknown") or (rec["fns"] & unreached):
                R.undecided("R07-e", key, "the source of %s.%s is not decided (filled in a function the interpreter does not reach)" % (adt, fld))
            else:
                R.violated("R07-e", key, "%s.%s is not derived from a parsed pair" % (adt, fld))
    R.floor("R07-e", "position fields", n, 35)
    bad = []
    for p, f in ai.fns.items():
        for c in f.walk():
            if c.get("k") != "Call":
                continue
            cn = call_name(c) or ""
            if cn.endswith("Pos::builtin") or (cn.endswith(("Pos::default", "Default::default")) and norm(c.get("t") or "").endswith("base::Pos")):
                bad.append(short(p))
    R.check("R07-e", "no-builtin-positions", not bad, "no builder uses a builtin/default position", "builders that use builtin positions: %s" % bad)
    # identifiers / keywords built by hand in a builder: the name and the position must be those of the same pair
    seen = {}
    for site in ai.ident_sites:
        base = "ident-coherent:%s:%s" % (ai._rel(site["fn"]), site["adt"])
        seen[base] = seen.get(base, 0) + 1
        key = "%s#%d" % (base, seen[base] - 1)
        nm, ps = site["by"].get("name"), site["by"].get("position")
        if nm is None or ps is None or nm[2] or ps[2] or not nm[0] or not ps[0]:
            R.undecided("R07-e", key, "where the name and the position of this %s come from is not decided" % site["adt"], loc=site["loc"])
        elif set(nm[0]) <= set(ps[0]) or set(ps[0]) <= set(nm[0]):
            R.holds("R07-e", key, "name and position both from the %s pair" % "/".join(sorted(set(nm[0]) & set(ps[0]))), loc=site["loc"])
        elif not (set(nm[0]) & set(ps[0])):
            R.violated("R07-e", key, "the name of this %s is the text of a %s pair, but its position is that of a %s pair: the reported position "
                       "does not point at the name" % (site["adt"], "/".join(sorted(nm[0])), "/".join(sorted(ps[0]))), loc=site["loc"])
        else:
            R.undecided("R07-e", key, "name from %s, position from %s: not decided" % (sorted(nm[0]), sorted(ps[0])), loc=site["loc"])
    for name in ("to_ident", "to_keyword"):
        f = _pair_prim(P, name)
        if f is None:
            R.undecided("R07-e", name, "kind=anchor-missing: no unique `%s` implemented for pest's Pair" % name)
            continue
        calls = {c["method"] for c in inlined(P, f).walk() if c.get("k") == "MethodCall"}
        calls |= {(call_name(c) or "").split("::")[-1] for c in inlined(P, f).walk() if c.get("k") == "Call"}
        if {"to_pos", "as_str"} <= calls:
            R.holds("R07-e", name, "%s = (to_pos(), as_str())" % name, loc=f.loc())
        else:
            R.undecided("R07-e", name, "%s is not visibly built from to_pos()/as_str() (calls: %s): not decided" % (name, sorted(calls)), loc=f.loc())


RULES = [("R07-a", r07a), ("R07-b", r07b), ("R07-c", r07c), ("R07-d", r07d), ("R07-e", r07e)]
EXPLANATION = (
    "Grammar/builder agreement decided by language inclusion, for every input text: (R07-a) for every builder site, the regular language "
    "of child-token sequences the pest grammar can emit for the rules reaching that site (pest's emission semantics: atomic/compound/"
    "silent rules, lookaheads, EOI) is included, exactly, in what the site consumes — parts! slot patterns, only_child, all_children, "
    "branches on the rule of a pair that panic (match / if / let-else / matches! / helper predicates), manual next() sequences; rule "
    "sets of Pair values are computed by a flow-sensitive abstract interpretation of the builders over the typed HIR (closures, loops, "
    "helper functions with parameters and return values joined over call sites to a fixpoint); exact acceptance means no panic and no "
    "silently ignored child; a rule set that went through a construct the interpreter does not model exactly makes a failing site "
    "UNDECIDED, not VIOLATED; (R07-b) finite text languages (operation types, escapes with their code points, booleans) equal the arms "
    "consuming them, located by what they consume; (R07-c) each AST field is filled only from the grammar part the GraphQL grammar "
    "assigns to it (reviewed table tables/field_fill.json) or from pairs obtained from inside that part — VIOLATED when it derives from a "
    "foreign part or reads the text/position of an enclosing pair; (R07-d) lexical conformance of selected productions with the spec, and "
    "block strings must pass through a BlockStringValue() routine; (R07-e) 1-based to 0-based position conversion, every position "
    "derived from a pair, hand-built identifiers take name and position from the same pair. Not decided: parse(render(A)) = A for all "
    "renderings; column units for non-BMP text; whether a position read from a sub-part equals the part's start.")
ASSUMPTIONS = ["pest 2.7 token-emission semantics as modelled in rules/gram.py (atomicity, silent rules, implicit trivia emits no tokens)",
               "ordered choice over-approximated by union", "tables/field_fill.json reviewed by hand against the GraphQL grammar"]


def main(tier):
    return harness.run_property("C07", RULES, "other", EXPLANATION, ASSUMPTIONS, tier)
