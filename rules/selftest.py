"""Mutation self-test (DESIGN.md §9 "both ways"): every break-patch kept under seeded/ and selftest/ must be reported by the
check of its property when applied to a scratch copy of /repo's current working tree.

The scratch copy lives outside /repo and /verif and is removed, with its build output, as soon as the run ends. A patch that
no longer applies, or a mutation that is not reported, is a *self-test* failure (printed as SELFTEST-MISS), never a property
violation.
"""
import glob
import json
import os
import shutil
import subprocess
import sys
import tempfile
from concurrent.futures import ThreadPoolExecutor

import harness

# mutations whose break shows up under another property's rules as well (or instead)
ALSO = {
    "C14-m2": ["C19"],     # loader task ids reused: a C19 rule (ids-monotonic)
    "C10-m2": ["C09", "C10"],
}


def patches_for(prop):
    out = []
    for d in sorted(glob.glob(os.path.join(harness.VERIF, "seeded", "*"))):
        sid = os.path.basename(d)
        props = ALSO.get(sid, [sid.split("-")[0]])
        if prop in props and os.path.exists(os.path.join(d, "patch.diff")):
            out.append((sid, os.path.join(d, "patch.diff")))
    for f in sorted(glob.glob(os.path.join(harness.VERIF, "selftest", prop + "-*.diff"))):
        out.append((os.path.basename(f)[:-5], f))
    return out


def one(prop, sid, patch):
    scratch = tempfile.mkdtemp(prefix="verif-selftest-")
    try:
        for item in ("crates", "Cargo.toml", "Cargo.lock"):
            src = os.path.join(harness.REPO, item)
            dst = os.path.join(scratch, item)
            if os.path.isdir(src):
                shutil.copytree(src, dst, ignore=shutil.ignore_patterns("target"))
            elif os.path.exists(src):
                shutil.copy(src, dst)
        r = subprocess.run(["patch", "-p1", "-s", "--no-backup-if-mismatch", "-i", patch], cwd=scratch, stdout=subprocess.PIPE, stderr=subprocess.STDOUT, text=True)
        if r.returncode != 0:
            return sid, "patch-does-not-apply", r.stdout[-300:]
        env = dict(os.environ)
        env["VERIF_REPO"] = scratch
        env["VERIF_SUBRUN"] = "1"
        r = subprocess.run([sys.executable, os.path.join(harness.VERIF, "rules", "run.py"), prop, "--tier", "quick"], env=env,
                           stdout=subprocess.PIPE, stderr=subprocess.STDOUT, text=True)
        viol = [l for l in r.stdout.split("\n") if l.startswith("VIOLATION")]
        keys = [l.strip().split(" @ ")[0] for l in r.stdout.split("\n") if l.startswith("  R") and " @ " in l]
        if r.returncode == 1 and viol:
            return sid, "caught", keys[:4]
        if r.returncode == 2:
            return sid, "error", r.stdout[-400:]
        return sid, "missed", r.stdout[-300:]
    finally:
        shutil.rmtree(scratch, ignore_errors=True)


def run(prop, workers=4):
    ps = patches_for(prop)
    if not ps:
        return {"patches": 0, "caught": [], "missed": [], "errors": []}
    res = {"patches": len(ps), "caught": [], "missed": [], "errors": []}
    with ThreadPoolExecutor(max_workers=workers) as ex:
        for sid, status, info in ex.map(lambda a: one(prop, *a), ps):
            if status == "caught":
                res["caught"].append({"mutation": sid, "reported": info})
                print("  selftest %-8s caught by %s" % (sid, ", ".join(info[:2])))
            elif status == "missed":
                res["missed"].append(sid)
                print("SELFTEST-MISS property=%s mutation=%s is not reported" % (prop, sid))
            else:
                res["errors"].append({"mutation": sid, "status": status, "info": info})
                print("SELFTEST-ERROR property=%s mutation=%s %s" % (prop, sid, status))
    return res
