"""Self-test of the rule set, both ways (DESIGN.md §9): every break-patch kept under seeded/ and selftest/ must be reported by the
check of its property, and every behaviour-preserving patch kept under benign/ must leave it silent, when applied to a scratch
copy of /repo's current working tree.

The scratch copy lives outside /repo and /verif and is removed, with its build output, as soon as its facts are extracted; the
facts are kept under .cache/regress/<key> (key = patch content + hash of /repo's tree + driver hash) so that the 20 thorough
checks and the developer sweep (tools/regress.py) pay for one extraction per patch.  A patch that no longer applies, a mutation
that is not reported, or a benign patch that raises an alarm is a *self-test* failure (SELFTEST-MISS / SELFTEST-FALSE-ALARM /
SELFTEST-ERROR lines), never a property violation.
"""
import glob
import hashlib
import json
import os
import shutil
import subprocess
import sys
import tempfile
from concurrent.futures import ThreadPoolExecutor

import harness

ROOT = os.path.join(harness.CACHE, "regress")

# mutations whose break shows up under another property's rules as well (or instead)
ALSO = {
    "C14-m2": ["C19"],     # loader task ids reused: a C19 rule (ids-monotonic)
    "C10-m2": ["C09", "C10"],
    # string-prefix fast path in nitrogql_utils::relative_path, written as a C06 mutation (wrong `sources`): the defect is in the
    # path function, which C20's rules are about
    # the diagnostic renderer slices a line at an offset in the wrong unit and panics: filed under C18 (exit status), it is a panic
    "C18-r4m3": ["C18", "C08"],
    "C06-r4m3": ["C06", "C20"],
    "C06-r5m2": ["C06", "C20"],
    # round 6: a byte offset measured on one line cuts another (a panic on multi-byte indentation): filed under C10 (jsdoc dedent)
    # and C18 (diagnostic rendering), both are panics on input text, which is C08's subject
    "C10-r6m1": ["C10", "C08"],
    "C18-r6m2": ["C18", "C08"],
    # a duplicate definition in another file at the same line/column is silently dropped: filed under C17 (order dependence),
    # the dropped duplicate error is C11's subject (the same family as C11-r6m3)
    "C17-r6m1": ["C17", "C11"],
    # two-site: the checker stops validating the body of a fragment whose type condition is not composite (a C03 break on its
    # own: `... on Role { id }` is accepted) and the printer panics on such a condition
    "C08-r6m1": ["C08", "C03"],
    # normalize_path cancels `..` only below a depth: filed under C13 (imports land on the wrong file); the path function is C20's
    "C13-r6m1": ["C13", "C20"],
    # round 7: byte slicing at an offset measured on another line (a panic on multi-byte indentation), as in round 6
    "C10-r7m2": ["C10", "C08"],
    "C18-r7m3": ["C18", "C08"],
    # the printer caps the list of branching variables while the skip test still expects every variable: a panic (C08) and no
    # Result type at all (C01 reports the cut variable list)
    "C08-r7m3": ["C08", "C01"],
    # round 8: operation files registered before the plugin's virtual schema file (FileStore order panic, exit 0): C18's
    # schema-before-operations clause, as for C18-r6m1
    "C08-r8m3": ["C08", "C18"],
    # a duplicate definition across two files at the same line/column silently accepted (as C17-r6m1)
    "C17-r8m2": ["C17", "C11"],
}


def patches_for(prop):
    out = []
    for d in sorted(glob.glob(os.path.join(harness.VERIF, "seeded", "*"))):
        sid = os.path.basename(d)
        props = ALSO.get(sid, [sid.split("-")[0]])
        if prop in props and os.path.exists(os.path.join(d, "patch.diff")):
            out.append((sid, os.path.join(d, "patch.diff")))
    for f in sorted(glob.glob(os.path.join(harness.VERIF, "selftest", prop + "-*.diff"))):
        out.append((os.path.basename(f)[:-5], f))
    return out


def benign_patches(prop=None):
    """Behaviour-preserving patches for the self-test of `prop`: the ones written against that property (their meta.json names
    it) plus a fixed, evenly spaced sample of the others, so that a cold thorough run stays within minutes; VERIF_SELFTEST_ALL=1
    (and tools/regress.py) use the whole corpus."""
    allp = [(os.path.basename(d), os.path.join(d, "patch.diff")) for d in sorted(glob.glob(os.path.join(harness.VERIF, "benign", "*")))
            if os.path.exists(os.path.join(d, "patch.diff"))]
    if prop is None or os.environ.get("VERIF_SELFTEST_ALL"):
        return allp
    own, rest = [], []
    for sid, p in allp:
        try:
            meta = json.load(open(os.path.join(os.path.dirname(p), "meta.json")))
        except Exception:
            meta = {}
        (own if str(meta.get("property", "")).upper().startswith(prop) else rest).append((sid, p))
    step = max(1, len(rest) // 20)
    return own + rest[::step][:20]


def base_key():
    if not os.path.exists(harness.DRIVER):
        harness.build_engines()
    return harness.repo_hash(extra=harness._sha(harness.DRIVER))


def facts_for(patch, bkey):
    """facts directory of (/repo's current tree + patch); extracted once, then cached. -> (dir | None, error | None)"""
    key = hashlib.sha256((bkey + harness._sha(patch)).encode()).hexdigest()[:24]
    d = os.path.join(ROOT, key)
    if os.path.exists(os.path.join(d, "DONE")):
        return d, None
    os.makedirs(ROOT, exist_ok=True)
    # two checks running side by side may want the same patch: one extracts, the other waits and reuses
    import fcntl
    os.makedirs(os.path.join(harness.CACHE, "locks"), exist_ok=True)
    with open(os.path.join(harness.CACHE, "locks", "regress-" + key), "w") as lk:
        fcntl.flock(lk, fcntl.LOCK_EX)
        if os.path.exists(os.path.join(d, "DONE")):
            return d, None
        return _extract_patch_facts(patch, d)


def _extract_patch_facts(patch, d):
    shutil.rmtree(d, ignore_errors=True)
    os.makedirs(d)
    scratch = tempfile.mkdtemp(prefix="verif-selftest-")
    target = tempfile.mkdtemp(prefix="verif-selftest-target-")
    try:
        for it in ("crates", "Cargo.toml", "Cargo.lock"):
            src = os.path.join(harness.REPO, it)
            dst = os.path.join(scratch, it)
            if os.path.isdir(src):
                shutil.copytree(src, dst, ignore=shutil.ignore_patterns("target"))
            elif os.path.exists(src):
                shutil.copy(src, dst)
        # only what the workspace build reads: patches may also touch docs / the TypeScript packages
        r = subprocess.run(["git", "apply", "--include=crates/*", "--include=Cargo.toml", "--include=Cargo.lock", os.path.abspath(patch)],
                           cwd=scratch, stdout=subprocess.PIPE, stderr=subprocess.STDOUT, text=True)
        if r.returncode != 0:
            shutil.rmtree(d, ignore_errors=True)
            return None, "patch-does-not-apply: " + r.stdout[-200:]
        env = harness.offline_env()
        env["LD_LIBRARY_PATH"] = harness.nightly_sysroot() + "/lib"
        env["RUSTFLAGS"] = "-Zmir-opt-level=0 -Awarnings"
        env["RUSTC_WORKSPACE_WRAPPER"] = harness.DRIVER
        env["FACTDRV_OUT"] = d
        env["CARGO_TARGET_DIR"] = target
        r = harness.sh("cargo +nightly check --workspace --offline", cwd=scratch, env=env)
        if r.returncode != 0 or not any(f.endswith(".json") for f in os.listdir(d)):
            shutil.rmtree(d, ignore_errors=True)
            return None, "does-not-build: " + r.stdout[-300:]
        os.makedirs(os.path.join(d, "_raw"), exist_ok=True)
        shutil.copy(os.path.join(scratch, "crates/parser/src/parser/grammar.pest"), os.path.join(d, "_raw", "grammar.pest"))
        open(os.path.join(d, "DONE"), "w").write(json.dumps({"patch": patch}))
        return d, None
    finally:
        shutil.rmtree(scratch, ignore_errors=True)
        shutil.rmtree(target, ignore_errors=True)


def evaluate(props, d):
    """run the quick rules of `props` on the facts in d -> dict(rc, violations=[rule keys], undecided=[keys], errors=[lines], out)"""
    env = dict(os.environ)
    env["VERIF_FACTS_DIR"] = d
    env["VERIF_SUBRUN"] = "1"
    env["VERIF_TIER"] = "quick"
    r = subprocess.run([sys.executable, os.path.join(harness.VERIF, "rules", "run.py")] + list(props) + ["--tier", "quick"], env=env,
                       stdout=subprocess.PIPE, stderr=subprocess.STDOUT, text=True)
    lines = r.stdout.split("\n")
    keys = [l.strip().split(" @ ")[0] for l in lines if l.startswith("  R") and " @ " in l]
    und = [l.strip()[len("UNDECIDED "):].split(": ")[0] for l in lines if l.startswith("  UNDECIDED")]
    err = [l for l in lines if l.startswith("ERROR") or "Traceback" in l or l.startswith("RULE-CRASH")]
    return {"rc": r.returncode, "violations": keys, "undecided": und, "errors": err, "out": r.stdout}


def run(prop, workers=5):
    muts = patches_for(prop)
    ben = benign_patches(prop)
    res = {"patches": len(muts), "caught": [], "missed": [], "errors": [], "benign_patches": len(ben), "benign_silent": 0,
           "false_alarms": []}
    if not muts and not ben:
        return res
    bkey = base_key()
    items = [("mut", sid, p) for sid, p in muts] + [("benign", sid, p) for sid, p in ben]

    def one(it):
        kind, sid, patch = it
        d, err = facts_for(patch, bkey)
        if err:
            return kind, sid, None, err
        return kind, sid, evaluate([prop], d), None

    with ThreadPoolExecutor(max_workers=workers) as ex:
        for kind, sid, r, err in ex.map(one, items):
            if err or r["rc"] == 2 or (r["errors"] and not r["violations"]):
                res["errors"].append({"patch": sid, "info": err or (r["errors"] or [r["out"][-200:]])[0]})
                print("SELFTEST-ERROR property=%s patch=%s %s" % (prop, sid, (err or "check error")[:160]))
            elif kind == "mut":
                if r["violations"]:
                    res["caught"].append({"mutation": sid, "reported": r["violations"][:4]})
                    print("  selftest %-10s caught by %s" % (sid, ", ".join(r["violations"][:2])))
                else:
                    res["missed"].append(sid)
                    print("SELFTEST-MISS property=%s mutation=%s is not reported" % (prop, sid))
            else:
                if r["violations"]:
                    res["false_alarms"].append({"patch": sid, "reported": r["violations"][:4]})
                    print("SELFTEST-FALSE-ALARM property=%s benign=%s raises %s" % (prop, sid, ", ".join(r["violations"][:3])))
                else:
                    res["benign_silent"] += 1
    print("  selftest %s: %d/%d mutations reported, %d/%d behaviour-preserving patches silent" % (
        prop, len(res["caught"]), len(muts), res["benign_silent"], len(ben)))
    return res
