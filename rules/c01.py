"""C01 — Generated result types admit every spec-conformant response (structural clauses only).

What is decided here is *not* the inclusion "every response is a member of the emitted type" (that quantifies over responses and
TypeScript's semantics). It is the finite part of it that is visible in the shape of the generator: the union of branches the
generator emits is built from a complete case analysis — every possible runtime object type times every assignment of the boolean
variables in play — and no step between that case analysis and the printed union can drop a case or tighten a member:

  R01-a  exact nullability tables of the output side (shared with C02: the tables are compared for equality, so a missing `| null`
         — which makes the type too strict — is reported as well as a spurious one);
  R01-b  branch coverage: parent objects = the object / all implementers / all union members, each boolean variable contributes
         both values, the two are combined by a full cartesian product, the variable enumeration visits every selection and every
         @skip/@include directive, and nothing filters the product;
  R01-c  branch identity: whatever pairs the branches of two occurrences of one response key must distinguish everything a
         BranchingCondition distinguishes (else the merge collapses cases);
  R01-d  the merge table of same-key fields and the skip/include table are exact (shared with C02), and `fast_equal`, which licenses
         de-duplication of union members, never equates different types.
"""
import harness
from facts import norm, call_name, short, subnodes, lit_value, matches_on
from prov import Prov, has_field, has_call
from templates import LOSSY_OR_REORDERING, variant_table, enclosing_contexts
import c02

PR = "nitrogql_printer::"
OT = PR + "operation_type_printer::"
TSD = "graphql_type_system::definitions::"
BC = OT + "branching::BranchingCondition"
STB = OT + "selection_tree::SelectionTreeBranch"


def r01a(P, R):
    # the C02 table rules are equalities against the spec table: they decide both directions
    c02.r02a(P, _Relabel(R, "R01-a"))


class _Relabel:
    """forwards to a Reporter, replacing the rule id (shared rule bodies report under this property's own rule ids)"""

    def __init__(self, R, new, _unused=None):
        self.R, self.new = R, new

    def __getattr__(self, name):
        f = getattr(self.R, name)
        if name in ("holds", "violated", "undecided", "check", "floor"):
            def g(rule, *a, **kw):
                return f(self.new, *a, **kw)
            return g
        return f


def r01b(P, R):
    g = P.fn(OT + "type_printer::generate_branching_conditions")
    pv = Prov(g)
    # (1) parent objects per kind
    ms = matches_on(g, "TypeDefinition")
    R.floor("R01-b", "kind match in generate_branching_conditions", len(ms), 1)
    for m in ms:
        tab = variant_table(m)
        for kind, need in (("Object", None), ("Interface", "utils::interface_implementers"), ("Union", None)):
            arm = tab.get(kind)
            if arm is None:
                R.violated("R01-b", "parents:" + kind, "generate_branching_conditions has no arm for %s parents" % kind, loc=g.loc())
                continue
            a = pv.atoms(arm["body"])
            lossy = sorted({c["method"] for c in subnodes(arm["body"]) if c.get("k") == "MethodCall" and c["method"] in LOSSY_OR_REORDERING})
            if kind == "Interface":
                ok = has_call(a, need)
            elif kind == "Union":
                ok = has_field(a, TSD + "UnionDefinition", "possible_types")
            else:
                ok = True
            R.check("R01-b", "parents:" + kind, ok and not lossy,
                    "%s parent: %s" % (kind, {"Object": "the object itself", "Interface": "all implementers", "Union": "all members"}[kind]),
                    "for a %s parent the candidate runtime types are %s%s: responses whose __typename is a dropped type have no branch"
                    % (kind, "not enumerated from the schema" if not ok else "enumerated", (" and then cut down with %s" % lossy) if lossy else ""), loc=g.loc())
    imp = P.fn(PR + "utils::interface_implementers")
    lossy = sorted({c["method"] for c in imp.walk() if c.get("k") == "MethodCall" and c["method"] in (LOSSY_OR_REORDERING - {"filter", "filter_map"})})
    ia = Prov(imp).atoms(imp.body)
    R.check("R01-b", "implementers-all", not lossy and has_call(ia, "Schema::iter_types") and has_field(ia, TSD + "ObjectDefinition", "interfaces"),
            "implementers = every object of the schema that lists the interface", "interface_implementers truncates (%s) or does not scan all types" % lossy, loc=imp.loc())
    # (2) both values per variable, full products
    pairs = [t for t in g.walk() if t.get("k") == "Tup" and len(t["es"]) == 2 and lit_value(t["es"][1]) in (True, False)]
    vals = sorted({lit_value(t["es"][1]) for t in pairs})
    R.check("R01-b", "variables-both-values", vals == [False, True], "every boolean variable contributes (v, false) and (v, true)",
            "boolean variables contribute only %s" % vals, loc=g.loc())
    calls = {c["method"] for c in g.walk() if c.get("k") == "MethodCall"}
    R.check("R01-b", "assignments-product", "multi_cartesian_product" in calls, "assignments = product over the variables",
            "the assignments of several variables are not combined by a product", loc=g.loc())
    R.check("R01-b", "conditions-product", "cartesian_product" in calls, "conditions = parent objects x assignments",
            "parent objects and assignments are not combined by a product", loc=g.loc())
    outer_lossy = sorted({c["method"] for c in g.walk() if c.get("k") == "MethodCall" and c["method"] in (LOSSY_OR_REORDERING - {"unique"})})
    R.check("R01-b", "conditions-unfiltered", not outer_lossy, "no condition is filtered out", "conditions are cut down with %s" % outer_lossy, loc=g.loc())
    # (3) the variable enumeration sees every directive of every selection
    gb = P.fn(OT + "type_printer::get_boolean_variables")
    exits = [x.get("k") for x in gb.walk() if x.get("k") in ("Break", "Ret", "Continue") and not x.get("x")]
    # `return None` inside the find_map closure (argument name test) is the only early exit allowed
    rets = [i for i, (x, _) in enumerate(gb.nodes()) if x.get("k") == "Ret"]
    bad = []
    for i in rets:
        inner = [c for c in enclosing_contexts(gb, i) if c[0] == "closure"]
        calls_ = [n for n in gb.walk() if n.get("k") == "MethodCall" and n["method"] in ("find_map", "filter_map") and inner and any(a is inner[0][1] for a in n["args"])]
        if not calls_:
            bad.append("return")
    bad += [k for k in exits if k in ("Break",)]
    R.check("R01-b", "variables-all-directives", not bad, "every @skip/@include of every visited selection is inspected",
            "get_boolean_variables leaves its directive loop early (%s): a variable used only by a later directive is not branched on" % bad, loc=gb.loc())
    lits = {x.get("v") for x in gb.walk() if x.get("k") == "Lit" and x.get("lk") == "str"}
    R.check("R01-b", "variables-both-directives", {"skip", "include", "if"} <= lits, "@skip and @include, argument `if`",
            "get_boolean_variables looks at %s" % sorted(lits), loc=gb.loc())
    vf = P.fn(OT + "selection_set_visitor::visit_fields_in_selection_set_impl")
    vcalls = [(i, x) for i, (x, _) in enumerate(vf.nodes()) if x.get("k") == "Call" and call_name(x) is None]
    cond = [c[0] for i, x in vcalls for c in enclosing_contexts(vf, i)
            if (c[0] == "arm" and c[1] is not None and c[1].get("src") == "Normal") or c[0] in ("if-then", "if-else", "let-else")]
    R.check("R01-b", "visitor-every-selection", len(vcalls) == 1 and not cond, "the visitor sees every selection (fields, spreads, inline fragments)",
            "the selection visitor is invoked conditionally (%s)" % cond, loc=vf.loc())
    # (4) one branch per condition: get_type_for_selection_set maps every condition
    gt = P.fn(OT + "type_printer::get_type_for_selection_set")
    lossy = sorted({c["method"] for c in gt.walk() if c.get("k") == "MethodCall" and c["method"] in LOSSY_OR_REORDERING})
    R.check("R01-b", "branch-per-condition", not lossy and has_call(Prov(gt).atoms(gt.body), "type_printer::generate_branching_conditions"),
            "one branch per branching condition", "get_type_for_selection_set drops conditions (%s)" % lossy, loc=gt.loc())


def r01c(P, R):
    """what identifies a branch after it has been built"""
    go = P.fn(OT + "type_printer::get_object_type_for_selection_set")
    pv = Prov(go)
    lits = [n for n in go.walk() if n.get("k") == "Struct" and "rest" not in n and norm(n.get("adt", "")) == STB]
    R.floor("R01-c", "SelectionTreeBranch constructions", len(lits), 1)
    bc_fields = set(P.adt(BC).fields())
    stb = P.adt(STB)
    content = {"unaliased_fields", "aliased_fields"}
    for n in lits:
        ident = set()
        for fld in n["fields"]:
            if fld["name"] in content:
                continue
            ident |= {x[2] for x in pv.atoms(fld["e"]) if x[0] == "field" and x[1] == BC}
        missing = sorted(bc_fields - ident)
        # who pairs branches, and by what
        mg = P.fn(OT + "deep_merge::merge_selection_trees")
        keys = sorted({x[2] for x in Prov(mg).atoms(mg.body) if x[0] == "field" and x[1] == STB and x[2] not in content})
        R.check("R01-c", "merge-branch-key-drops-variables", not missing,
                "a branch carries every component of the condition it was built for",
                "a SelectionTreeBranch records only %s of its BranchingCondition (not %s) and merge_selection_trees pairs the branches of two "
                "occurrences of one response key by %s alone, taking the first match: when the occurrences branch on different boolean "
                "variables the merged union lacks the cases of the second occurrence's variable, so a conforming response is rejected "
                "(`me { id @skip(if:$f) } me { name @skip(if:$g) }` requires `name` even when $g is true)"
                % (sorted(ident) or "nothing", missing, keys), loc=go.loc())


def r01d(P, R):
    c02.r02e(P, _Relabel(R, "R01-d"))
    c02.r02f(P, _Relabel(R, "R01-d"))


RULES = [("R01-a", r01a), ("R01-b", r01b), ("R01-c", r01c), ("R01-d", r01d)]
EXPLANATION = (
    "Structural necessary conditions of completeness of the emitted Result types, decided for all schemas and documents: (R01-a) the "
    "output-side nullability tables equal the spec table (a missing `| null` is reported); (R01-b) the case analysis behind the union of "
    "branches is complete — object itself / all implementers / all union members, both values of every boolean variable found by a "
    "visitor that sees every selection and every @skip/@include, combined by full cartesian products with no filter; (R01-c) a branch "
    "keeps every component of its condition, so that merging two occurrences of a response key cannot collapse cases; (R01-d) the "
    "same-key merge table, the skip/include table and fast_equal (which licenses union de-duplication) are exact. NOT decided: the "
    "inclusion itself (membership of every response in the TypeScript type, the __SelectionSet utility type, scalar mappings).")
ASSUMPTIONS = ["itertools::cartesian_product / multi_cartesian_product / unique behave as documented",
               "rustc type checker resolves callees (facts)",
               "TypeScript semantics of the emitted utility types is outside the claim"]


def main(tier):
    return harness.run_property("C01", RULES, "other", EXPLANATION, ASSUMPTIONS, tier)
